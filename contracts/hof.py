"""C19 - RandomSearchSolver.update_hof / tournament_selection (graphiq/solvers/solver_base.py): the REAL bodies are interpreted.

update_hof(population)     scores are z3 Reals (S3: machine floats as mathematical reals; np.isclose(a, b) is modelled by its
                           documented definition |a-b| <= atol + rtol*|b|, atol=1e-8, rtol=1e-5; isclose(x, inf) = False for finite x)
  requires  len(hof) = n_hof,  Sorted(hof)  (non-decreasing stored scores; (inf, None) sentinels only as a suffix),
            every population score finite
  ensures   len(hof') = n_hof                                                          [post.len-unchanged]
            Sorted(hof')  - the clause of the property statement                       [post.sorted]      << REFUTED, finding
            hof'[0] <= hof[0]  ("the best score never gets worse", result = hof[0])    [post.best-not-worse] << REFUTED, same cause
            every entry of hof' is an old entry (old entries keep their relative order, only a tail is dropped) or a NEW
            tuple (score_k, c) where c is the object returned by population[k][1].copy() - never a population circuit
            itself (ownership)                                                           [post.entries]
            frame: population list / tuples / circuits are not written, no mutator is called on them, self.hof stays the
            same list object                                                             [frame.*]
            what IS provable about the order: adjacent entries of hof' are ordered or within the isclose tolerance of
            each other                                                                   [post.sorted-up-to-isclose]
            (no such statement holds for hof'[0] against hof[0]: m near-ties can drift the front entry by m tolerances)
  Sizes: the loops run over python lists, so hof sizes 1..3 x population sizes 1..2 x sentinel suffixes are unrolled
  ([F over sizes <= 3]; scores and node counts are symbolic: [P] over those).
  Circuits are abstract objects: `.copy()` is a recorder, `len(circuit.dag.nodes)` an uninterpreted integer per circuit.

tournament_selection(population, k)   [A] random.choices(pop, k=k) = k elements pop[i_j], i_j arbitrary;  copy.deepcopy = fresh
  equal object graph.  ensures: k == 0 -> returns `population` itself; else a list of n_pop NEW tuples, each the deep copy of
  the first minimum-score element of its own k draws; population not written.  (n_pop <= 2, |population| <= 3, k <= 2 unrolled.)
"""
from __future__ import annotations

import ast
import itertools

import z3

from pyvc import source, models
from pyvc.contract import Contract
from pyvc.interp import Interp, Engine, Path, explore, RaiseEx, Undecided, PathEnd, Frame
from pyvc.trace import recorder
from pyvc.values import Obj, Opaque, Builtin, FuncRef, is_sym, to_z3, concrete_int
from .metrics import HarnessTask, rec, reachable

SB = "graphiq.solvers.solver_base"
CDAG = "graphiq.circuit.circuit_dag"
CIRC = "graphiq.circuit.circuit_base"
ATOL, RTOL = z3.Q(1, 10**8), z3.Q(1, 10**5)
INF = float("inf")

INLINE = {f"{SB}:RandomSearchSolverSetting.n_hof", f"{SB}:RandomSearchSolverSetting.n_pop"}


def _abs(x):
    return z3.If(x >= 0, x, -x)


def isclose_term(a, b, atol=None, rtol=None):
    """np.isclose(a, b) for finite reals: |a - b| <= atol + rtol * |b|   (numpy's definition, asymmetric in b)"""
    atol = ATOL if atol is None else atol
    rtol = RTOL if rtol is None else rtol
    a, b = to_z3(a), to_z3(b)
    if z3.is_int(a):
        a = z3.ToReal(a)
    if z3.is_int(b):
        b = z3.ToReal(b)
    return _abs(a - b) <= atol + rtol * _abs(b)


def _np_isclose(interp, a, b, *args, **kw):
    models.used("np.isclose(a,b) = |a-b| <= 1e-8 + 1e-5*|b| on finite reals; False against +-inf unless both are the same inf (S3)")
    if args or kw:
        raise Undecided("np.isclose with explicit tolerances")
    ainf = isinstance(a, float) and a in (INF, -INF)
    binf = isinstance(b, float) and b in (INF, -INF)
    if ainf or binf:
        if ainf and binf:
            return a == b
        return False
    if not (is_sym(a) or is_sym(b)):
        return abs(a - b) <= 1e-8 + 1e-5 * abs(b)
    return isclose_term(a, b)


models.NUMPY.setdefault("isclose", _np_isclose)


# ---------------------------------------------------------------------------------------------
# abstract circuits
# ---------------------------------------------------------------------------------------------

def abstract_circuit(I, name):
    o = Obj(I.get_class(CDAG, "CircuitDAG"))
    o.fields["__name__"] = name
    o.fields["dag"] = Opaque("dag", o)
    return o


def nnodes(name):
    return z3.Int(f"nnodes[{name}]")


def h_getattr(I, obj, attr):
    if obj is None:
        raise RaiseEx("AttributeError", f"'NoneType' object has no attribute '{attr}'")
    if isinstance(obj, Opaque) and obj.tag == "dag" and attr == "nodes":
        return Opaque("nodes", obj.payload)
    return NotImplemented


def h_len(I, x):
    if isinstance(x, Opaque) and x.tag == "nodes":
        return nnodes(x.payload.fields["__name__"])
    return None


def copy_contract():
    def copy(I, self):
        c = abstract_circuit(I, f"copy({self.fields['__name__']})")
        I.path.assume(nnodes(c.fields["__name__"]) == nnodes(self.fields["__name__"]))  # [A] deepcopy: equal circuit
        I.path.ghost.setdefault("copies", []).append((self, c))
        return c

    return {f"{CIRC}:CircuitBase.copy": recorder(f"{CIRC}:CircuitBase.copy", "copy", result=copy)}


HOOKS = {"getattr": h_getattr, "len": h_len}


# ---------------------------------------------------------------------------------------------
# update_hof
# ---------------------------------------------------------------------------------------------

def _le(a, b):
    """a <= b on scores that are z3 reals or the +inf sentinel -> z3 Bool / python bool"""
    if isinstance(b, float) and b == INF:
        return True
    if isinstance(a, float) and a == INF:
        return False
    return to_z3(a) <= to_z3(b)


def _close(a, b, atol=None, rtol=None):
    """symmetric closeness |a-b| <= atol + rtol*max(|a|,|b|)  (implied by np.isclose in either argument order)"""
    if isinstance(a, float) or isinstance(b, float):
        return isinstance(a, float) and isinstance(b, float)
    a, b = to_z3(a), to_z3(b)
    return z3.Or(isclose_term(a, b, atol, rtol), isclose_term(b, a, atol, rtol))


def _and(parts):
    parts = [z3.BoolVal(p) if isinstance(p, bool) else p for p in parts]
    return z3.And(*parts) if parts else z3.BoolVal(True)


def _b(x):
    return z3.BoolVal(x) if isinstance(x, bool) else x


def sorted_term(scores):
    return _and([_le(a, b) for a, b in zip(scores, scores[1:])])


def approx_sorted_term(scores):
    return _and([z3.Or(_b(_le(a, b)), _b(_close(a, b))) for a, b in zip(scores, scores[1:])])


def mk_solver(I, n_hof, n_finite, n_pop_setting=2):
    solver = Obj(I.get_class(SB, "RandomSearchSolver"))
    setting = Obj(I.get_class(SB, "RandomSearchSolverSetting"))
    setting.fields.update(_n_hof=n_hof, _n_pop=n_pop_setting, _n_stop=1)
    solver.fields["setting"] = setting
    hof = []
    for j in range(n_hof):
        if j < n_finite:
            hof.append((z3.Real(f"h{j}"), abstract_circuit(I, f"hof{j}")))
        else:
            hof.append((INF, None))
    solver.fields["hof"] = hof
    return solver


def mk_population(I, m):
    pop = [(z3.Real(f"s{k}"), abstract_circuit(I, f"pop{k}")) for k in range(m)]
    return pop


def update_hof_task(n_hof, n_finite, m, wrong=None, label_prefix=""):
    qual = f"{SB}:RandomSearchSolver.update_hof"
    label = f"{label_prefix}RandomSearchSolver.update_hof[n_hof={n_hof},finite={n_finite},pop={m}]"
    m_, node, cls = source.find(qual)

    def harness(eng, path):
        I = Interp(path, copy_contract(), INLINE, dict(HOOKS))
        I.task_name = qual
        I.stack.append(Frame(SB, {}, label))
        solver = mk_solver(I, n_hof, n_finite)
        pop = mk_population(I, m)
        hof = solver.fields["hof"]
        old = list(hof)
        old_scores = [e[0] for e in old]
        names = [f"hof{j}" for j in range(n_finite)] + [f"pop{k}" for k in range(m)]
        for nm in names:
            path.assume(nnodes(nm) >= 0)
        # requires
        path.assume(sorted_term(old_scores))
        pre = reachable([pop])
        mark = len(I.writes)
        path.trace = []
        f = FuncRef(SB, node, qual, I.get_class(SB, "RandomSearchSolver"))
        try:
            I.call_function(f, [solver, pop], {}, force_body=True)
        except RaiseEx as e:
            eng.record(f"{label}:no-raise", "refuted", 0, f"real body raises {e.exc_name}: {e.msg}", _model(path))
            return
        eng.record(f"{label}:no-raise", "discharged", 0, "", None)
        new = solver.fields["hof"]
        rec(eng, f"{label}:frame.hof-is-the-same-list-object", new is hof, "self.hof was rebound")
        rec(eng, f"{label}:post.len-unchanged", len(new) == n_hof, f"len(hof) became {len(new)}")
        scores = [e[0] for e in new]
        # --- entries: old entries (in order, a tail dropped) or (score_k, population[k][1].copy())
        copies = path.ghost.get("copies", [])
        ok_entries, why = True, ""
        old_pos = []
        for e in new:
            hit = [j for j, o in enumerate(old) if o is e]
            if hit:
                old_pos.append(hit[0])
                continue
            good = False
            if isinstance(e, tuple) and len(e) == 2:
                for k, (s_k, c_k) in enumerate(pop):
                    if e[0] is s_k and any(src is c_k and cp is e[1] for src, cp in copies) and not any(e[1] is c for _, c in pop):
                        good = True
            if not good:
                ok_entries, why = False, f"entry {e!r} is neither an old entry nor (score_k, population[k][1].copy())"
        if old_pos != list(range(len(old_pos))):
            ok_entries, why = False, f"old entries do not survive as a prefix in their order: {old_pos}"
        if wrong == "entries-are-population-circuits":  # canary: the wrong ownership claim
            ok_entries = all(any(e[1] is c for _, c in pop) for e in new if not any(o is e for o in old))
            why = "canary: entries hold copies, not the population's own circuits"
        rec(eng, f"{label}:post.entries-are-old-or-(score,circuit.copy())", ok_entries, why)
        # --- frame on the population
        bad = [w for w in I.writes[mark:] if id(w[0]) in pre]
        rec(eng, f"{label}:frame.population-not-written", not bad, f"writes {[(type(o).__name__, w) for o, w in bad]}")
        untouched = all(a is b for a, b in zip(pop, list(pop))) and len(pop) == m
        rec(eng, f"{label}:frame.only-copy-called-on-population-circuits",
            all(ev["name"] == "copy" for ev in path.trace), f"calls {[ev['name'] for ev in path.trace]}")
        # --- order clauses
        if wrong is None:
            path.oblige(f"{label}:post.sorted", sorted_term(scores))
            best_ok = _le(scores[0], old_scores[0])
            path.oblige(f"{label}:post.best-not-worse", _b(best_ok))
        if wrong == "tight-tolerance":  # canary: the same clause with tolerances 1e-12 must NOT verify
            goal = _and([z3.Or(_b(_le(x, y)), _b(_close(x, y, z3.Q(1, 10**12), z3.Q(1, 10**12)))) for x, y in zip(scores, scores[1:])])
            path.oblige(f"{label}:post.sorted-up-to-isclose", goal)
        else:
            path.oblige(f"{label}:post.sorted-up-to-isclose", approx_sorted_term(scores))

    t = HarnessTask(qual, label, harness,
                    clause="update_hof: len unchanged, hof sorted by non-decreasing score, best not worse, entries are "
                           "(score, circuit.copy()), population untouched")
    t.sizes = (n_hof, n_finite, m)
    base_run = t.run

    def run():
        eng = base_run()
        for name, r in eng.results.items():
            if r.status == "refuted" and (name.endswith(":post.sorted") or name.endswith(":post.best-not-worse")):
                r.witness, r.replayed = replay_update_hof(r.model, n_hof, n_finite, m, name.rsplit(":", 1)[1])
            if r.status == "refuted" and wrong is None and r.model is None and getattr(r, "witness", None) is None:
                r.witness, r.replayed = native_structure_check(n_hof, n_finite, m)
            if r.status == "refuted" and wrong is None and name.endswith(":post.sorted-up-to-isclose"):
                r.witness, r.replayed = native_structure_check(n_hof, n_finite, m)
            if r.status == "refuted" and wrong == "tight-tolerance" and name.endswith(":post.sorted-up-to-isclose"):
                r.witness, r.replayed = replay_update_hof(r.model, n_hof, n_finite, m, "tight-tolerance")
            if r.status == "refuted" and wrong == "entries-are-population-circuits" and ":post.entries" in name:
                after, s_, pop_ = native_update_hof([(0.5, 0)] * n_hof, [(0.1, 0)] * m)
                alias = any(e[1] is c for e in s_.hof for _, c in pop_)
                r.witness, r.replayed = {"hof": [[0.5, 0]] * n_hof, "population": [[0.1, 0]] * m,
                                         "expected (canary)": "a hall-of-fame entry holds the population's own circuit object",
                                         "actual": "entries hold copies" if not alias else "aliased"}, not alias
        return eng

    t.run = run
    return t


def _model(path):
    s = z3.Solver()
    s.set("timeout", 3000)
    for a in path.pc:
        s.add(a)
    return s.model() if s.check() == z3.sat else None


def _val(model, t):
    v = model.eval(t, model_completion=True)
    if z3.is_int_value(v):
        return v.as_long()
    if z3.is_rational_value(v):
        return v.numerator_as_long() / v.denominator_as_long()
    if z3.is_algebraic_value(v):
        return float(v.approx(20).as_fraction())
    raise ValueError(str(v))


def native_update_hof(hof_spec, pop_spec):
    """run the REAL method: hof_spec / pop_spec = [(score | inf, n_nodes | None)]; returns the list of scores afterwards"""
    from graphiq.solvers.solver_base import RandomSearchSolver, RandomSearchSolverSetting
    from graphiq.circuit.circuit_dag import CircuitDAG
    from graphiq.circuit import ops

    def circ(n):
        c = CircuitDAG(n_emitter=1, n_photon=0, n_classical=0)
        for _ in range(n):
            c.add(ops.Hadamard(register=0, reg_type="e"))
        return c

    s = RandomSearchSolver(None, None, None, solver_setting=RandomSearchSolverSetting(n_hof=len(hof_spec)))
    s.hof = [(sc, None if n is None else circ(n)) for sc, n in hof_spec]
    pop = [(sc, circ(n)) for sc, n in pop_spec]
    before = [(sc, id(c)) for sc, c in pop]
    s.update_hof(pop)
    return [e[0] for e in s.hof], s, pop


def native_structure_check(n_hof, n_finite, m):
    """structural clauses on the real method for well-separated scores: len, fresh copies, old prefix, order, population untouched"""
    import itertools as it

    base = [0.2 * (j + 1) for j in range(n_finite)]
    hof_spec = [(sc, 1) for sc in base] + [(INF, None)] * (n_hof - n_finite)
    for news in it.product([0.1, 0.3, 0.5, 0.9], repeat=m):
        pop_spec = [(sc, 0) for sc in news]
        try:
            after, s_, pop_ = native_update_hof(hof_spec, pop_spec)
        except Exception as e:  # noqa: BLE001
            return {"hof": [[repr(a), b] for a, b in hof_spec], "population": pop_spec, "actual": f"raises {type(e).__name__}: {e}"}, True
        probs = []
        if len(s_.hof) != n_hof:
            probs.append(f"len(hof) = {len(s_.hof)}")
        if any(a > b for a, b in zip(after, after[1:])):
            probs.append(f"scores not ordered: {after}")
        if any(e[1] is c for e in s_.hof for _, c in pop_):
            probs.append("an entry holds the population's own circuit object")
        if [sc for sc, _ in pop_] != list(news) or len(pop_) != m:
            probs.append("population changed")
        want = sorted(base + list(news))[:n_hof]
        if sorted(x for x in after if x != INF) != want[:len([x for x in after if x != INF])] or (len(base) + m >= n_hof and after != want):
            probs.append(f"hof scores {after}, expected the {n_hof} smallest of old+new {want}")
        if probs:
            return {"function": "graphiq.solvers.solver_base:RandomSearchSolver.update_hof", "hof": [[repr(a), b] for a, b in hof_spec],
                    "population": [list(x) for x in pop_spec], "actual": probs}, True
    return {"note": "no well-separated native input shows the failure"}, False


CANONICAL = [([(0.5, 0), (0.7, 0)], [(0.5 - 1e-9, 0)]), ([(0.5, 1)], [(0.5 + 1e-9, 0)]), ([(0.5, 1), (0.7, 0)], [(0.5 + 1e-9, 0)]),
             ([(0.5, 0), (0.5, 0), (0.7, 0)], [(0.5 - 1e-9, 0)]), ([(INF, None), (INF, None)], [(0.5, 0), (0.5 - 1e-9, 0)]),
             ([(0.5, 0)], [(0.5 - 1e-9, 0), (0.5 - 2e-9, 0)])]


def _violates(which, before_scores, after_scores):
    if which == "tight-tolerance":
        return any(x > y and abs(x - y) > 1e-12 + 1e-12 * max(abs(x), abs(y)) for x, y in zip(after_scores, after_scores[1:]))
    if which == "post.sorted":
        return any(a > b for a, b in zip(after_scores, after_scores[1:]))
    return after_scores[0] > before_scores[0]


def replay_update_hof(model, n_hof, n_finite, m, which):
    """counter-model -> floats -> the real RandomSearchSolver.update_hof; falls back to the DESIGN section 7 #17 family of
    near-tie inputs of the same sizes when the rational model does not survive the conversion to float64"""
    tries = []
    if model is not None:
        try:
            hof_spec = [(float(_val(model, z3.Real(f"h{j}"))), int(_val(model, nnodes(f"hof{j}")))) if j < n_finite else (INF, None)
                        for j in range(n_hof)]
            pop_spec = [(float(_val(model, z3.Real(f"s{k}"))), int(_val(model, nnodes(f"pop{k}")))) for k in range(m)]
            tries.append(("counter-model of the obligation", hof_spec, pop_spec))
        except Exception as e:  # noqa: BLE001
            tries.append(("model-conversion-failed: " + str(e), None, None))
    for h, p in CANONICAL:
        if len(h) == n_hof and len(p) == m and sum(1 for s, _ in h if s != INF) == n_finite:
            tries.append(("near-tie input of DESIGN section 7 #17 (model did not replay in float64)", h, p))
    for how, h, p in tries:
        if h is None:
            continue
        try:
            after, _, _ = native_update_hof(h, p)
        except Exception as e:  # noqa: BLE001
            continue
        if _violates(which, [s for s, _ in h], after):
            return {"function": "graphiq.solvers.solver_base:RandomSearchSolver.update_hof", "found_by": how,
                    "hof [(score, extra nodes)]": [[repr(s), n] for s, n in h], "population": [[repr(s), n] for s, n in p],
                    "expected": {"post.sorted": "hof scores non-decreasing", "tight-tolerance": "adjacent scores ordered or within 1e-12"}.get(
                        which, "hof[0] score not larger than before"),
                    "actual hof scores": [repr(x) for x in after]}, True
    return {"note": "no float64 input reproduced the violation", "tried": len(tries)}, False


def update_hof_tasks(max_hof=3, max_pop=2, **kw):
    import graphiq.solvers.solver_base  # noqa: F401  (native replays: imported once in the parent; workers are forked)

    T = []
    for n in range(1, max_hof + 1):
        for fin in range(0, n + 1):
            for m in range(1, max_pop + 1):
                T.append(update_hof_task(n, fin, m, **kw))
    return T


# ---------------------------------------------------------------------------------------------
# tournament_selection
# ---------------------------------------------------------------------------------------------

def _external(I, name, attr):
    if name == "random" and attr == "choices":
        def choices(i, population, weights=None, cum_weights=None, k=1):
            models.used("random.choices(pop, k=k) = [pop[i_1],...,pop[i_k]] with arbitrary indices")
            kk = concrete_int(k)
            pop = i.iterate(population)
            if kk is None or not pop:
                raise Undecided("random.choices with symbolic k / empty population")
            out = []
            for j in range(kk):
                n = i.path.counter.get("draw", 0)
                i.path.counter["draw"] = n + 1
                pick = len(pop) - 1
                for t in range(len(pop) - 1):
                    if i.path.decide(z3.Bool(f"draw{n}_is_{t}")):
                        pick = t
                        break
                i.path.ghost.setdefault("draws", []).append(pick)
                out.append(pop[pick])
            return out
        return Builtin("random.choices", choices)
    return NotImplemented


def tournament_task(n_pop, size, k, label_prefix="", wrong=None):
    qual = f"{SB}:RandomSearchSolver.tournament_selection"
    label = f"{label_prefix}RandomSearchSolver.tournament_selection[n_pop={n_pop},pop={size},k={k}]"
    m_, node, cls = source.find(qual)

    def harness(eng, path):
        H = dict(HOOKS)
        H["external"] = _external
        I = Interp(path, copy_contract(), INLINE, H)
        I.task_name = qual
        I.stack.append(Frame(SB, {}, label))
        solver = mk_solver(I, 1, 0, n_pop_setting=n_pop)
        pop = mk_population(I, size)
        pre = reachable([pop])
        mark = len(I.writes)
        f = FuncRef(SB, node, qual, I.get_class(SB, "RandomSearchSolver"))
        try:
            ret = I.call_function(f, [solver, pop, k], {}, force_body=True)
        except RaiseEx as e:
            eng.record(f"{label}:no-raise", "refuted", 0, f"real body raises {e.exc_name}: {e.msg}", None)
            return
        eng.record(f"{label}:no-raise", "discharged", 0, "", None)
        bad = [w for w in I.writes[mark:] if id(w[0]) in pre]
        rec(eng, f"{label}:frame.population-not-written", not bad, f"writes {bad}")
        if k == 0:
            rec(eng, f"{label}:post.k=0-returns-the-population", ret is pop, "k=0 must return the population itself")
            return
        rec(eng, f"{label}:post.returns-n_pop-entries", isinstance(ret, list) and len(ret) == n_pop and ret is not pop,
            f"returned {type(ret).__name__} of length {len(ret) if isinstance(ret, list) else '?'}")
        draws = path.ghost.get("draws", [])
        rec(eng, f"{label}:post.k-draws-per-entry", len(draws) == n_pop * k, f"{len(draws)} draws")
        if not isinstance(ret, list) or len(ret) != n_pop or len(draws) != n_pop * k:
            return
        # moves edit circuits in place and scores are stored next to them: two members that share a circuit (or the entry tuple)
        # cannot both keep "stored score = metric of the stored circuit" (C19) once one of them is mutated
        shared = [(a, b) for a in range(len(ret)) for b in range(a + 1, len(ret))
                  if ret[a] is ret[b] or (isinstance(ret[a], tuple) and isinstance(ret[b], tuple) and len(ret[a]) == 2 == len(ret[b])
                                          and ret[a][1] is ret[b][1])]
        rec(eng, f"{label}:post.entries-are-pairwise-distinct-copies", not shared, f"entries {shared} are the same object / share a circuit")
        for j, e in enumerate(ret):
            mine = draws[j * k:(j + 1) * k]
            fresh = isinstance(e, tuple) and len(e) == 2 and isinstance(e[1], Obj) and id(e[1]) not in pre and id(e) not in pre
            rec(eng, f"{label}:post.entry-is-a-fresh-deep-copy", fresh, f"entry {j} shares objects with the population")
            if not fresh:
                continue
            # the copy's source: the drawn element whose score it carries and whose circuit it copies (name kept by deepcopy)
            src = [t for t in mine if pop[t][0] is e[0] and pop[t][1].fields["__name__"] == e[1].fields["__name__"]]
            rec(eng, f"{label}:post.entry-copies-one-of-its-own-draws", bool(src), f"entry {j} copies none of its draws {mine}")
            if not src:
                continue
            w = src[0]
            goal = _and([to_z3(pop[w][0]) <= to_z3(pop[t][0]) for t in mine])
            if wrong == "max":
                goal = _and([to_z3(pop[w][0]) >= to_z3(pop[t][0]) for t in mine])
            path.oblige(f"{label}:post.entry-is-the-minimum-of-its-draws", goal)
            first = _and([z3.Not(to_z3(pop[t][0]) == to_z3(pop[w][0])) for t in mine[:mine.index(w)]])
            path.oblige(f"{label}:post.ties-go-to-the-first-draw", first)

    t = HarnessTask(qual, label, harness,
                    clause="tournament_selection: n_pop fresh deep copies, each the minimum-score element of its k draws; "
                           "k=0 returns the population")
    base_run = t.run

    def run():
        eng = base_run()
        for name, r in eng.results.items():
            if r.status == "refuted" and name.endswith(":post.entry-is-the-minimum-of-its-draws") and r.model is not None:
                r.witness, r.replayed = replay_tournament(r.model, n_pop, size, k, wrong)
        return eng

    t.run = run
    return t


def replay_tournament(model, n_pop, size, k, wrong):
    """counter-model -> scores + scripted draws -> the REAL tournament_selection with random.choices patched in this process"""
    import random as _random
    from graphiq.solvers.solver_base import RandomSearchSolver, RandomSearchSolverSetting
    from graphiq.circuit.circuit_dag import CircuitDAG

    scores = [float(_val(model, z3.Real(f"s{j}"))) for j in range(size)]
    draws = []
    for n in range(n_pop * k):
        pick = size - 1
        for t in range(size - 1):
            if z3.is_true(model.eval(z3.Bool(f"draw{n}_is_{t}"), model_completion=True)):
                pick = t
                break
        draws.append(pick)
    pop = [(sc, CircuitDAG(n_emitter=1, n_photon=0, n_classical=0)) for sc in scores]
    s = RandomSearchSolver(None, None, None, solver_setting=RandomSearchSolverSetting(n_hof=1, n_pop=n_pop))
    script = list(draws)
    orig = _random.choices

    def fake(population, weights=None, *, cum_weights=None, k=1):
        out = [population[script.pop(0)] for _ in range(k)]
        return out

    _random.choices = fake
    try:
        got = s.tournament_selection(pop, k=k)
    finally:
        _random.choices = orig
    bad = False
    for j, e in enumerate(got):
        mine = [scores[t] for t in draws[j * k:(j + 1) * k]]
        want = max(mine) if wrong == "max" else min(mine)
        bad = bad or e[0] != want
    return {"function": "graphiq.solvers.solver_base:RandomSearchSolver.tournament_selection", "scores": scores, "draws": draws,
            "expected": ("maximum" if wrong == "max" else "minimum") + " score of each entry's draws",
            "actual scores": [e[0] for e in got]}, bad


def tournament_tasks(**kw):
    T = [tournament_task(2, 2, 0, **kw)]
    for n_pop, size, k in ((1, 1, 1), (1, 2, 2), (2, 2, 2), (2, 3, 2), (1, 3, 3)):
        T.append(tournament_task(n_pop, size, k, **kw))
    return T


# ---------------------------------------------------------------------------------------------
# canaries
# ---------------------------------------------------------------------------------------------

def canary_tasks():
    return [update_hof_task(2, 2, 1, wrong="tight-tolerance", label_prefix="canary.sorted-up-to-1e-12."),
            update_hof_task(2, 2, 1, wrong="entries-are-population-circuits", label_prefix="canary.entries-alias-population."),
            tournament_task(1, 2, 2, wrong="max", label_prefix="canary.tournament-picks-max.")]
