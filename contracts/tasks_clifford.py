"""Verification tasks for clifford.py"""
from __future__ import annotations

import z3

from pyvc.contract import Task
from pyvc import schema as S, loops
from .common import CLIFF, CTAB, TABLEAU_ACCESSORS

INLINE = set(TABLEAU_ACCESSORS) | {f"{CTAB}:CliffordTableau.__init__", f"{CTAB}:CliffordTableau._initialize_phase"}


def _basis_holds(vals):
    """concrete inputs of remove_qubit / partial_trace are replayed only when they are VALID tableaux: [T-basis] (and with it the
    `assert len(non_zero) > 0` of the real code) is a property of symplectic tableaux, which every intermediate tableau of a
    partial trace then is as well"""
    from pyvc.schema import is_symplectic_tableau

    return all(is_symplectic_tableau(v) for v in vals.values() if isinstance(v, dict) and "table" in v)


def shrink_grow_tasks(C, tier="quick"):
    """remove_qubit (all n, all q, three modes), tensor (lists of 2 and 3 tableaux of any sizes), partial_trace (n = 2: every keep
    set; n = 3: keep sets with one removal; thorough: also n = 3 with two removals) - callers are checked against remove_qubit's
    contract, not its body"""
    import itertools

    from . import stab_remove as R
    from pyvc.symlist import comprehension_hook

    C.update(R.C)
    T = []
    Bt = z3.Function("T_tab", z3.IntSort(), z3.IntSort(), z3.BoolSort())
    n, q = z3.Int("n_T"), z3.Int("q")
    s, d = z3.Ints("tb_s tb_d")
    basis = z3.Implies(z3.ForAll([s], z3.Implies(z3.And(s >= n, s < 2 * n), z3.Not(Bt(s, q)))),
                       z3.Exists([d], z3.And(d >= 0, d < n, Bt(d, q))))
    hooks = {"loop": loops.make_hook(R.REMOVE_LOOPS), "comprehension": comprehension_hook}
    for mode in ("probabilistic", 0, 1):
        T.append(Task(R.REMOVE, C[R.REMOVE], [S.Clifford("T"), S.IntArg("q"), S.Const("mode", mode), S.Assume(basis, "T-basis", check=_basis_holds)],
                      C, inline=INLINE, hooks=hooks, label=f"remove_qubit[{mode}]", timeout_ms=20000))
    T.append(Task(R.TENSOR, C[R.TENSOR], [S.ListOf("tables", [S.Clifford("A"), S.Clifford("B")])], C, inline=INLINE,
                  label="tensor[2 tableaux]", timeout_ms=20000))
    T.append(Task(R.TENSOR, C[R.TENSOR], [S.ListOf("tables", [S.Clifford("A"), S.Clifford("B"), S.Clifford("D")])], C,
                  inline=INLINE, label="tensor[3 tableaux]", timeout_ms=20000))
    cases = [(2, k) for r in range(3) for k in itertools.combinations(range(2), r)]
    cases += [(3, k) for r in ((1, 2, 3) if tier == "thorough" else (2, 3)) for k in itertools.combinations(range(3), r)]
    for nq, keep in cases:
        for mode in ("probabilistic", 1):
            T.append(Task(R.PTRACE, C[R.PTRACE], [S.Clifford("T", nq), S.Const("keep", list(keep)), S.Const("dims", None),
                                                  S.Const("mode", mode), S.Assume(z3.BoolVal(True), "valid-tableau", check=_basis_holds)],
                          C, inline=INLINE,
                          label=f"partial_trace[n={nq},keep={list(keep)},{mode}]", timeout_ms=20000))
    return T


def tasks(C):
    T = []
    q = f"{CLIFF}:swap_gate"
    T.append(Task(q, C[q], [S.Clifford("T"), S.IntArg("q1"), S.IntArg("q2")], C, inline=INLINE))
    q = f"{CLIFF}:insert_qubit"
    T.append(Task(q, C[q], [S.Clifford("T"), S.IntArg("pos")], C, inline=INLINE))
    q = f"{CLIFF}:add_qubit"
    T.append(Task(q, C[q], [S.Clifford("T")], C, inline=INLINE))
    for fn in ["create_n_ket0_state", "create_n_ket1_state"]:
        q = f"{CLIFF}:{fn}"
        T.append(Task(q, C[q], [S.IntArg("n")], C, inline=INLINE))
    from . import stab_clifford as K
    from pyvc import nzseq

    zhooks = {"loop": loops.make_hook(K.ZMEAS_LOOPS)}
    zhooks.update(nzseq.HOOKS)
    for mode in ("probabilistic", 0, 1):
        T.append(Task(K.ZMEAS, C[K.ZMEAS], [S.Clifford("T"), S.IntArg("q"), S.Const("mode", mode)], C, inline=INLINE,
                      hooks=zhooks, label=f"z_measurement_gate[{mode}]", timeout_ms=20000))
    for fn in ("reset_z", "reset_x", "reset_y"):
        q = f"{CLIFF}:{fn}"
        for mode in ("probabilistic", 0, 1):
            T.append(Task(q, C[q], [S.Clifford("T"), S.IntArg("q"), S.IntArg("intended"), S.Const("mode", mode)], C,
                          inline=INLINE, label=f"{fn}[{mode}]", timeout_ms=20000))
    return T
