"""Verification tasks for clifford.py"""
from __future__ import annotations

import z3

from pyvc.contract import Task
from pyvc import schema as S, loops
from .common import CLIFF, CTAB, TABLEAU_ACCESSORS

INLINE = set(TABLEAU_ACCESSORS) | {f"{CTAB}:CliffordTableau.__init__", f"{CTAB}:CliffordTableau._initialize_phase"}


def tasks(C):
    T = []
    q = f"{CLIFF}:swap_gate"
    T.append(Task(q, C[q], [S.Clifford("T"), S.IntArg("q1"), S.IntArg("q2")], C, inline=INLINE))
    q = f"{CLIFF}:insert_qubit"
    T.append(Task(q, C[q], [S.Clifford("T"), S.IntArg("pos")], C, inline=INLINE))
    q = f"{CLIFF}:add_qubit"
    T.append(Task(q, C[q], [S.Clifford("T")], C, inline=INLINE))
    for fn in ["create_n_ket0_state", "create_n_ket1_state"]:
        q = f"{CLIFF}:{fn}"
        T.append(Task(q, C[q], [S.IntArg("n")], C, inline=INLINE))
    from . import stab_clifford as K
    from pyvc import nzseq

    zhooks = {"loop": loops.make_hook(K.ZMEAS_LOOPS)}
    zhooks.update(nzseq.HOOKS)
    for mode in ("probabilistic", 0, 1):
        T.append(Task(K.ZMEAS, C[K.ZMEAS], [S.Clifford("T"), S.IntArg("q"), S.Const("mode", mode)], C, inline=INLINE,
                      hooks=zhooks, label=f"z_measurement_gate[{mode}]", timeout_ms=20000))
    for fn in ("reset_z", "reset_x", "reset_y"):
        q = f"{CLIFF}:{fn}"
        for mode in ("probabilistic", 0, 1):
            T.append(Task(q, C[q], [S.Clifford("T"), S.IntArg("q"), S.IntArg("intended"), S.Const("mode", mode)], C,
                          inline=INLINE, label=f"{fn}[{mode}]", timeout_ms=20000))
    return T
