"""C04 - SEMANTIC contracts of the mutation moves of graphiq/solvers/evolutionary_solver.py, proved by symbolic execution of the
REAL move bodies on an ABSTRACT circuit (this complements / supersedes most text checks of contracts/moves_static.py).

Abstract circuit (vocabulary; all uninterpreted, one copy per task):
    Edge                       an abstract sort: the (tail, head, key) triples stored in circuit.edge_dict
    edge_dict[t](k), n_edges[t]   the list circuit.edge_dict[t], t in {e, p}: SymList of symbolic length >= 1
    in_edge_dict[t](e)         ghost: e occurs in that list (only produced by  forall k in range: in_edge_dict[t](edge_dict[t](k)) )
    tail(e), head(e)           edge[0], edge[1] (node ids);  reg(e) = circuit.dag.edges[e]["reg"]
    cls(n)                     class tag of circuit.dag.nodes[n]["op"]  -  `type(circuit.dag.nodes[n]["op"]) is ops.X` becomes the
                               pure term cls(n) == TAG[X] (engine hooks `type` / `is`, so the comprehension tests are terms)
    opreg(n)                   circuit.dag.nodes[n]["op"].register
    haslabel(n, l)             n in circuit.node_dict.get(l, [])     isnode(n): n in circuit.dag.nodes
    incomp(e1, e2)             e2 in circuit.find_incompatible_edges(e1)
Assumed contracts [A] of the pure circuit reads (their implementations are set algebra over node_dict / networkx reachability; the
bounded part of C12 / C04 checks them and the index-consistency invariant that links node_dict / edge_dict to the graph):
    get_node_by_labels(L)      a list of nodes n with isnode(n) and haslabel(n, l) for every l in L;  `x in <that list>` <=> the same
    get_node_exclude_labels(L) a list of nodes n with isnode(n) and not haslabel(n, l) for every l in L
    find_incompatible_edges(e) an object whose `in` test is incomp(e, .)
    circuit.dag.nodes[n]       needs isnode(n) (obligation); end points of listed edges and listed nodes are nodes (WF)
    circuit.dag.edges[e]       needs e in edge_dict["e"] or edge_dict["p"] (obligation)
    circuit.edge_dict["e"/"p"] exist and are non-empty (requires: the circuit has >= 1 emitter and >= 1 photon register, every wire
                               has at least the edge in -> out)
Recorded effects (pyvc/trace.py recorder contracts): CircuitDAG.insert_at / replace_op / remove_op, every other known mutator of
CircuitDAG / CircuitBase (so that the frame obligation can name it), the delegations self.replace_*_one_qubit_op(circuit).
Abstract values: np.random.randint / np.random.choice = fresh integer in range; self._wrap_noise / _identify_noise = abstract noise
object; self.one_qubit_ops = abstract non-empty list of abstract operation lists; OneQubitGateWrapper(<abstract op list>, ..) runs
the REAL OneQubitOperationBase/OperationBase constructor chain (registers, types, labels) and stores the list [A: the wrapper's own
__init__ only validates the list]; CNOT / MeasurementCNOTandReset are built by their real constructors.

Contracts proved per move (names of the obligations in brackets):
  every move     the circuit is changed ONLY through insert_at / replace_op / remove_op calls [frame.*]; returns None; does not raise
  add_emitter_cnot                 no pair -> no effect; else exactly one insert_at(CNOT(e,e), [e0, e1]) with control/target read from
                                   e0/e1, both in edge_dict["e"], e1 not in find_incompatible_edges(e0) [post.*]
  add_measurement_cnot_and_reset   one insert_at(MeasurementCNOTandReset(e->p), [e0, e1]), e0 emitter edge, e1 photon edge whose tail
                                   is not an Input (after the emission), compatible pair
  add_photon_one_qubit_op          no candidate edge -> delegates to replace_photon_one_qubit_op; else one insert_at(W, [e]) with
                                   W one-qubit wrapper, reg_type "p", register reg(e), e in edge_dict["p"], cls(tail(e)) = CNOT
  add_emitter_one_qubit_op         dito on edge_dict["e"], reg_type "e" (head not Output, no neighbouring wrapper)
  replace_photon_one_qubit_op      none, or one replace_op(n, W): n drawn from get_node_by_labels([OneQubitGateWrapper, Photonic]),
                                   W.reg_type "p", W.register = opreg(n), "Fixed" in W.labels
  replace_emitter_one_qubit_op     dito with Emitter / "e" (no Fixed label demanded)
  remove_op                        node=None: none, or remove_op(n) with n not labelled Fixed / Input / Output;
                                   caller-chosen node (an operation node): labelled Fixed -> no effect, else remove_op(node)
                                   (a caller-chosen Input / Output node is NOT refused by the real code; no caller in graphiq passes
                                   a node, the property's moves always draw)
  _select_possible_cnot_position / _select_possible_measurement_position
                                   EVERY returned pair (a, b) satisfies the pair predicate (a, b listed edges of the right type,
                                   b not in find_incompatible_edges(a), filter conditions): nested loops of symbolic trip count by the
                                   havoc + invariant rule (pyvc/invloop.py), the comprehension filters by lemma FILTER.  The moves use
                                   this as the helper's contract (modular).
Quantified assumptions used: lemma FILTER's INV(N) per comprehension; the three membership / node-list axioms above (one pattern
each).  Everything else is quantifier free.
"""
from __future__ import annotations

import ast

import z3

from pyvc import source, models
from pyvc import symlist as SL
from pyvc.contract import Contract
from pyvc.interp import Interp, Engine, explore, RaiseEx, Undecided, PathEnd, Frame
from pyvc.invloop import InvLoop, make_hook as make_inv_hook
from pyvc.symlist import SymList
from pyvc.trace import recorder, Token
from pyvc.values import Obj, Opaque, FuncRef, ClsRef, is_sym, to_z3, concrete_int
from .metrics import rec

EVO = "graphiq.solvers.evolutionary_solver"
SB = "graphiq.solvers.solver_base"
CDAG = "graphiq.circuit.circuit_dag"
CBASE = "graphiq.circuit.circuit_base"
OPS = "graphiq.circuit.ops"
NM = "graphiq.noise.noise_models"

MOVES = ["replace_photon_one_qubit_op", "replace_emitter_one_qubit_op", "add_photon_one_qubit_op", "add_emitter_one_qubit_op",
         "add_emitter_cnot", "remove_op", "add_measurement_cnot_and_reset"]
HELPERS = ["_select_possible_cnot_position", "_select_possible_measurement_position"]
EDITS = ("insert_at", "replace_op", "remove_op")
# every other method of CircuitDAG / CircuitBase that changes the circuit: recorded, so that the frame obligation names it
OTHER_MUTATORS = {CDAG: ["add", "_add", "_insert_at", "_remove_node", "_add_node", "_add_edge", "_remove_edge", "_node_dict_append",
                         "_node_dict_remove", "_edge_dict_append", "_edge_dict_remove", "unwrap_nodes", "remove_identity",
                         "group_one_qubit_gates", "assign_noise", "_add_register", "_add_reg_if_absent"],
                  CBASE: ["add_emitter_register", "add_photonic_register", "add_classical_register", "expand_emitter_register",
                          "expand_photonic_register", "expand_classical_register", "_openqasm_update"]}

Int = z3.IntSort()
Bool = z3.BoolSort()
EdgeS = z3.DeclareSort("Edge")
EL = {t: z3.Function(f"edge_dict[{t}]", Int, EdgeS) for t in "ep"}
NE = {t: z3.Int(f"n_edges[{t}]") for t in "ep"}
IN = {t: z3.Function(f"in_edge_dict[{t}]", EdgeS, Bool) for t in "ep"}
TAIL = z3.Function("tail", EdgeS, Int)
HEAD = z3.Function("head", EdgeS, Int)
REG = z3.Function("reg", EdgeS, Int)
CLS = z3.Function("cls", Int, Int)
OPREG = z3.Function("opreg", Int, Int)
HASLABEL = z3.Function("haslabel", Int, Int, Bool)
ISNODE = z3.Function("isnode", Int, Bool)
INCOMP = z3.Function("incomp", EdgeS, EdgeS, Bool)
N_OPS = z3.Int("len(one_qubit_ops)")

_TAGS = {}


def TAG(name):
    """integer tag of an operation class name / node_dict label (distinct names, distinct tags)"""
    return z3.IntVal(_TAGS.setdefault(name, len(_TAGS)))


def is_edge(v):
    return is_sym(v) and v.sort() == EdgeS


# =============================================================================================================
# abstract values
# =============================================================================================================

class NodeList(SymList):
    """result of get_node_by_labels / get_node_exclude_labels: `member(n)` is the list's membership test as a term"""

    def __init__(self, length, elem, label, member):
        super().__init__(length, elem, label)
        self.member = member


class PairList(SymList):
    """a list of (edge, edge) tuples of symbolic length.  A FRESH one stands for a list every element of which satisfies the
    conjunction `pred` (loop invariant / helper contract): the universally quantified invariant is instantiated lazily at
    every position that is read (quantifier free)."""

    _n = [0]

    def __init__(self, length, elem, label):
        super().__init__(length, elem, label)

    @classmethod
    def fresh(cls, I, pred, label="pairs"):
        PairList._n[0] += 1
        tag = f"{label}#{I.path.counter.get('pairlist', 0)}"
        I.path.counter["pairlist"] = I.path.counter.get("pairlist", 0) + 1
        n = z3.Int(f"len({tag})")
        A = z3.Function(f"{tag}.first", Int, EdgeS)
        B = z3.Function(f"{tag}.second", Int, EdgeS)
        I.path.assume(n >= 0)

        def elem(k, _I=I):
            k = to_z3(k)
            a, b = A(k), B(k)
            _I.path.assume(z3.Implies(z3.And(k >= 0, k < n), z3.And(*[g for _, g in pred(a, b)])))
            return (a, b)

        return cls(n, elem, tag)

    def append(self, x):
        if not (isinstance(x, tuple) and len(x) == 2 and all(is_edge(c) for c in x)):
            raise Undecided("an item other than a pair of edges is appended to the edge-pair list")
        n0, old = to_z3(self.length), self.elem

        def elem(k, _n0=n0, _old=old, _x=x):
            o = _old(k)
            return (z3.If(to_z3(k) == _n0, _x[0], o[0]), z3.If(to_z3(k) == _n0, _x[1], o[1]))

        self.elem = elem
        self.length = z3.simplify(n0 + 1)

    def copy(self):
        return PairList(self.length, self.elem, self.label)


def _ne(a, b):
    return a != b


# pair predicates = helper contracts = loop invariants (named conjuncts)
def pred_cnot(a, b):
    return [("first-edge-is-listed-in-edge_dict[e]", IN["e"](a)),
            ("second-edge-is-listed-in-edge_dict[e]", IN["e"](b)),
            ("second-edge-not-in-find_incompatible_edges(first)", z3.Not(INCOMP(a, b))),
            ("no-edge-into-an-Output", z3.And(CLS(HEAD(a)) != TAG("Output"), CLS(HEAD(b)) != TAG("Output")))]


def pred_meas(a, b):
    return [("first-edge-is-listed-in-edge_dict[e]", IN["e"](a)),
            ("second-edge-is-listed-in-edge_dict[p]", IN["p"](b)),
            ("second-edge-not-in-find_incompatible_edges(first)", z3.Not(INCOMP(a, b))),
            ("photon-edge-tail-is-not-an-Input", CLS(TAIL(b)) != TAG("Input")),
            ("emitter-edge-not-at-Input/Output/measurement", z3.And(
                CLS(HEAD(a)) != TAG("Output"), CLS(HEAD(a)) != TAG("MeasurementCNOTandReset"),
                CLS(TAIL(a)) != TAG("Input"), CLS(TAIL(a)) != TAG("MeasurementCNOTandReset"))),
            ("photon-edge-not-before-a-measurement", CLS(HEAD(b)) != TAG("MeasurementCNOTandReset"))]


PAIR_PRED = {"_select_possible_cnot_position": pred_cnot, "_select_possible_measurement_position": pred_meas}


def abstract_noise(I, what):
    o = Obj(I.get_class(NM, "NoiseBase"))
    o.fields["__abstract__"] = what
    return o


class Scenario:
    """abstract circuit + abstract solver object + the axioms of the vocabulary"""

    def __init__(self, I):
        self.I = I
        p = I.path
        c = Obj(I.get_class(CDAG, "CircuitDAG"))
        c.fields["dag"] = Opaque("adag", c)
        lists = {}
        k = z3.Int("ax_k")
        e = z3.Const("ax_e", EdgeS)
        for t in "ep":
            p.assume(NE[t] >= 1)
            p.assume(z3.ForAll([k], z3.Implies(z3.And(k >= 0, k < NE[t]), IN[t](EL[t](k))), patterns=[EL[t](k)]))
            # WF: end points of listed edges are nodes of the graph
            p.assume(z3.ForAll([e], z3.Implies(IN[t](e), z3.And(ISNODE(TAIL(e)), ISNODE(HEAD(e)))), patterns=[IN[t](e)]))
            lists[t] = SymList(NE[t], (lambda kk, _t=t: EL[_t](to_z3(kk))), f"edge_dict[{t}]")
        c.fields["edge_dict"] = lists
        self.edge_dict = lists
        self.circuit = c
        s = Obj(I.get_class(EVO, "EvolutionarySolver"))
        p.assume(N_OPS >= 1)
        s.fields.update(one_qubit_ops=Opaque("one_qubit_ops", None), p_dist=Token("p_dist"), e_dist=Token("e_dist"),
                        noise_model_mapping={kk: Token("noise-map", kk) for kk in ("e", "p", "ee", "ep")})
        self.solver = s


# =============================================================================================================
# hooks
# =============================================================================================================

def h_getattr(I, obj, attr):
    if isinstance(obj, Opaque):
        if obj.tag == "adag" and attr == "nodes":
            return Opaque("anodes", obj.payload)
        if obj.tag == "adag" and attr == "edges":
            return Opaque("aedges", obj.payload)
        if obj.tag == "aop" and attr == "register":
            return OPREG(obj.payload)
    return NotImplemented


def h_getitem(I, obj, key):
    if is_edge(obj):
        k = concrete_int(key)
        if k == 0:
            return TAIL(obj)
        if k == 1:
            return HEAD(obj)
        raise Undecided("edge[k] for k other than 0 / 1 (the key of an abstract edge is not modelled)")
    if isinstance(obj, Opaque):
        if obj.tag == "anodes":
            if not (is_sym(key) and z3.is_int(key)):
                raise Undecided("circuit.dag.nodes[<not an abstract node id>]")
            g = ISNODE(key)
            I.path.oblige(I.ob_name("dag.nodes-key-is-a-node"), g)
            I.path.assume(g)
            return Opaque("anode", key)
        if obj.tag == "anode":
            if key == "op":
                return Opaque("aop", obj.payload)
            raise Undecided(f"node attribute {key!r} of an abstract circuit")
        if obj.tag == "aedges":
            if not is_edge(key):
                raise Undecided("circuit.dag.edges[<not an abstract edge>]")
            g = z3.Or(IN["e"](key), IN["p"](key))
            I.path.oblige(I.ob_name("dag.edges-key-is-a-listed-edge"), g)
            I.path.assume(g)
            return Opaque("aedata", key)
        if obj.tag == "aedata":
            if key == "reg":
                return REG(obj.payload)
            raise Undecided(f"edge attribute {key!r} of an abstract circuit")
        if obj.tag == "one_qubit_ops":
            if not (is_sym(key) and z3.is_int(key)):
                raise Undecided("one_qubit_ops[<not a drawn index>]")
            g = z3.And(key >= 0, key < N_OPS)
            I.path.oblige(I.ob_name("index"), g)
            I.path.assume(g)
            return Opaque("oplist", key)
    return None


def h_len(I, x):
    if isinstance(x, Opaque) and x.tag == "one_qubit_ops":
        return N_OPS
    return None


def h_type(I, obj):
    if isinstance(obj, Opaque) and obj.tag == "aop":
        return Opaque("aoptype", obj.payload)
    return NotImplemented


def h_is(I, a, b):
    for x, y in ((a, b), (b, a)):
        if isinstance(x, Opaque) and x.tag == "aoptype":
            if isinstance(y, ClsRef) and y.module == OPS:
                return CLS(x.payload) == TAG(y.name)
            if isinstance(y, Opaque) and y.tag == "aoptype":
                return CLS(x.payload) == CLS(y.payload)
            raise Undecided("type(<abstract op>) compared with something that is not an operation class")
    return NotImplemented


def h_contains(I, container, item):
    if isinstance(container, Opaque) and container.tag == "incompat":
        if not is_edge(item):
            raise Undecided("`in` on an incompatible-edge set with a non-edge")
        return INCOMP(container.payload, item)
    if isinstance(container, NodeList):
        if not (is_sym(item) and z3.is_int(item)):
            raise Undecided("`in` on a node list with a non-node")
        return container.member(item)
    return None


def h_comprehension(I, elt, gens):
    return SL.comprehension_hook(I, elt, gens, pure_calls=("type",), any_iter=True)  # iterables: circuit.edge_dict[t] / local lists


def h_instantiate(I, cls, args, kwargs):
    if cls.module == NM:
        return Obj(cls)  # noise objects are abstract instances of their real class
    if cls.module == OPS and cls.name == "OneQubitGateWrapper":
        names = ["operations", "register", "reg_type", "noise"]
        vals = dict(zip(names, args))
        vals.update(kwargs)
        opl = vals.get("operations")
        if not (isinstance(opl, Opaque) and opl.tag == "oplist"):
            return NotImplemented
        models.used("OneQubitGateWrapper.__init__(<abstract non-empty list of one-qubit op classes>) = the real "
                    "OneQubitOperationBase.__init__(register, reg_type, noise) + stored operation list")
        o = Obj(cls)
        base = I.get_class(OPS, "OneQubitOperationBase")
        init = base.methods["__init__"]
        I.call_function(FuncRef(OPS, init, f"{OPS}:OneQubitOperationBase.__init__", base),
                        [o, vals.get("register", 0), vals.get("reg_type", "e"), vals.get("noise", abstract_noise(I, "default"))], {})
        o.fields["operations"] = opl
        o.fields["_openqasm_info"] = Token("wrapper-openqasm", opl)
        o.partial = False
        return o
    return NotImplemented


def _loops():
    L = []
    for h in HELPERS:
        pred = PAIR_PRED[h]

        def havoc(I, env, _pred=pred):
            # contents are havoc'd, the list object is kept (the first havoc turns the Python list built so far - `edge_pair = []`
            # is the only reference to it - into its abstract stand-in)
            fresh = PairList.fresh(I, _pred, "edge_pair")
            cur = env.get("edge_pair")
            if isinstance(cur, PairList):
                cur.length, cur.elem, cur.label = fresh.length, fresh.elem, fresh.label
            else:
                env["edge_pair"] = fresh
            return [env["edge_pair"]]

        def inv(I, k, env, _pred=pred):
            lst = env.get("edge_pair")
            out = []
            if isinstance(lst, PairList):
                sk = z3.Int("pair_sk")
                a, b = lst.elem(sk)
                rng = [sk >= 0, sk < to_z3(lst.length)]
                for nm, g in _pred(a, b):
                    out.append((f"every-pair.{nm}", g, rng))
            elif isinstance(lst, list):
                for it in lst:
                    ok = isinstance(it, tuple) and len(it) == 2 and all(is_edge(c) for c in it)
                    if not ok:
                        out.append(("every-pair.is-a-pair-of-edges", False))
                        continue
                    for nm, g in _pred(*it):
                        out.append((f"every-pair.{nm}", g))
            else:
                out.append(("edge_pair-is-a-list", False))
            return out

        L.append(InvLoop(h, "edge", None, modifies={"edge_pair"}, havoc=havoc, inv=inv,
                         locals={"incompatible_edges", "possible_edges", "another_edge", "e"}))
        L.append(InvLoop(h, "another_edge", None, modifies={"edge_pair"}, havoc=havoc, inv=inv, locals=set()))
    return L


def hooks():
    return {"getattr": h_getattr, "getitem": h_getitem, "len": h_len, "type": h_type, "is": h_is, "contains": h_contains,
            "comprehension": h_comprehension, "instantiate": h_instantiate, "loop": make_inv_hook(_loops())}


# =============================================================================================================
# call-site contracts
# =============================================================================================================

def _node_list(I, labels, positive):
    if not (isinstance(labels, list) and all(isinstance(l, str) for l in labels)):
        raise Undecided("label list is not a literal list of strings")
    c = I.path.counter.get("nodelist", 0)
    I.path.counter["nodelist"] = c + 1
    tag = ("by" if positive else "excl") + "[" + ",".join(labels) + f"]#{c}"
    n = z3.Int(f"len({tag})")
    F = z3.Function(f"{tag}.node", Int, Int)
    I.path.assume(n >= 0)

    def member(x):
        parts = [HASLABEL(x, TAG(l)) if positive else z3.Not(HASLABEL(x, TAG(l))) for l in labels]
        return z3.And(ISNODE(x), *parts)

    k = z3.Int(f"nl_k{c}")
    I.path.assume(z3.ForAll([k], z3.Implies(z3.And(k >= 0, k < n), member(F(k))), patterns=[F(k)]))
    return NodeList(n, lambda kk: F(to_z3(kk)), tag, member)


def contracts(for_move=None):
    C = {}
    for nm in EDITS:
        q = f"{CDAG}:CircuitDAG.{nm}"
        C[q] = recorder(q, nm, clause=f"recorded edit {nm} (its effect on the graph fragment / wire view: contracts/dag.py, lemmas/wires.py)")
    for mod, names in OTHER_MUTATORS.items():
        cls = "CircuitDAG" if mod == CDAG else "CircuitBase"
        for nm in names:
            q = f"{mod}:{cls}.{nm}"
            C[q] = recorder(q, nm, clause="a mutator the moves must not use (recorded so that the frame obligation can name it)")
    q = f"{CDAG}:CircuitDAG.get_node_by_labels"
    C[q] = Contract(q, spec=lambda I, self, labels: _node_list(I, labels, True), clause="[A] nodes carrying every label")
    q = f"{CDAG}:CircuitDAG.get_node_exclude_labels"
    C[q] = Contract(q, spec=lambda I, self, labels: _node_list(I, labels, False), clause="[A] nodes carrying none of the labels")

    def incompat(I, self, first_edge):
        if not is_edge(first_edge):
            raise Undecided("find_incompatible_edges(<not an abstract edge>)")
        I.path.assume(INCOMP(first_edge, first_edge))  # the real body puts first_edge itself into the result
        return Opaque("incompat", first_edge)

    q = f"{CDAG}:CircuitDAG.find_incompatible_edges"
    C[q] = Contract(q, spec=incompat, clause="[A] pure: the set {e2 : incomp(first_edge, e2)}")
    q = f"{SB}:SolverBase._wrap_noise"
    C[q] = Contract(q, spec=lambda I, self, op, mapping: abstract_noise(I, ("wrap", op, mapping)), clause="pure: abstract noise")
    q = f"{SB}:SolverBase._identify_noise"
    C[q] = Contract(q, spec=lambda I, self, op, mapping: abstract_noise(I, ("identify", op, mapping)), clause="pure: abstract noise")
    for nm in ("replace_photon_one_qubit_op", "replace_emitter_one_qubit_op"):
        q = f"{EVO}:EvolutionarySolver.{nm}"
        C[q] = recorder(q, "delegate:" + nm, clause=f"delegation to {nm} (its own contract is proved in its own task)")
    for h in HELPERS:
        q = f"{EVO}:EvolutionarySolver.{h}"
        C[q] = Contract(q, spec=(lambda I, circuit, _h=h: PairList.fresh(I, PAIR_PRED[_h], _h)),
                        clause="helper contract (proved in the helper's own task): every returned pair satisfies the pair predicate")
    return C


INLINE = {f"{OPS}:*"}


# =============================================================================================================
# the tasks
# =============================================================================================================

class Trace:
    """cursor over the recorded events with named obligations"""

    def __init__(self, eng, label, events):
        self.eng, self.label, self.events, self.pos = eng, label, events, 0

    def take(self, name):
        if self.pos >= len(self.events):
            rec(self.eng, f"{self.label}:trace.expected-{name}-call", False, f"no further recorded call, expected {name}")
            raise PathEnd()
        ev = self.events[self.pos]
        self.pos += 1
        ok = ev["name"] == name
        rec(self.eng, f"{self.label}:trace.expected-{name}-call", ok, f"recorded {ev['name']} where {name} is expected")
        if not ok:
            raise PathEnd()
        return ev

    def done(self):
        rest = [e["name"] for e in self.events[self.pos:]]
        rec(self.eng, f"{self.label}:trace.no-further-effects", not rest, f"further recorded calls {rest}")


def _reach_ids(root):
    """id -> object for everything reachable from root (the objects are kept alive: ids of dead objects can be reused by CPython)"""
    seen, todo = {}, [root]
    while todo:
        v = todo.pop()
        if id(v) in seen:
            continue
        if isinstance(v, Obj):
            seen[id(v)] = v
            todo.extend(v.fields.values())
        elif isinstance(v, (list, tuple)):
            seen[id(v)] = v
            todo.extend(v)
        elif isinstance(v, dict):
            seen[id(v)] = v
            todo.extend(v.values())
        elif isinstance(v, SymList):
            seen[id(v)] = v
    return seen


def _b(x):
    return z3.BoolVal(x) if isinstance(x, bool) else x


class MoveTask:
    """runs the REAL body of one move / helper on the abstract circuit and checks its contract.
    variant: extra arguments (remove_op with a caller-chosen node); wrong: name of a deliberately wrong claim (canary)"""

    def __init__(self, func, variant=None, wrong=None, timeout_ms=2500):
        self.func = func
        self.qual = f"{EVO}:EvolutionarySolver.{func}"
        self.variant = variant
        self.wrong = wrong
        base = f"EvolutionarySolver.{func}" + (f"[{variant}]" if variant else "")
        self.label = (f"canary.{wrong}." if wrong else "") + base
        self.contract = Contract(self.qual, clause=CLAUSES[func])
        self.timeout_ms = timeout_ms

    # ---------------------------------------------------------------------------------------------------------
    def run(self):
        eng = Engine(self.timeout_ms)
        m, node, cls = source.find(self.qual)
        lab = self.label

        def harness(path):
            I = Interp(path, contracts(), set(INLINE), hooks())
            I.task_name = self.qual
            path.ghost["task"] = self.qual
            I.stack.append(Frame(m.name, {}, lab))
            S = Scenario(I)
            f = FuncRef(m.name, node, self.qual, I.get_class(m.name, cls.name))
            if self.func in HELPERS:
                args = [S.circuit]
            else:
                args = [S.solver, S.circuit]
            chosen = None
            if self.variant == "caller-chosen node":
                chosen = z3.Int("chosen_node")
                path.assume(ISNODE(chosen))
                args.append(chosen)
            pre = _reach_ids(S.circuit)
            mark = len(I.writes)
            path.trace = []
            try:
                ret = I.call_function(f, args, {}, force_body=True)
            except RaiseEx as e:
                rec(eng, f"{lab}:no-raise", False, f"the real body raises {e.exc_name}: {e.msg}")
                return
            rec(eng, f"{lab}:no-raise", True)
            evs = list(path.trace)
            other = [e["name"] for e in evs if e["name"] not in EDITS and not e["name"].startswith("delegate:")]
            rec(eng, f"{lab}:frame.circuit-is-changed-only-through-insert_at/replace_op/remove_op", not other,
                f"other mutating calls on the circuit: {other}")
            wr = [w for o, w in I.writes[mark:] if id(o) in pre]
            rec(eng, f"{lab}:frame.no-direct-write-to-circuit-fields", not wr, f"direct writes {wr}")
            foreign = [e["name"] for e in evs if e["name"] in EDITS and e["self"] is not S.circuit]
            rec(eng, f"{lab}:frame.edits-go-to-the-given-circuit", not foreign, f"edits on another object: {foreign}")
            tr = Trace(eng, lab, evs)
            if self.func in HELPERS:
                rec(eng, f"{lab}:frame.helper-is-pure", not evs, f"recorded calls {[e['name'] for e in evs]}")
                self.post_helper(I, eng, ret)
                return
            rec(eng, f"{lab}:post.returns-None", ret is None, f"returns {ret!r}")
            getattr(self, "spec_" + self.func)(I, eng, S, tr, chosen)
            tr.done()

        try:
            explore(eng, harness)
        except Undecided as u:
            eng.record(f"{lab}:supported-subset", "undecided", 0, f"{u}", None)
        for r in eng.results.values():
            if not hasattr(r, "witness"):
                r.witness, r.replayed = None, False
        bad = [r for r in eng.results.values() if r.status == "refuted"]
        if bad:
            try:
                wit, ok = native_canary(self.func, self.wrong) if self.wrong else native_search(self.func, self.variant)
            except Exception as e:  # noqa: BLE001
                wit, ok = {"replay_error": f"{type(e).__name__}: {e}"}, False
            for r in bad:
                r.witness, r.replayed = wit, ok
        return eng

    # ---------------------------------------------------------------------------------------------------------
    def ob(self, I, what, goal):
        I.path.oblige(f"{self.label}:post.{what}", _b(goal))

    def gate_regs(self, I, gate):
        return I.getattr(gate, "q_registers"), I.getattr(gate, "q_registers_type")

    def two_qubit(self, I, eng, S, tr, helper, cls_name, types):
        """shared contract of add_emitter_cnot / add_measurement_cnot_and_reset"""
        lab = self.label
        if not tr.events:
            return  # the helper returned no pair (branch `len(possible_edge_pairs) == 0`): no effect
        ev = tr.take("insert_at")
        gate, edges = ev["args"]
        ok = isinstance(gate, Obj) and gate.cls.module == OPS and gate.cls.name == cls_name
        rec(eng, f"{lab}:post.inserted-gate-is-a-{cls_name}", ok, f"inserted {gate!r}")
        ok2 = isinstance(edges, list) and len(edges) == 2 and all(is_edge(e) for e in edges)
        rec(eng, f"{lab}:post.insert_at-gets-a-list-of-two-edges", ok2, f"edges argument {edges!r}")
        if not (ok and ok2):
            raise PathEnd()
        regs, typs = self.gate_regs(I, gate)
        want = types if self.wrong != "target-is-a-photon" else ("e", "p")
        rec(eng, f"{lab}:post.two-qubit-op-is-controlled-by-an-emitter", typs[0] == "e", f"control_type {typs[0]!r}")
        rec(eng, f"{lab}:post.register-types-are-{want[0]}->{want[1]}", tuple(typs) == tuple(want), f"q_registers_type {typs!r}")
        e0, e1 = edges
        self.ob(I, "control-register-is-read-from-the-first-edge", to_z3(regs[0]) == REG(e0))
        self.ob(I, "target-register-is-read-from-the-second-edge", to_z3(regs[1]) == REG(e1))
        self.ob(I, f"first-edge-is-listed-in-edge_dict[{types[0]}]", IN[types[0]](e0))
        self.ob(I, f"second-edge-is-listed-in-edge_dict[{types[1]}]", IN[types[1]](e1))
        if self.wrong == "pair-is-incompatible":
            self.ob(I, "second-edge-not-in-find_incompatible_edges(first)", INCOMP(e0, e1))
        else:
            self.ob(I, "second-edge-not-in-find_incompatible_edges(first)", z3.Not(INCOMP(e0, e1)))
        if cls_name == "MeasurementCNOTandReset":
            if self.wrong == "photon-edge-starts-at-the-Input":
                self.ob(I, "photon-edge-is-after-the-emission(tail-is-not-an-Input)", CLS(TAIL(e1)) == TAG("Input"))
            else:
                self.ob(I, "photon-edge-is-after-the-emission(tail-is-not-an-Input)", CLS(TAIL(e1)) != TAG("Input"))
            rec(eng, f"{lab}:post.no-Fixed-label-on-the-new-op", "Fixed" not in I.getattr(gate, "labels"), "")

    def spec_add_emitter_cnot(self, I, eng, S, tr, chosen):
        self.two_qubit(I, eng, S, tr, "_select_possible_cnot_position", "CNOT", ("e", "e"))

    def spec_add_measurement_cnot_and_reset(self, I, eng, S, tr, chosen):
        self.two_qubit(I, eng, S, tr, "_select_possible_measurement_position", "MeasurementCNOTandReset", ("e", "p"))

    def one_qubit_insert(self, I, eng, S, tr, t, delegate):
        lab = self.label
        if tr.events and tr.events[0]["name"] == "delegate:" + delegate:
            ev = tr.take("delegate:" + delegate)
            rec(eng, f"{lab}:post.delegation-passes-the-same-circuit", len(ev["args"]) == 1 and ev["args"][0] is S.circuit, "")
            return
        ev = tr.take("insert_at")
        gate, edges = ev["args"]
        ok = isinstance(gate, Obj) and gate.cls.module == OPS and gate.cls.name == "OneQubitGateWrapper"
        rec(eng, f"{lab}:post.inserted-gate-is-a-one-qubit-wrapper", ok, f"inserted {gate!r}")
        ok2 = isinstance(edges, list) and len(edges) == 1 and is_edge(edges[0])
        rec(eng, f"{lab}:post.insert_at-gets-a-list-of-one-edge", ok2, f"edges argument {edges!r}")
        if not (ok and ok2):
            raise PathEnd()
        regs, typs = self.gate_regs(I, gate)
        e = edges[0]
        rec(eng, f"{lab}:post.gate-reg_type-is-{t}", tuple(typs) == (t,) and I.getattr(gate, "reg_type") == t, f"q_registers_type {typs!r}")
        self.ob(I, "gate-register-is-read-from-the-edge", z3.And(to_z3(regs[0]) == REG(e), to_z3(I.getattr(gate, "register")) == REG(e)))
        self.ob(I, f"edge-is-listed-in-edge_dict[{t}]", IN[t](e))
        if t == "p":
            if self.wrong == "photon-gate-anywhere":
                self.ob(I, "edge-is-right-after-the-emission(tail-is-a-CNOT)", CLS(TAIL(e)) == TAG("Hadamard"))
            else:
                self.ob(I, "edge-is-right-after-the-emission(tail-is-a-CNOT)", CLS(TAIL(e)) == TAG("CNOT"))
            self.ob(I, "no-wrapper-follows", CLS(HEAD(e)) != TAG("OneQubitGateWrapper"))
        else:
            self.ob(I, "edge-not-into-an-Output", CLS(HEAD(e)) != TAG("Output"))
            self.ob(I, "no-neighbouring-wrapper", z3.And(CLS(HEAD(e)) != TAG("OneQubitGateWrapper"), CLS(TAIL(e)) != TAG("OneQubitGateWrapper")))
        rec(eng, f"{lab}:post.no-Fixed-label-on-the-new-op", "Fixed" not in I.getattr(gate, "labels"), "")

    def spec_add_photon_one_qubit_op(self, I, eng, S, tr, chosen):
        self.one_qubit_insert(I, eng, S, tr, "p", "replace_photon_one_qubit_op")

    def spec_add_emitter_one_qubit_op(self, I, eng, S, tr, chosen):
        self.one_qubit_insert(I, eng, S, tr, "e", "replace_emitter_one_qubit_op")

    def replacement(self, I, eng, S, tr, t, tname):
        lab = self.label
        if not tr.events:
            return  # no candidate node
        ev = tr.take("replace_op")
        node, gate = ev["args"]
        ok = isinstance(gate, Obj) and gate.cls.module == OPS and gate.cls.name == "OneQubitGateWrapper"
        rec(eng, f"{lab}:post.replacement-is-a-one-qubit-wrapper", ok, f"replacement {gate!r}")
        ok2 = is_sym(node) and z3.is_int(node)
        rec(eng, f"{lab}:post.replaced-node-is-a-node-id", ok2, f"node {node!r}")
        if not (ok and ok2):
            raise PathEnd()
        regs, typs = self.gate_regs(I, gate)
        rec(eng, f"{lab}:post.replacement-reg_type-is-{t}", tuple(typs) == (t,) and I.getattr(gate, "reg_type") == t, f"q_registers_type {typs!r}")
        self.ob(I, f"replaced-node-carries-the-label-{tname}(same-register-type)", HASLABEL(node, TAG(tname)))
        self.ob(I, "replaced-node-is-a-one-qubit-wrapper", z3.And(ISNODE(node), HASLABEL(node, TAG("OneQubitGateWrapper"))))
        if self.wrong == "replacement-on-another-register":
            self.ob(I, "replacement-keeps-the-register", to_z3(regs[0]) == OPREG(node) + 1)
        else:
            self.ob(I, "replacement-keeps-the-register", z3.And(to_z3(regs[0]) == OPREG(node), to_z3(I.getattr(gate, "register")) == OPREG(node)))
        rec(eng, f"{lab}:post.replacement-has-no-classical-register", tuple(I.getattr(gate, "c_registers")) == (), "")
        labels = I.getattr(gate, "labels")
        if t == "p":
            rec(eng, f"{lab}:post.photonic-replacement-carries-Fixed", "Fixed" in labels, f"labels {labels!r}")
        if self.wrong == "emitter-replacement-is-Fixed":
            rec(eng, f"{lab}:post.emitter-replacement-carries-Fixed", "Fixed" in labels, f"labels {labels!r}")

    def spec_replace_photon_one_qubit_op(self, I, eng, S, tr, chosen):
        self.replacement(I, eng, S, tr, "p", "Photonic")

    def spec_replace_emitter_one_qubit_op(self, I, eng, S, tr, chosen):
        self.replacement(I, eng, S, tr, "e", "Emitter")

    def spec_remove_op(self, I, eng, S, tr, chosen):
        lab = self.label
        if chosen is not None:
            fixed = HASLABEL(chosen, TAG("Fixed"))
            if not tr.events:
                self.ob(I, "a-caller-chosen-node-is-refused-only-if-Fixed", fixed)
                return
            ev = tr.take("remove_op")
            node = ev["args"][0]
            self.ob(I, "removes-the-caller-chosen-node", to_z3(node) == chosen)
            if self.wrong == "removes-a-Fixed-node":
                self.ob(I, "removed-node-is-not-Fixed", fixed)
            else:
                self.ob(I, "removed-node-is-not-Fixed", z3.Not(fixed))
            return
        if not tr.events:
            return  # nothing removable
        ev = tr.take("remove_op")
        node = ev["args"][0]
        ok = is_sym(node) and z3.is_int(node)
        rec(eng, f"{lab}:post.removed-node-is-a-node-id", ok, f"node {node!r}")
        if not ok:
            raise PathEnd()
        self.ob(I, "removed-node-is-a-node", ISNODE(node))
        for l in ("Fixed", "Input", "Output"):
            if self.wrong == "removes-a-Fixed-node" and l == "Fixed":
                self.ob(I, f"removed-node-is-not-{l}", HASLABEL(node, TAG(l)))
            else:
                self.ob(I, f"removed-node-is-not-{l}", z3.Not(HASLABEL(node, TAG(l))))

    def post_helper(self, I, eng, ret):
        lab = self.label
        ok = isinstance(ret, PairList)
        rec(eng, f"{lab}:post.returns-the-list-of-pairs", ok, f"returns {ret!r}")
        if not ok:
            return
        sk = I.path.fresh("ret_sk")
        rng = [sk >= 0, sk < to_z3(ret.length)]
        a, b = ret.elem(sk)
        pred = PAIR_PRED[self.func]
        for nm, g in pred(a, b):
            if self.wrong == "pairs-may-be-incompatible" and nm.startswith("second-edge-not-in"):
                g = z3.Not(g)
            I.path.oblige(f"{lab}:post.every-pair.{nm}", g, extra=rng)


CLAUSES = {
    "add_emitter_cnot": "only effect: at most one insert_at of a CNOT(e,e) whose registers are read from two listed emitter edges, the "
                        "second not reported incompatible with the first",
    "add_measurement_cnot_and_reset": "only effect: at most one insert_at of a MeasurementCNOTandReset(e->p): emitter edge, photon edge "
                                      "after the emission (tail not Input), compatible pair",
    "add_photon_one_qubit_op": "only effect: one insert_at of a one-qubit wrapper with reg_type p / the edge's register on a photon edge "
                               "whose tail is a CNOT, or delegation to replace_photon_one_qubit_op",
    "add_emitter_one_qubit_op": "only effect: one insert_at of a one-qubit wrapper with reg_type e / the edge's register on an emitter "
                                "edge, or delegation to replace_emitter_one_qubit_op",
    "replace_photon_one_qubit_op": "only effect: at most one replace_op of a photonic one-qubit wrapper by a wrapper on the same register "
                                   "and type carrying Fixed",
    "replace_emitter_one_qubit_op": "only effect: at most one replace_op of an emitter one-qubit wrapper by a wrapper on the same register and type",
    "remove_op": "only effect: at most one remove_op; never a node labelled Fixed / Input / Output (drawn), a caller-chosen Fixed node is refused",
    "_select_possible_cnot_position": "pure; every returned pair: two listed emitter edges, second not in find_incompatible_edges(first)",
    "_select_possible_measurement_position": "pure; every returned pair: emitter edge, photon edge with tail not Input, second not in "
                                             "find_incompatible_edges(first)",
}


def tasks():
    T = [MoveTask(mv) for mv in MOVES]
    T.append(MoveTask("remove_op", variant="caller-chosen node"))
    T += [MoveTask(h) for h in HELPERS]
    return T


CANARIES = [("add_emitter_cnot", None, "target-is-a-photon"), ("add_emitter_cnot", None, "pair-is-incompatible"),
            ("add_measurement_cnot_and_reset", None, "photon-edge-starts-at-the-Input"),
            ("add_photon_one_qubit_op", None, "photon-gate-anywhere"),
            ("replace_photon_one_qubit_op", None, "replacement-on-another-register"),
            ("replace_emitter_one_qubit_op", None, "emitter-replacement-is-Fixed"),
            ("remove_op", None, "removes-a-Fixed-node"), ("remove_op", "caller-chosen node", "removes-a-Fixed-node"),
            ("_select_possible_cnot_position", None, "pairs-may-be-incompatible"),
            ("_select_possible_measurement_position", None, "pairs-may-be-incompatible")]


def canary_tasks():
    return [MoveTask(f, variant=v, wrong=w) for f, v, w in CANARIES]


# =============================================================================================================
# native replay of the canaries: the wrong claim is evaluated on the REAL move applied to a REAL solver circuit
# =============================================================================================================

def native_canary(func, wrong, tries=40):
    """-> (witness, reproduced?): runs the real move on initial circuits (2 emitters, 3 photons; seeds 0..tries-1), intercepts the
    edit calls, and reports the first run on which the canary's wrong claim is false for the real call"""
    try:
        import numpy as np
        import networkx as nx
        from graphiq.solvers.evolutionary_solver import EvolutionarySolver
        from graphiq.circuit import ops as gops
    except Exception as e:  # noqa: BLE001
        return {"replay_error": f"{type(e).__name__}: {e}"}, False

    def claim_false(circ, name, args, before):
        if wrong == "target-is-a-photon":
            return name == "insert_at" and args[0].q_registers_type[1] != "p"
        if wrong == "pair-is-incompatible":
            return name == "insert_at" and args[1][1] not in before["incomp"](args[1][0])
        if wrong == "photon-edge-starts-at-the-Input":
            return name == "insert_at" and type(before["op"](args[1][1][0])) is not gops.Input
        if wrong == "photon-gate-anywhere":
            return name == "insert_at" and type(before["op"](args[1][0][0])) is not gops.Hadamard
        if wrong == "replacement-on-another-register":
            return name == "replace_op" and args[1].register != before["op"](args[0]).register + 1
        if wrong == "emitter-replacement-is-Fixed":
            return name == "replace_op" and "Fixed" not in args[1].labels
        if wrong == "removes-a-Fixed-node":
            return name == "remove_op" and "Fixed" not in before["op"](args[0]).labels
        return False

    for seed in range(tries):
        np.random.seed(seed)
        solver = EvolutionarySolver.__new__(EvolutionarySolver)
        solver.noise_model_mapping = {"e": {}, "p": {}, "ee": {}, "ep": {}}
        solver.p_dist = [0.5] + 11 * [0.1 / 22] + [0.4] + 11 * [0.1 / 22]
        solver.e_dist = [0.5] + 11 * [0.02 / 22] + [0.48] + 11 * [0.02 / 22]
        circ = EvolutionarySolver.initialization(solver, [0, 1, 0], [0, 1])
        for _ in range(3):  # a few moves first so that emitter wrappers / removable nodes exist
            solver.add_emitter_one_qubit_op(circ)
        if func == "add_photon_one_qubit_op":  # open an edge CNOT -> (non-wrapper) on a photon wire
            circ.remove_op(sorted(circ.get_node_by_labels(["OneQubitGateWrapper", "Photonic"]))[0])
        if func in HELPERS:
            pairs = getattr(EvolutionarySolver, func)(circ)
            bad = [p for p in pairs if p[1] in circ.find_incompatible_edges(p[0])]
            return {"function": func, "circuit": "initialization([0,1,0],[0,1]) + 3 emitter gates", "pairs": len(pairs),
                    "expected (canary)": "every returned pair is incompatible", "actual": f"{len(bad)} incompatible pairs"}, bool(pairs) and not bad
        calls = []
        before = {"op": (lambda n, _c=circ: _c.dag.nodes[n]["op"]), "incomp": circ.find_incompatible_edges}
        hit = {}
        for nm in EDITS:
            orig = getattr(circ, nm)

            def wrapped(*a, _nm=nm, _orig=orig):
                if claim_false(circ, _nm, a, before):
                    hit["call"] = (_nm, [repr(x)[:80] for x in a])
                calls.append(_nm)
                return _orig(*a)

            setattr(circ, nm, wrapped)
        getattr(solver, func)(circ)
        if hit:
            return {"function": func, "seed": seed, "circuit": "initialization([0,1,0],[0,1]) + 3 emitter gates",
                    "expected (canary)": wrong, "actual call": hit["call"]}, True
    return {"note": "no native run showed the canary's claim to be false", "tries": tries}, False


def _native_solver():
    from graphiq.solvers.evolutionary_solver import EvolutionarySolver

    solver = EvolutionarySolver.__new__(EvolutionarySolver)
    solver.noise_model_mapping = {"e": {}, "p": {}, "ee": {}, "ep": {}}
    solver.p_dist = [0.5] + 11 * [0.1 / 22] + [0.4] + 11 * [0.1 / 22]
    solver.e_dist = [0.5] + 11 * [0.02 / 22] + [0.48] + 11 * [0.02 / 22]
    return solver, EvolutionarySolver


def native_search(func, variant=None, tries=60):
    """refuted obligation of a (non-canary) task -> search for a native failing run: the REAL move is applied to real solver circuits
    (initialization + a short random history), the edit calls are intercepted and the move's contract is evaluated natively on them.
    -> (witness, reproduced?)"""
    import numpy as np
    from graphiq.circuit import ops as gops

    def check(circ, name, a):
        op = lambda n: circ.dag.nodes[n]["op"]  # noqa: E731
        out = []
        if name == "insert_at":
            gate, edges = a
            if len(edges) != len(gate.q_registers):
                return ["number of edges differs from the number of registers"]
            for i, e in enumerate(edges):
                d = circ.dag.edges[e]
                if d["reg"] != gate.q_registers[i] or d["reg_type"] != gate.q_registers_type[i]:
                    out.append(f"register {i} of the gate ({gate.q_registers_type[i]}{gate.q_registers[i]}) is not the wire of edge {e}")
            if len(edges) == 2:
                if gate.q_registers_type[0] != "e":
                    out.append("two-qubit op not controlled by an emitter")
                if gate.q_registers_type == ("p", "p"):
                    out.append("photon-photon operation")
                if edges[1] in circ.find_incompatible_edges(edges[0]):
                    out.append("second edge is reported incompatible with the first")
            for i, e in enumerate(edges):
                if gate.q_registers_type[i] == "p" or circ.dag.edges[e]["reg_type"] == "p":
                    t = type(op(e[0]))
                    if t is gops.Input:
                        out.append("inserted on a photon wire before the emission")
                    if len(edges) == 1 and t is not gops.CNOT:
                        out.append("photon gate not directly after the emission CNOT")
        elif name == "replace_op":
            node, gate = a
            old = op(node)
            if old.q_registers != gate.q_registers or old.q_registers_type != gate.q_registers_type:
                out.append(f"replacement acts on {gate.q_registers_type}{gate.q_registers}, the old op on {old.q_registers_type}{old.q_registers}")
            if not isinstance(old, gops.OneQubitGateWrapper):
                out.append("replaced node is not a one-qubit wrapper")
            if gate.q_registers_type == ("p",) and "Fixed" not in gate.labels:
                out.append("photonic replacement without the Fixed label")
        elif name == "remove_op":
            o = op(a[0])
            if "Fixed" in o.labels or isinstance(o, (gops.Input, gops.Output)):
                out.append(f"removes a {type(o).__name__} labelled {o.labels}")
        return out

    for seed in range(tries):
        np.random.seed(seed)
        solver, ES = _native_solver()
        circ = ES.initialization(solver, [0, 1, 0], [0, 1])
        history = []
        for _ in range(seed % 5):
            mv = ["add_emitter_one_qubit_op", "add_emitter_cnot", "add_measurement_cnot_and_reset"][np.random.randint(3)]
            getattr(solver, mv)(circ)
            history.append(mv)
        if func == "add_photon_one_qubit_op" and seed % 2 == 0:
            circ.remove_op(sorted(circ.get_node_by_labels(["OneQubitGateWrapper", "Photonic"]))[0])
            history.append("circuit.remove_op(<first photonic wrapper>)")
        base = {"function": func, "seed": seed, "circuit": "initialization([0,1,0],[0,1])", "history": history}
        if func in HELPERS:
            pairs = getattr(ES, func)(circ)
            t2 = "e" if func == "_select_possible_cnot_position" else "p"
            for a, b in pairs:
                probs = []
                if a not in circ.edge_dict["e"] or b not in circ.edge_dict[t2]:
                    probs.append("edge of the wrong register type")
                if b in circ.find_incompatible_edges(a):
                    probs.append("incompatible pair")
                if t2 == "p" and type(circ.dag.nodes[b[0]]["op"]) is gops.Input:
                    probs.append("photon edge before the emission")
                if probs:
                    return dict(base, pair=[list(a), list(b)], actual=probs), True
            continue
        found = {}
        for nm in EDITS:
            orig = getattr(circ, nm)

            def wrapped(*a, _nm=nm, _orig=orig):
                probs = check(circ, _nm, a)
                if probs and not found:
                    found.update(call=_nm, args=[repr(x)[:90] for x in a], actual=probs)
                return _orig(*a)

            setattr(circ, nm, wrapped)
        if variant == "caller-chosen node":
            for n in list(circ.dag.nodes):
                # (Input / Output nodes are outside the clause: the real move refuses caller-chosen Fixed nodes only, and no
                #  caller in graphiq passes a node at all)
                if n in circ.dag.nodes and not found and not isinstance(circ.dag.nodes[n]["op"], (gops.Input, gops.Output)):
                    try:
                        solver.remove_op(circ, n)
                    except Exception as e:  # noqa: BLE001
                        return dict(base, node=repr(n), actual=f"raises {type(e).__name__}: {e}"), True
        else:
            try:
                getattr(solver, func)(circ)
            except Exception as e:  # noqa: BLE001
                return dict(base, actual=f"raises {type(e).__name__}: {e}"), True
        if found:
            return dict(base, **found), True
    return {"note": "no native run violated the move's contract", "tries": tries}, False
