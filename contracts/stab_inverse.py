"""C11 clause (a) "trace consistency" of stabilizer.inverse_circuit, and the frame contract of stabilizer.canonical_form.

inverse_circuit(tableau) -> (tableau_out, circuit_list).  Proved here, for every n and every StabilizerTableau (bits):
  * every gate applied to the working tableau (transform.hadamard_gate / cnot_gate / control_z_gate / phase_gate / x_gate)
    is appended to circuit_list with the name run_circuit dispatches to that gate (stab_circuit.GATES[name][0]) and the same
    indices, and nothing else is appended: the list and the gate trace are equal element for element, in order, in all
    seven blocks (loops of symbolic trip count by the lockstep rule of pyvc/invloop.py, nested loops included);
  * every gate acts on the ONE working tableau object, which is the argument object (canonical_form returns its argument,
    every gate returns its argument) and is what is returned; the returned list is the list that was built;
  * the `tab_row_swap` / `tab_row_sum` calls (gauge moves: they change the generating set, not the state) and every array
    access are within bounds, every callee precondition holds (gates: valid, distinct indices; row ops: valid rows, bits);
  * the only abrupt exit is canonical_form's `assert pivot[0] == n_qubits` (generators not independent).
  Hence State(tableau_out) = run(circuit_list) . State(tableau) by the gate contracts (C07) - clause (a).

NOT proved (and known to be FALSE on the unchanged tree): clause (b), that tableau_out is |0...0>.  The bounded checks found
states with n >= 5 on which the first Hadamard block mis-tracks its pivot row (bounded/C11.findings.md F1); (b) is decided
by the bounded stand-in only and is listed under not_applicable_clauses / trusted_base of props/C11.py as [B-only].

canonical_form(T): FRAME contract only - the argument object is returned, it still is an n x 2n bit table with n sign bits,
`_table`/`_phase` buffers that existed before have unspecified contents afterwards; permitted abrupt exit: the final assert.
That the output generates the same group and has the canonical shape is [B-only] (DESIGN C05 (a)-(c), stretch goal).
"""
from __future__ import annotations

import z3

from pyvc import source, schema as S, nzseq
from pyvc.contract import Contract, Task
from pyvc.interp import Interp, Engine, Path, explore, RaiseEx, Undecided, PathEnd, Frame
from pyvc.invloop import InvLoop, make_hook, check_lockstep
from pyvc.values import Obj, NDArr, FuncRef, new_array, to_z3, as_int_term
from .common import STABF, TRANS, TABLEAU_ACCESSORS, idx_in
from .stab_gates import C as GC, _and
from .stab_circuit import GATES, ARITY

CANON = f"{STABF}:canonical_form"
INVC = f"{STABF}:inverse_circuit"
C = {}


# ------------------------------------------------------------------------------------------ havoc of a tableau
def _bits(name, shape):
    B = z3.Function(name, *([z3.IntSort()] * len(shape)), z3.BoolSort())
    return lambda *i: z3.If(B(*i), z3.IntVal(1), z3.IntVal(0))


def _is_bit(t):
    return z3.And(t >= 0, t <= 1)


def havoc_tableau(I, T):
    """the generators and signs of T become arbitrary bits: buffers that exist now get unspecified contents IN PLACE (the
    real code writes the table in place, aliases see it), then `_table` / `_phase` (/ `_iphase`) are bound to fresh arrays"""
    c = I.path.counter.get("hvT", 0)
    I.path.counter["hvT"] = c + 1
    for f in ("_table", "_phase", "_iphase"):
        if f not in T.fields:
            continue
        old = T.fields[f]
        fn_old = _bits(f"hv{c}{f}_old", old.shape)
        old.store.f = (lambda *s, _fn=fn_old: _fn(*s))
        old.store.havoc = True
        old.store.havoc_pred = _is_bit
        new = new_array(old.shape, _bits(f"hv{c}{f}", old.shape), f"havoc{f}")
        new.store.havoc = True
        new.store.havoc_pred = _is_bit
        T.fields[f] = new
    return T


def tableau_inv(I, T, n0, shape0):
    """TableauShape: same size, n x 2n bit table, n sign bits"""
    out = []
    tab, ph = T.fields["_table"], T.fields["_phase"]
    out.append(("n_qubits-unchanged", T.fields["n_qubits"] is n0 or z3.simplify(to_z3(T.fields["n_qubits"]) == to_z3(n0))))
    n_ = to_z3(n0)
    out.append(("table-shape", z3.And(to_z3(tab.shape[0]) == n_, to_z3(tab.shape[1]) == 2 * n_, to_z3(ph.shape[0]) == n_)))
    i, j = I.path.fresh("ti"), I.path.fresh("tj")
    out.append(("table-bits", _is_bit(as_int_term(tab.get(i, j))), [i >= 0, i < n_, j >= 0, j < 2 * n_]))
    out.append(("phase-bits", _is_bit(as_int_term(ph.get(i))), [i >= 0, i < n_]))
    return out


# ------------------------------------------------------------------------------------------ canonical_form: frame contract
def _canon_spec(I, T):
    if I.path.ghost.get("task") != CANON:
        # call sites: the permitted abrupt exit may be taken (own task: the `permitted_asserts` hook lets only the paths
        # on which the final assert holds return normally)
        b = I.path.fresh("canon_assert_fails", "bool")
        I.path.ghost["canon_may_assert"] = True
        if I.path.decide(b):
            raise RaiseEx("AssertionError", "assert pivot[0] == n_qubits (generators not independent)")
    return havoc_tableau(I, T)


def _canon_req(I, T):
    tab, ph, n = T.fields["_table"], T.fields["_phase"], T.fields["n_qubits"]
    i, j = I.path.fresh("rq"), I.path.fresh("rq")
    n_ = to_z3(n)
    return _and(n_ >= 1, to_z3(tab.shape[0]) == n_, to_z3(tab.shape[1]) == 2 * n_, to_z3(ph.shape[0]) == n_,
                z3.Implies(z3.And(i >= 0, i < n_, j >= 0, j < 2 * n_), _is_bit(as_int_term(tab.get(i, j)))))


C[CANON] = Contract(CANON, requires=_canon_req, spec=_canon_spec,
                    permitted_raises=lambda I, exc, *a: exc == "AssertionError",  # (only consulted when a concrete replay raises)
                    clause="frame: canonical_form returns its argument object, still an n x 2n bit table with n sign bits; all row "
                           "operations stay within bounds; only permitted abrupt exit: the final independence assert")


def _env_loops(func, kinds):
    """InvLoop specs for the `for j in range(n_qubits)` blocks of `func`; kinds: list of (body_has, inner (target, iter, body_has) | None,
    uses_pivot, lockstep)"""
    specs = []

    def mk_havoc(with_pivot):
        def havoc(I, env):
            g = I.path.ghost["wt"]
            hv = [havoc_tableau(I, g["T"])]
            if with_pivot:
                g["P"][0] = I.path.fresh("pivot_row")
                g["P"][1] = I.path.fresh("pivot_col")
                hv.append(g["P"])
            return hv

        return havoc

    def mk_inv(pivot_rule):
        def inv(I, k, env):
            g = I.path.ghost["wt"]
            out = [("tableau-is-the-working-object", env.get("tableau") is g["T"])]
            out += tableau_inv(I, g["T"], g["n"], g["shape"])
            if pivot_rule is not None:
                out.append(("pivot-list-kept", env.get("pivot") is g["P"]))
                out.append(("pivot-row", pivot_rule(to_z3(g["P"][0]), k, to_z3(g["n"]))))
            return out

        return inv

    for body_has, inner, pivot_rule, lockstep, loc in kinds:
        specs.append(InvLoop(func, "j", None, modifies={"tableau"}, havoc=mk_havoc(pivot_rule is not None),
                             inv=mk_inv(pivot_rule), locals=loc, lockstep=lockstep, body_has=body_has))
        if inner is not None:
            specs.append(InvLoop(func, inner[0], inner[1], modifies={"tableau"}, havoc=mk_havoc(False), inv=mk_inv(None),
                                 locals=(), lockstep=lockstep, body_has=inner[2]))
    return specs


CANON_LOOPS = _env_loops("canonical_form", [
    # Z block first: "pauli_type_finder" is a substring of "one_pauli_type_finder"
    ("one_pauli_type_finder", ("row_m", "range(n_qubits)", "z_matrix[row_m, j]"), lambda p, k, n: z3.And(p >= 0, p <= n), None,
     {"z_list", "row_m"}),
    ("pauli_type_finder", ("row_m", "range(n_qubits)", "x_matrix[row_m, j]"), lambda p, k, n: z3.And(p >= 0, p <= k), None,
     {"x_list", "y_list", "z_list", "row_m"}),
])


def _working(I, T, pivot=None):
    I.path.ghost["wt"] = dict(T=T, n=T.fields["n_qubits"], shape=T.fields["shape"], P=pivot)


def _capture_hook(loop_hook, list_name="pivot"):
    """the loop rules need the function's pivot list object: captured from the frame when the first loop is reached"""

    def hook(interp, node, it):
        g = interp.path.ghost["wt"]
        if g.get("P") is None:
            g["P"] = interp.stack[-1].env.get(list_name)
        return loop_hook(interp, node, it)

    return hook


def _permit_final_assert(interp, name, node):
    import ast

    if ast.unparse(node.test) == "pivot[0] == n_qubits":
        # the contract lists this assert as the permitted abrupt exit; mark the path that takes it
        return True
    return False


class StabIn(S.Stabilizer):
    """Stabilizer schema item that also registers the tableau as the working tableau of the loop rules"""

    def symbolic(self, I):
        T = super().symbolic(I)
        if "wt" not in I.path.ghost:
            _working(I, T)
        return T


def canon_tasks(Call):
    hooks = {"loop": _capture_hook(make_hook(CANON_LOOPS)), "permitted_asserts": _permit_final_assert}
    return [Task(CANON, C[CANON], [StabIn("S")], Call, inline=TABLEAU_ACCESSORS, hooks=hooks, label="canonical_form[frame]")]


# ------------------------------------------------------------------------------------------ inverse_circuit: lockstep
def recording_gates():
    """the real gate contracts + an event in the effect trace"""
    R = {}
    for names in GATES.values():
        g = names[0]
        if g is None:
            continue
        q = f"{TRANS}:{g}"
        real = GC[q]

        def spec(I, T, *a, _real=real, _g=g):
            I.path.trace.append({"name": _g, "args": [T] + list(a), "self": None, "ret": T})
            return _real.spec(I, T, *a)

        R[q] = Contract(q, requires=real.requires, spec=spec, clause=real.clause)
    return R


def match_gate(I, item, ev):
    """item appended to circuit_list  <->  recorded gate call: the gate run_circuit dispatches the item's name to, applied to
    the working tableau with the item's indices"""
    if not (isinstance(item, tuple) and item and isinstance(item[0], str) and item[0] in GATES):
        return False
    g = GATES[item[0]][0]
    if g is None or ev["name"] != g or len(item) != 1 + ARITY[item[0]] or len(ev["args"]) != len(item):
        return False
    if ev["args"][0] is not I.path.ghost["wt"]["T"]:
        return False
    return z3.And(*[to_z3(a) == to_z3(b) for a, b in zip(item[1:], ev["args"][1:])])


# the first Hadamard block is recognised by its use of the pivot (its invariant pins pivot[0] == j); EVERY other loop of the
# function over j / k / i - whatever its header or body says - falls under the generic lockstep contract
def invc_loops(match):
    LS = ("circuit_list", match)
    L = _env_loops("inverse_circuit", [
        ("pauli_type_finder", None, lambda p, k, n: p == k, LS, {"x_list", "y_list", "z_list"}),
        (None, ("k", None, None), None, LS, {"k"}),
    ])
    base = L[1]  # a loop spec without pivot
    L.append(InvLoop("inverse_circuit", "i", None, modifies={"tableau"}, havoc=base.havoc, inv=base.inv, lockstep=LS))
    return L


class LockstepTask:
    """runs the REAL inverse_circuit under recording gate contracts and checks R(returned list, gate trace)"""

    def __init__(self, Call, label="inverse_circuit[trace consistency]", timeout_ms=10000, match=None):
        self.qual = INVC
        self.label = label
        self.contracts = dict(Call)
        self.contracts.update(recording_gates())
        self.contracts[CANON] = C[CANON]
        self.inline = set(TABLEAU_ACCESSORS)
        self.timeout_ms = timeout_ms
        self.contract = Contract(INVC, clause="C11(a): circuit_list == the sequence of gates applied to the working tableau "
                                              "(name and indices, in order); the argument object is the working tableau and is returned")
        self.match = match or match_gate
        self.hooks = {"loop": _capture_hook(make_hook(invc_loops(self.match)))}
        self.hooks.update(nzseq.HOOKS)

    def run(self):
        eng = Engine(self.timeout_ms)
        m, node, cls = source.find(self.qual)

        def harness(path):
            I = Interp(path, self.contracts, self.inline, dict(self.hooks))
            I.task_name = self.qual
            path.ghost["task"] = self.qual
            f = FuncRef(m.name, node, self.qual, None)
            I.stack.append(Frame(m.name, {}, self.label))
            T = StabIn("S").symbolic(I)
            path.trace = []
            try:
                ret = I.call_function(f, [T], {}, force_body=True)
            except RaiseEx as e:
                ok = e.exc_name == "AssertionError" and path.ghost.get("canon_may_assert") and not path.trace
                eng.record(f"{self.label}:no-raise", "discharged" if ok else "refuted", 0,
                           "" if ok else f"real body raises {e.exc_name}: {e.msg}", None)
                return
            eng.record(f"{self.label}:no-raise", "discharged", 0, "", None)
            ok = isinstance(ret, tuple) and len(ret) == 2 and isinstance(ret[1], list)
            eng.record(f"{self.label}:post.returns-(tableau,list)", "discharged" if ok else "refuted", 0, "" if ok else repr(ret), None)
            if not ok:
                return
            same = ret[0] is T
            eng.record(f"{self.label}:post.returned-tableau-is-the-working-tableau", "discharged" if same else "refuted", 0,
                       "" if same else "the returned tableau is not the object the gates were applied to", None)
            for nm_, g_, *ex in tableau_inv(I, T, T.fields["n_qubits"], T.fields["shape"]):
                path.oblige(f"{self.label}:post.{nm_}", g_ if not isinstance(g_, bool) else z3.BoolVal(g_), extra=ex[0] if ex else [])
            check_lockstep(I, self.label + ":post", list(ret[1]), list(path.trace), self.match)

        try:
            explore(eng, harness)
        except Undecided as u:
            eng.record(f"{self.label}:supported-subset", "undecided", 0, f"{u}", None)
        for r in eng.results.values():
            r.witness, r.replayed = None, False
        return eng


def invc_tasks(Call):
    return [LockstepTask(Call)]


# ------------------------------------------------------------------------------------------ canaries
def match_gate_swapped(I, item, ev):
    """WRONG relation: two-qubit items are recorded as (target, control)"""
    if isinstance(item, tuple) and len(item) == 3:
        item = (item[0], item[2], item[1])
    return match_gate(I, item, ev)


def native_trace(table, phase):
    """run the REAL inverse_circuit on a concrete tableau with the transformation functions wrapped by recorders
    (in-process monkeypatch of the module attributes, restored afterwards) -> (circuit_list, [(gate name, indices)])"""
    import importlib
    import numpy as np

    stab = importlib.import_module(STABF)
    tabm = importlib.import_module(TAB_MOD)
    tr = stab.transform
    events, saved, depth = [], {}, [0]
    names = sorted({g[0] for g in GATES.values() if g[0]} | {g[1] for g in GATES.values() if g[1]})
    for g in names:
        saved[g] = getattr(tr, g)

        def mk(fn, g=g):
            def wrapped(t, *a):
                if depth[0] == 0:  # only the calls made by inverse_circuit itself (control_z_gate is built from H, CNOT)
                    events.append((g, tuple(int(x) for x in a)))
                depth[0] += 1
                try:
                    return fn(t, *a)
                finally:
                    depth[0] -= 1
            return wrapped

        setattr(tr, g, mk(saved[g]))
    try:
        t = tabm.StabilizerTableau(np.array(table), np.array(phase))
        _, circ = stab.inverse_circuit(t)
    finally:
        for g, fn in saved.items():
            setattr(tr, g, fn)
    return circ, events


TAB_MOD = "graphiq.backends.stabilizer.tableau"


def canary_tasks(Call):
    return [LockstepTask(Call, label="canary.inverse_circuit.two-qubit-items-recorded-swapped", match=match_gate_swapped)]


def canary_native_replay():
    """the canary's wrong relation is contradicted by a real run: graph state of the path 0-1-2 (needs CZ gates)"""
    table = [[1, 0, 0, 0, 1, 0], [0, 1, 0, 1, 0, 1], [0, 0, 1, 0, 1, 0]]
    circ, events = native_trace(table, [0, 0, 0])
    real_ok = len(circ) == len(events) and all(GATES[it[0]][0] == ev[0] and tuple(it[1:]) == ev[1] for it, ev in zip(circ, events))
    swapped_ok = len(circ) == len(events) and all(
        GATES[it[0]][0] == ev[0] and (tuple(it[1:]) if len(it) == 2 else (it[2], it[1])) == ev[1] for it, ev in zip(circ, events))
    return dict(input=dict(table=table, phase=[0, 0, 0]), circuit=[list(c) for c in circ], events=[[e[0], list(e[1])] for e in events],
                contract_relation_holds=real_ok, canary_relation_holds=swapped_ok)


def canon_canaries(Call):
    hooks = {"loop": _capture_hook(make_hook(CANON_LOOPS)), "permitted_asserts": _permit_final_assert}

    def bad2(I, T):  # claims the signs are untouched (canonical_form swaps and multiplies generators: signs move with them)
        tab, ph = T.fields["_table"], T.fields["_phase"]
        rp = ph.reader()
        havoc_tableau(I, T)
        from pyvc.values import new_array as _na

        T.fields["_phase"] = _na(ph.shape, rp, "phase-unchanged")
        return T

    return [Task(CANON, C[CANON], [StabIn("S")], Call, inline=TABLEAU_ACCESSORS, hooks=hooks, label="canary.canonical_form.signs-untouched",
                 spec_override=bad2)]


# ------------------------------------------------------------------------------------------ rep_conversion.clifford_from_stabilizer
REPC = "graphiq.backends.stabilizer.functions.rep_conversion"
CFS = f"{REPC}:clifford_from_stabilizer"


def cfs_tasks():
    """dispatch [P, trace]: the Clifford tableau is |0..0> (create_n_ket0_state(n), contract in stab_clifford.py) with the
    synthesised inverse circuit run BACKWARDS (run_circuit(..., reverse=True): P <-> P_dag, reversed order).  With C11 (a),
    the gate contracts and (b) [B-only] this is the input state.  Frame: inverse_circuit overwrites the CALLER's stabilizer
    tableau (it works in place) - recorded as the observation O1 of bounded/C11.findings.md."""
    from pyvc.trace import recorder, TraceTask
    from pyvc.values import Opaque
    from .common import CLIFF, mk_stabilizer

    R = {
        INVC: recorder(INVC, "inverse_circuit", result=lambda I, T: (T, Opaque("circuit_list", T))),
        f"{CLIFF}:create_n_ket0_state": recorder(f"{CLIFF}:create_n_ket0_state", "create_n_ket0_state", result=lambda I, n: Opaque("ket0", n)),
        f"{TRANS}:run_circuit": recorder(f"{TRANS}:run_circuit", "run_circuit", result=lambda I, t, c, r: Opaque("ran", (t, c, r))),
    }

    def mk(I):
        return [mk_stabilizer(I, "S")]

    def spec(I, cur, S_):
        ret = cur.expect("inverse_circuit", S_)
        k0 = cur.expect("create_n_ket0_state", S_.fields["n_qubits"])
        return cur.expect("run_circuit", k0, ret[1], True)

    from pyvc.trace import TraceTask as _TT

    return [_TT(CFS, mk, spec, R, inline=set(TABLEAU_ACCESSORS),
                clause="clifford_from_stabilizer = run_circuit(create_n_ket0_state(n), inverse_circuit(S)[1], reverse=True)")]


def cfs_canaries():
    t = cfs_tasks()[0]
    t.label = "canary.clifford_from_stabilizer.forward-run"

    def spec(I, cur, S_):
        ret = cur.expect("inverse_circuit", S_)
        k0 = cur.expect("create_n_ket0_state", S_.fields["n_qubits"])
        return cur.expect("run_circuit", k0, ret[1], False)  # WRONG: the inverse circuit must be run backwards

    t.spec = spec
    return [t]
