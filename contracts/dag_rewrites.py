"""C13 / C18 / C12 - the three circuit REWRITES of CircuitDAG on a symbolic graph fragment (pyvc/symgraph.py, dagwire layer 1).

REAL bodies interpreted from /repo's AST: CircuitDAG.remove_identity, CircuitDAG.unwrap_nodes, CircuitDAG.group_one_qubit_gates and,
inlined below them, remove_op / _remove_node / insert_at / _insert_at / _add_node / _add_edge / _remove_edge / the index helpers /
_is_one_qubit_gate / edge_from_reg, the REAL operation constructors of graphiq/circuit/ops.py and the REAL OneQubitGateWrapper.unwrap.

What the property needs (C13: "unwrapping or grouping single-qubit gates, removing identity gates ... do not change the state";
C18: the metrics run unwrap_nodes + remove_identity on a copy and count what is left):

 remove_identity   after the call NO node of the circuit carries an Identity operation; every Identity node is unspliced (its wire
                   predecessor and successor are re-joined by ONE edge with the wire's key / reg / reg_type = the removal contract of
                   remove_op, contracts/dag.py, whose wire-level meaning is UNSPLICE, lemmas/wires.py); every other node, every other
                   edge, all index entries of other nodes (in their order), register counts and the id counter are untouched.
 unwrap_nodes      every OneQubitGateWrapper node [g1..gk] (LISTED order: gk acts first, ops.OneQubitGateWrapper.unwrap, C20) is
                   replaced, in place on its wire, by the chain of k nodes gk, ..., g1 (= application order), each a fresh instance of
                   the listed class on the wrapper's register / type: the per-wire sequence of ELEMENTARY gates in application order
                   is unchanged.
 group_one_qubit_gates   on every wire each maximal run of one-qubit gate nodes (plain gates, Identity, wrappers) becomes ONE wrapper
                   node at the place of the run whose unwrap() order (= reversed `operations`) equals the application sequence of the
                   run (plain gate: its class; wrapper [g1..gk]: gk, ..., g1); nodes that are not one-qubit gates (two-qubit gates,
                   MeasurementZ) and the other wires are untouched and separate the runs.

ASSUMED about the circuit (representation invariant WF of C12, DESIGN 5/C12, licensed by the edit contracts of contracts/dag.py):
 [WF-wire] every operation node has exactly one incoming and one outgoing edge per wire it sits on (so the fragment lists ALL edges of
           a node it marks closed); node ids are pairwise distinct integers in [1, _node_id]; in/out nodes are the template names.
 [WF4-key] node_dict[K] (K = "Identity" / "OneQubitGateWrapper" / "one-qubit" / "Input" / "Output" / class names / register tags) lists
           EXACTLY the nodes carrying label K, each once.  remove_identity / unwrap_nodes trust node_dict to FIND the nodes: a node
           carrying an Identity that is not listed under "Identity" is outside the precondition (C12 proves the edits keep WF4).

SYMBOLIC NUMBER OF NODES (loop rule L-snapshot, stated here, used for `for node in identity_list` / `for node in wrapper_list`):
   a `for x in S: body` statement whose iterated list object S is not written by its body visits S[0], ..., S[n-1] once each, in order.
   The side condition is an obligation of every task (`loop[...].iterated-list-not-written-by-body`, decided from the interpreter's
   write log: the iterated Python list object does not occur among the objects written while the loop runs).  The executor itself
   iterates lists LIVE (index-based, re-reading len() before every step - CPython's list iterator), so code that does mutate the list
   it iterates is executed faithfully in the unrolled tasks (and skips elements exactly as CPython does).
   Induction over k with  Inv(k): S[0..k-1] are gone and their wires re-joined; S[k..] are still nodes with exactly one incoming and one
   outgoing edge on their wire and are still listed, in order, in every index list they were listed in; nothing else changed.
   * base: Inv(0) is the precondition.
   * step: `*.step[...]` tasks run the REAL loop body (remove_op(x), resp. the unwrap body) for an ARBITRARY member x = S[k] with
     representative other members y1 (listed before x) and y2 (listed after x), each possibly adjacent to x on the same wire, and ANY
     NUMBER of further members anywhere in the lists (abstract list segments R0 y1 R1 x R2 y2 R3), and prove Inv(k+1): x gone, every
     other member and segment still listed in order, y1 / y2 each with exactly one incoming and one outgoing edge (re-joined past x
     when adjacent).  [A-list] a segment stands for members not in the fragment: list.remove(v) skips them (they differ from v, WF4)
     and keeps them in place - the model of models.value_attr(list).remove; two representative members y1 / y2 stand for the members
     of the fragment's neighbourhood (the body's control flow never depends on a member other than x).
   * the unrolled tasks (`remove_identity[k=0..3,...]`, `unwrap_nodes[...]`) run the WHOLE real function for 0, 1, 2, 3 listed nodes
     with symbolic ids / registers / neighbours (apart and adjacent, every list order).

[B-only] that the compiled state is unchanged (needs Sem of the gate sequence: C01 + C20); group_one_qubit_gates for runs longer than
the enumerated shapes (the backwards walk is unrolled on fragments with at most 4 operation nodes per wire; the list-building order is
what the enumerated shapes decide: plain/wrapper in every position of a run of 2 and 3, runs split by a two-qubit gate / measurement).
"""
from __future__ import annotations

import ast
import itertools
import os

import z3

from pyvc import source, symgraph as SG, models
from pyvc.contract import Contract
from pyvc.interp import Interp, Engine, explore, RaiseEx, Undecided, PathEnd, Frame, BreakEx, ContinueEx
from pyvc.values import Obj, FuncRef, ClsRef, Opaque, to_z3, is_sym
from . import compile_stab as CS, dag as D
from .ops_clifford import wrapper_contracts

CDAG = D.CDAG
OPS = CS.OPS
Q_RI = f"{CDAG}:CircuitDAG.remove_identity"
Q_UW = f"{CDAG}:CircuitDAG.unwrap_nodes"
Q_GR = f"{CDAG}:CircuitDAG.group_one_qubit_gates"
Q_RM = f"{CDAG}:CircuitDAG.remove_op"

INLINE = set(D.INLINE) | {f"{CDAG}:CircuitDAG.{m}" for m in ("insert_at", "remove_op", "_is_one_qubit_gate", "edge_from_reg")}


# =============================================================================================
# live list iteration + the side condition of loop rule L-snapshot
# =============================================================================================
def live_list_loop(log):
    """hook 'loop': `for x in <python list>` executed like CPython's list iterator (index i, re-reading len() before every step);
    records per loop statement whether the iterated list object was written while the loop ran"""

    def hook(I, node, it):
        if not isinstance(it, list):
            return False
        models.used("for x in <list>: CPython list iterator (index-based, live length)")
        w0 = len(I.writes)
        i, broke = 0, False
        while i < len(it):
            if i > 64:
                raise Undecided("more than 64 iterations of a list loop")
            v = it[i]
            i += 1
            I.assign(node.target, v)
            try:
                I.exec_block(node.body)
            except BreakEx:
                broke = True
                break
            except ContinueEx:
                continue
        if not broke:
            I.exec_block(node.orelse)
        fn = I.stack[-1].func_name.split(".")[-1]
        log.append((f"{fn}:for {ast.unparse(node.target)} in {ast.unparse(node.iter)[:48]}",
                    any(w[0] is it for w in I.writes[w0:])))
        return True

    return hook


# =============================================================================================
# scenario: wires as explicit chains of real operations
# =============================================================================================
class IdList(list):
    """fragment entry lists with removal BY IDENTITY: symgraph removes entries with list.remove, which compares entries with ==
    and so would compare z3 node ids with template strings on fragments that mix operation nodes and in/out nodes"""

    def remove(self, item):
        for k, e in enumerate(self):
            if e is item:
                del self[k]
                return
        raise ValueError("entry not in list")


class Sc(D.Scenario):
    def __init__(self, I):
        super().__init__(I)
        self._ids = []
        self.g.edges, self.g.nodes = IdList(self.g.edges), IdList(self.g.nodes)

    def ids(self, *names):
        """existing operation nodes: pairwise distinct integers in [1, node_id] [WF-wire]"""
        out = []
        for nm in names:
            v = self.op_node(nm)
            for w in self._ids:
                self.I.path.assume(v != w)
            self._ids.append(v)
            out.append(v)
        return out if len(out) > 1 else out[0]

    def reg(self, name, t):
        r = z3.Int(name)
        self.I.path.assume(z3.And(r >= 0, r < self.n[t]))
        return r

    def op(self, name, t, r, classes=None, noise=None):
        """the REAL operation object (real constructor chain) on register (t, r)"""
        I = self.I
        if name == "OneQubitGateWrapper":
            kw = {"register": r, "reg_type": t}
            if noise is not None:
                kw["noise"] = noise
            return I.instantiate(I.get_class(OPS, name), [[I.get_class(OPS, c) for c in classes]], kw)
        if name == "MeasurementZ":
            return CS.make_op(I, name, dict(r=r, rt=t, creg=0))
        return CS.make_op(I, name, dict(r=r, rt=t))

    def op2(self, name, tc, rc, tt, rt_):
        return CS.make_op(self.I, name, dict(c=rc, ct=tc, t=rt_, tt=tt))

    def put(self, node, op, closed=True, index=True):
        self.g.nodes.append([node, {"op": op}])
        if closed:
            self.g.closed.append(node)
        if index and op is not None:
            for lab in D._labels_of(self.I, op):
                self.c.fields["node_dict"].setdefault(lab, []).append(node)

    def unknown(self, node):
        """a node of the untouched rest that happens to be a neighbour: only its identity is known"""
        if self.g._find_node(self.I, node) is None:
            self.g.nodes.append([node, {"op": D.Opaque_op(self.I)}])

    def link(self, u, v, t, r):
        self.g.edges.append([u, v, D.key(t, r), {"reg": r, "reg_type": t}])
        self.c.fields["edge_dict"].setdefault(t, []).append((u, v, D.key(t, r)))

    def ends(self, t, r):
        """in / out nodes of wire (t, r) with their REAL Input / Output operations; both closed"""
        i_, o_ = D.in_node(t, r), D.out_node(t, r)
        self.g.nodes.append([i_, {"op": self.op("Input", t, r), "reg": r}])
        self.g.nodes.append([o_, {"op": self.op("Output", t, r), "reg": r}])
        self.g.closed += [i_, o_]
        self.c.fields["node_dict"]["Input"].append(i_)
        self.c.fields["node_dict"]["Output"].append(o_)
        return i_, o_

    def chain(self, t, r, nodes):
        for u, v in zip(nodes, nodes[1:]):
            self.link(u, v, t, r)


class RWTask:
    """run the REAL method `qual` (or `call(I, sc)`) on scenario(I) -> (sc, args); then check(I, sc, ret, P) records obligations"""

    def __init__(self, qual, scenario, check, label, clause="", timeout_ms=10000, expect_raise=None, max_paths=4000, loop_body=None,
                 instantiate=None, native=None, body_slice=None):
        self.qual, self.scenario, self.check, self.label = qual, scenario, check, label
        self.native = native  # native() -> (witness, reproduced?): replay of a refuted obligation on the REAL code
        self.body_slice = body_slice  # with loop_body: body_slice(statements) -> the statements to execute (e.g. those before a nested loop)
        self.contract = Contract(qual, clause=clause)
        self.timeout_ms, self.expect_raise, self.max_paths = timeout_ms, expect_raise, max_paths
        # loop_body: select(FunctionDef) -> the ast.For / ast.While statement of `qual` whose BODY (real statements, unchanged) is
        # executed once from the state the scenario builds (an arbitrary iteration under the loop invariant); the scenario then
        # returns (sc, env) with env = the local variables of the function at that point
        self.loop_body = loop_body
        self.instantiate = instantiate

    def run(self):
        eng = Engine(self.timeout_ms)
        m, node, cls = source.find(self.qual)
        C = D.contracts()
        C.update(wrapper_contracts())

        def harness(path):
            loops = []
            hooks = SG.install({"instantiate": self.instantiate or CS.abstract_noise_instantiate, "loop": live_list_loop(loops)})
            if os.environ.get("VERIF_NO_LIVE_LIST_HOOK"):  # diagnosis only: rely on the engine's own `for` semantics
                del hooks["loop"]
            I = Interp(path, C, INLINE, hooks)
            I.task_name = self.qual
            f = FuncRef(m.name, node, self.qual, I.get_class(m.name, cls.name))
            I.stack.append(Frame(m.name, {}, self.label))
            sc, args = self.scenario(I)
            path.trace = []
            I.writes = []
            del loops[:]
            try:
                if self.loop_body is None:
                    ret = I.call_function(f, [sc.c] + list(args), {}, force_body=True)
                else:
                    loop = self.loop_body(node)
                    fr = Frame(m.name, dict(args, self=sc.c), self.qual.split(":")[1], I.get_class(m.name, cls.name))
                    I.stack.append(fr)
                    try:
                        I.exec_block(loop.body if self.body_slice is None else self.body_slice(loop.body))
                    finally:
                        I.stack.pop()
                    ret = fr.env
            except RaiseEx as e:
                ok = self.expect_raise is not None and e.exc_name in self.expect_raise
                eng.record(f"{self.label}:no-raise", "discharged" if ok else "refuted", 0,
                           "" if ok else f"real body raises {e.exc_name}: {e.msg} on a fragment the WF precondition allows", None)
                return
            eng.record(f"{self.label}:no-raise", "discharged", 0, "", None)
            for name, written in loops:
                # side condition of loop rule L-snapshot; when it fails the rule (hence the generalisation to any number of listed
                # nodes) does not apply: undecided, the unrolled obligations below decide the enumerated sizes
                eng.record(f"{self.label}:loop[{name}].iterated-list-not-written-by-body", "undecided" if written else "discharged", 0,
                           "the loop body writes the list object the loop iterates: rule L-snapshot does not apply" if written else "", None)
            self.check(I, sc, ret, P(I, sc, self.label))

        try:
            explore(eng, harness, max_paths=self.max_paths)
        except Undecided as u:
            eng.record(f"{self.label}:supported-subset", "undecided", 0, f"{u}", None)
        for r in eng.results.values():
            r.witness, r.replayed = None, False
        bad = [r for r in eng.results.values() if r.status == "refuted"]
        if bad and self.native is not None:
            try:
                wit, ok = self.native()
            except Exception as e:  # noqa: BLE001
                wit, ok = {"replay_error": f"{type(e).__name__}: {e}"}, False
            for r in bad:
                r.witness, r.replayed = wit, ok
        return eng


def _drop(lst, item):
    """remove by identity (list.remove would compare z3 terms with strings)"""
    for k, e in enumerate(lst):
        if e is item:
            del lst[k]
            return


class P(D.Post):
    def edges_are(self, expected):
        """the explicit edge multiset equals `expected` [(u,v,k,reg,reg_type)] (as D.Post.edges_are; removal by identity)"""
        g, I = self.sc.g, self.I
        remaining = list(g.edges)
        for n_, (u, v, k, reg, rt) in enumerate(expected):
            hit = None
            for e in remaining:
                if SG.decide_eq(I, e[0], u) and SG.decide_eq(I, e[1], v) and SG.decide_eq(I, e[2], k):
                    hit = e
                    break
            self.ob(f"edge[{n_}].present", hit is not None, f"missing edge {(u, v, k)}; have {[(e[0], e[1], e[2]) for e in g.edges]}")
            if hit is not None:
                _drop(remaining, hit)
                self.ob(f"edge[{n_}].reg", SG.eq_term(I, hit[3].get("reg"), reg))
                self.ob(f"edge[{n_}].reg_type", SG.eq_term(I, hit[3].get("reg_type"), rt))
        self.ob("edges.no-others", not remaining, f"unexpected edges {[(e[0], e[1], e[2]) for e in remaining]}")

    def dict_list_is(self, what, lst, expected):
        """list contents as a multiset"""
        I = self.I
        remaining = [[e] for e in lst]
        for n_, x in enumerate(expected):
            hit = None
            for e in remaining:
                if SG.decide_eq(I, e[0], x):
                    hit = e
                    break
            self.ob(f"{what}[{n_}].present", hit is not None, f"missing {x} in {lst}")
            if hit is not None:
                _drop(remaining, hit)
        self.ob(f"{what}.no-others", not remaining, f"stale entries {[e[0] for e in remaining]}")

    def list_is(self, what, lst, expected):
        """ordered list equality"""
        I = self.I
        ok = isinstance(lst, list) and len(lst) == len(expected)
        self.ob(f"{what}.length", ok, f"have {lst}, want {expected}")
        if ok:
            for k, (a, b) in enumerate(zip(lst, expected)):
                self.ob(f"{what}[{k}]", SG.eq_term(I, a, b), f"have {lst}, want {expected}")

    def no_op_of_class(self, clsname):
        bad = [n[0] for n in self.sc.g.nodes if isinstance(n[1].get("op"), Obj) and n[1]["op"].cls.name == clsname]
        self.ob(f"no-node-carries-{clsname}", not bad, f"nodes {bad} still carry a {clsname} operation")

    def node_gone(self, what, n):
        self.ob(f"{what}.removed", self.sc.g._find_node(self.I, n) is None, f"node {n} is still in the graph")

    def op_at(self, what, n, clsname, t, r):
        ent = self.sc.g._find_node(self.I, n)
        self.ob(f"{what}.present", ent is not None, f"no node {n}")
        if ent is None:
            return None
        op = ent[1].get("op")
        good = isinstance(op, Obj) and op.cls.name == clsname
        self.ob(f"{what}.class", good, f"operation at {n} is {op!r}, want {clsname}")
        if good and clsname not in ("Input", "Output"):
            self.ob(f"{what}.register", to_z3(op.fields["register"]) == to_z3(r))
            self.ob(f"{what}.reg_type", op.fields["reg_type"] == t, f"reg_type {op.fields['reg_type']}")
        return op

    def frame(self, registers=True):
        sc = self.sc
        if registers:
            for t in "epc":
                self.ob(f"registers[{t}].unchanged", to_z3(sc.reglists[t].length) == sc.n[t])
                self.ob(f"register_depth[{t}].length-unchanged", to_z3(sc.depthlists[t].length) == sc.n[t])


TAG = {"e": "Emitter", "p": "Photonic"}  # OperationBase.parse_q_reg_types of a one-qubit operation


def _names(classes):
    return ".".join(c[:2] if c != "PhaseDagger" else "Pd" for c in classes)


# =============================================================================================
# remove_identity
# =============================================================================================
RI_CLAUSE = ("no node carries an Identity afterwards; every listed Identity node is unspliced (predecessor and successor re-joined by one "
             "edge with the wire's key and attributes); all other nodes, edges, index entries (in order), register counts, id counter kept")


def _ri_apart(k, types, present=True):
    """k Identity nodes, none adjacent to another one; neighbours are unknown nodes of the rest (k <= 2: they may coincide)"""

    def scenario(I):
        sc = Sc(I)
        h0, h1 = sc.ids("h0", "h1")  # bystanders: other one-qubit nodes listed around the identities in the shared index lists
        idn = [sc.ids(f"id{i}") for i in range(k)]
        nd = sc.c.fields["node_dict"]
        if present and k == 0:
            nd["Identity"] = []
        sc.wires, sc.ab, sc.idn = [], [], idn
        for lab in ("one-qubit", "Emitter", "Photonic"):
            nd.setdefault(lab, []).append(h0)
        for i in range(k):
            t = types[i]
            r = sc.reg(f"r{i}", t)
            sc.put(idn[i], sc.op("Identity", t, r))
            a, b = z3.Int(f"a{i}"), z3.Int(f"b{i}")
            for x in (a, b):
                I.path.assume(z3.And(x >= 1, x <= sc.M, x != h0, x != h1))
                for j in idn:
                    I.path.assume(x != j)
            I.path.assume(a != b)
            for (pt, pr), (pa, pb) in zip(sc.wires, sc.ab):
                if k >= 3:
                    I.path.assume(z3.And(a != pa, a != pb, b != pa, b != pb))
                elif pt == t:  # [WF-wire] on ONE wire a node has one successor and one predecessor
                    I.path.assume(z3.Implies(pr == r, z3.And(a != pa, b != pb)))
            sc.unknown(a)
            sc.unknown(b)
            sc.link(a, idn[i], t, r)
            sc.link(idn[i], b, t, r)
            sc.wires.append((t, r))
            sc.ab.append((a, b))
        for lab in ("one-qubit", "Emitter", "Photonic"):
            nd.setdefault(lab, []).append(h1)
        sc.h = (h0, h1)
        return sc, []

    def check(I, sc, ret, Pp):
        nd = sc.c.fields["node_dict"]
        Pp.no_op_of_class("Identity")
        for i, n in enumerate(sc.idn):
            Pp.node_gone(f"identity[{i}]", n)
        Pp.edges_are([(a, b, D.key(t, r), r, t) for (t, r), (a, b) in zip(sc.wires, sc.ab)])
        Pp.list_is("node_dict[Identity]", nd.get("Identity", []), [])
        Pp.list_is("node_dict[one-qubit]", nd.get("one-qubit", []), list(sc.h))
        for t in "ep":
            Pp.list_is(f"node_dict[{TAG[t]}]", nd.get(TAG[t], []), list(sc.h))
            Pp.dict_list_is(f"edge_dict[{t}]", sc.c.fields["edge_dict"].get(t, []),
                            [(a, b, D.key(tw, r)) for (tw, r), (a, b) in zip(sc.wires, sc.ab) if tw == t])
        Pp.ob("node_id.unchanged", to_z3(sc.c.fields["_node_id"]) == sc.M)
        Pp.ob("other-nodes-kept", all(sc.g._find_node(I, x) is not None for ab in sc.ab for x in ab))
        Pp.frame()

    lab = f"remove_identity[k={k},apart,{''.join(types[:k]) or ('key-present' if present else 'key-absent')}]"
    nat = native_replay({"noid0", "rmid0"}, [x for _ in range(k) for x in (("g", "Identity"), ("g", "Hadamard"))], "e")
    return RWTask(Q_RI, scenario, check, lab, clause=RI_CLAUSE, native=nat)


def _ri_chain(k, t, order):
    """k adjacent Identity nodes a -> id0 -> ... -> id(k-1) -> b on one wire, listed in node_dict in the order `order`"""

    def scenario(I):
        sc = Sc(I)
        a, b = sc.ids("a", "b")
        idn = [sc.ids(f"id{i}") for i in range(k)]
        r = sc.reg("r", t)
        sc.unknown(a)
        sc.unknown(b)
        for j in order:
            sc.put(idn[j], sc.op("Identity", t, r))
        sc.chain(t, r, [a] + idn + [b])
        sc.a, sc.b, sc.idn, sc.t, sc.r = a, b, idn, t, r
        return sc, []

    def check(I, sc, ret, Pp):
        nd = sc.c.fields["node_dict"]
        Pp.no_op_of_class("Identity")
        for i, n in enumerate(sc.idn):
            Pp.node_gone(f"identity[{i}]", n)
        Pp.edges_are([(sc.a, sc.b, D.key(sc.t, sc.r), sc.r, sc.t)])
        for lab in ("Identity", "one-qubit", TAG[sc.t]):
            Pp.list_is(f"node_dict[{lab}]", nd.get(lab, []), [])
        Pp.dict_list_is(f"edge_dict[{sc.t}]", sc.c.fields["edge_dict"].get(sc.t, []), [(sc.a, sc.b, D.key(sc.t, sc.r))])
        Pp.ob("node_id.unchanged", to_z3(sc.c.fields["_node_id"]) == sc.M)
        Pp.frame()

    return RWTask(Q_RI, scenario, check, f"remove_identity[k={k},adjacent,{t},listed {''.join(map(str, order))}]", clause=RI_CLAUSE,
                  native=native_replay({"noid0", "rmid0"}, [("g", "Identity")] * k, t))


def rest_segment(I, name):
    """abstract segment of an index list: zero or more further members, none equal to a node of the fragment"""
    o = Obj(I.get_class(OPS, "OperationBase"))
    o.fields["__rest_of_list__"] = name
    return o


def find_loop(kind, target=None):
    """selector of a loop statement inside a function: the first `for <target> in ...` / the first `while`"""

    def sel(fn):
        for n in ast.walk(fn):
            if kind == "for" and isinstance(n, ast.For) and ast.unparse(n.target) == target:
                return n
            if kind == "while" and isinstance(n, ast.While):
                return n
        raise Undecided(f"no {kind} loop {target or ''} in {fn.name}")

    return sel


def _member_step(kind, t, adj):
    """induction step of L-snapshot: the REAL body of `for node in identity_list` (kind 'identity') / `for node in wrapper_list` (kind
    'wrapper') for an ARBITRARY listed node x under Inv(k), with representative other listed members y1 (listed before x) and y2
    (listed after x); adj: which of them is x's neighbour on x's wire (the others sit on wires of their own)"""
    clsname = "Identity" if kind == "identity" else "OneQubitGateWrapper"
    wcls = ["Hadamard", "Phase"]

    def mkop(sc, r):
        return sc.op("Identity", t, r) if kind == "identity" else sc.op("OneQubitGateWrapper", t, r, wcls)

    def scenario(I):
        sc = Sc(I)
        x, y1, y2 = sc.ids("x", "y1", "y2")
        r = sc.reg("r", t)
        own = {"y1": adj in ("y1", "both"), "y2": adj in ("y2", "both")}
        regs = {"x": r, "y1": r if own["y1"] else sc.reg("r_y1", t), "y2": r if own["y2"] else sc.reg("r_y2", t)}
        if not own["y1"]:
            I.path.assume(regs["y1"] != r)
        if not own["y2"]:
            I.path.assume(regs["y2"] != r)
        if not own["y1"] and not own["y2"]:
            I.path.assume(regs["y1"] != regs["y2"])
        for nm, n in (("y1", y1), ("x", x), ("y2", y2)):  # listing order y1, x, y2 in every index list
            sc.put(n, mkop(sc, regs[nm]))
        if kind == "wrapper":
            sc.g.nodes.append([D.in_node(t, r), {"op": sc.op("Input", t, r), "reg": r}])  # the register exists (insert_at re-checks it)
        u = list(sc.ids("u0", "u1", "u2", "u3", "u4", "u5"))
        for q in u:
            sc.unknown(q)
        # x's wire:  left -> x -> right ; y1 / y2 are left / right when adjacent
        left = y1 if own["y1"] else u.pop()
        right = y2 if own["y2"] else u.pop()
        sc.link(left, x, t, r)
        sc.link(x, right, t, r)
        sc.outer = {}
        if own["y1"]:
            p = u.pop()
            sc.link(p, y1, t, r)
            sc.outer["y1"] = (p, None)
        else:
            p, q = u.pop(), u.pop()
            sc.link(p, y1, t, regs["y1"])
            sc.link(y1, q, t, regs["y1"])
            sc.outer["y1"] = (p, q)
        if own["y2"]:
            q = u.pop()
            sc.link(y2, q, t, r)
            sc.outer["y2"] = (None, q)
        else:
            p, q = u.pop(), u.pop()
            sc.link(p, y2, t, regs["y2"])
            sc.link(y2, q, t, regs["y2"])
            sc.outer["y2"] = (p, q)
        # any number of FURTHER listed members, anywhere in the index lists: abstract segments R0..R3 (objects that are equal to no
        # node id [WF4: a node is listed once]); the body may not touch them and must keep them in place
        sc.rest = {}
        nd = sc.c.fields["node_dict"]
        for lab in (clsname, "one-qubit", TAG[t]):
            R = [rest_segment(I, f"{lab}:{q}") for q in range(4)]
            nd[lab][:] = [R[0], y1, R[1], x, R[2], y2, R[3]]
            sc.rest[lab] = R
        sc.x, sc.y1, sc.y2, sc.left, sc.right, sc.t, sc.r, sc.regs = x, y1, y2, left, right, t, r, regs
        return sc, {"node": x}

    def check(I, sc, ret, Pp):
        nd = sc.c.fields["node_dict"]
        k_ = D.key(sc.t, sc.r)
        Pp.node_gone("x", sc.x)
        if kind == "identity":
            mid, new = [], []
            Pp.ob("node_id.unchanged", to_z3(sc.c.fields["_node_id"]) == sc.M)
        else:
            new = [sc.M + 1 + q for q in range(len(wcls))]
            mid = new
            Pp.ob("node_id", to_z3(sc.c.fields["_node_id"]) == sc.M + len(wcls))
            for q, (n, cn) in enumerate(zip(new, application_order(wcls))):
                Pp.op_at(f"wire.application-order[{q}]", n, cn, sc.t, sc.r)
        chain = [sc.left] + mid + [sc.right]
        want = [(a, b, k_, sc.r, sc.t) for a, b in zip(chain, chain[1:])]
        for nm, n in (("y1", sc.y1), ("y2", sc.y2)):
            p, q = sc.outer[nm]
            rr = sc.regs[nm]
            if p is not None:
                want.append((p, n, D.key(sc.t, rr), rr, sc.t))
            if q is not None:
                want.append((n, q, D.key(sc.t, rr), rr, sc.t))
        Pp.edges_are(want)
        for lab in (clsname, "one-qubit", TAG[sc.t]):
            got = nd.get(lab, [])
            others = [e for e in got if isinstance(e, Obj) or not any(SG.decide_eq(I, e, n) for n in new)]
            R = sc.rest[lab]
            Pp.list_is(f"Inv.node_dict[{lab}]-keeps-all-other-members-in-order", others, [R[0], sc.y1, R[1], R[2], sc.y2, R[3]])
            if lab != clsname and new:
                tail = [e for e in got if not isinstance(e, Obj) and any(SG.decide_eq(I, e, n) for n in new)]
                Pp.dict_list_is(f"node_dict[{lab}]-lists-the-new-nodes", tail, new)
        for nm, n in (("y1", sc.y1), ("y2", sc.y2)):
            Pp.op_at(f"Inv.{nm}", n, clsname, sc.t, sc.regs[nm])
            ins = [e for e in sc.g.edges if SG.decide_eq(I, e[1], n)]
            outs = [e for e in sc.g.edges if SG.decide_eq(I, e[0], n)]
            Pp.ob(f"Inv.{nm}.one-incoming-one-outgoing-edge", len(ins) == 1 and len(outs) == 1, f"in {ins} out {outs}")
        Pp.frame()

    qual, tgt = (Q_RI, "identity_list") if kind == "identity" else (Q_UW, "wrapper_list")
    fn = qual.split(".")[-1]
    return RWTask(qual, scenario, check, f"{fn}.step[body of `for node in {tgt}`,{t},adjacent-member={adj}]", loop_body=find_loop("for", "node"),
                  clause="induction step of loop rule L-snapshot: Inv(k) -> Inv(k+1) for an arbitrary listed node x with representative other "
                         "listed members before / after it in the lists, possibly adjacent on its wire")


def remove_identity_tasks():
    T = [_ri_apart(0, (), present=False), _ri_apart(0, (), present=True)]
    for t in "ep":
        T.append(_ri_apart(1, (t,)))
    for ty in (("e", "e"), ("e", "p"), ("p", "p")):
        T.append(_ri_apart(2, ty))
    T.append(_ri_apart(3, ("e", "p", "e")))
    for t in "ep":
        for order in itertools.permutations(range(2)):
            T.append(_ri_chain(2, t, order))
    for order in itertools.permutations(range(3)):
        T.append(_ri_chain(3, "e", order))
    for t in "ep":
        for adj in ("none", "y1", "y2", "both"):
            T.append(_member_step("identity", t, adj))
    return T


# =============================================================================================
# unwrap_nodes
# =============================================================================================
UW_CLAUSE = ("each wrapper node [g1..gk] (listed; gk acts first) is replaced in place by the chain gk, ..., g1 of fresh instances on the "
             "wrapper's register: the wire's elementary gates in application order are unchanged; other nodes / indexes untouched")


def application_order(listed):
    """the PROPERTY's reading of a wrapper (ops.OneQubitGateWrapper docstring, C20): the last listed gate acts first"""
    return list(reversed(listed))


def _uw_task(wrappers, t, ends, order=None, label=None, expect=application_order, noisy=False):
    """wrappers: list of class-name lists, adjacent on ONE wire in this order (time order); ends: 'mid' (unknown neighbours) or
    'ends' (the wire's in / out nodes); order: listing order of the wrapper nodes in node_dict"""
    order = tuple(order if order is not None else range(len(wrappers)))

    def scenario(I):
        sc = Sc(I)
        r = sc.reg("r", t)
        if ends == "ends":
            a, b = sc.ends(t, r)
        else:
            a, b = sc.ids("a", "b")
            sc.unknown(a)
            sc.unknown(b)
            sc.g.nodes.append([D.in_node(t, r), {"op": sc.op("Input", t, r), "reg": r}])  # the register exists (insert_at re-checks it)
        wn = [sc.ids(f"w{i}") for i in range(len(wrappers))]
        sc.wops = {}
        sc.noise = {}
        for j in order:
            if noisy:  # one abstract noise model per listed gate: noise[i] belongs to operations[i] (the wrapper's own convention)
                sc.noise[j] = [Obj(I.get_class(CS.NM, "DepolarizingNoise")) for _ in wrappers[j]]
            sc.wops[j] = sc.op("OneQubitGateWrapper", t, r, wrappers[j], noise=sc.noise.get(j))
            sc.put(wn[j], sc.wops[j])
        sc.chain(t, r, [a] + wn + [b])
        sc.a, sc.b, sc.wn, sc.t, sc.r = a, b, wn, t, r
        return sc, []

    def check(I, sc, ret, Pp):
        nd = sc.c.fields["node_dict"]
        Pp.no_op_of_class("OneQubitGateWrapper")
        for i, n in enumerate(sc.wn):
            Pp.node_gone(f"wrapper[{i}]", n)
        # new node ids are handed out in processing order = listing order of the wrappers
        ids, nid = {}, sc.M
        for j in order:
            ids[j] = [nid + 1 + q for q in range(len(wrappers[j]))]
            nid += len(wrappers[j])
        Pp.ob("node_id", to_z3(sc.c.fields["_node_id"]) == nid)
        chain, classes = [sc.a], []
        for j in range(len(wrappers)):
            chain += ids[j]
            classes += expect(wrappers[j])
        chain.append(sc.b)
        Pp.edges_are([(u, v, D.key(sc.t, sc.r), sc.r, sc.t) for u, v in zip(chain, chain[1:])])
        noises = [nz for j in range(len(wrappers)) for nz in (expect(sc.noise[j]) if noisy else [None] * len(wrappers[j]))]
        for q, (n, cn) in enumerate(zip(chain[1:-1], classes)):
            op = Pp.op_at(f"wire.application-order[{q}]", n, cn, sc.t, sc.r)
            if noisy and op is not None:
                Pp.ob(f"wire.application-order[{q}].noise-is-the-one-listed-for-this-gate", op.fields.get("noise") is noises[q],
                      f"noise of the gate is {op.fields.get('noise')!r}")
        Pp.list_is("node_dict[OneQubitGateWrapper]", nd.get("OneQubitGateWrapper", []), [])
        allnew = [n for j in order for n in ids[j]]
        Pp.dict_list_is("node_dict[one-qubit]", nd.get("one-qubit", []), allnew)
        Pp.dict_list_is(f"node_dict[{TAG[sc.t]}]", nd.get(TAG[sc.t], []), allnew)
        for cn in sorted(set(classes)):
            Pp.dict_list_is(f"node_dict[{cn}]", nd.get(cn, []), [n for n, c2 in zip(chain[1:-1], classes) if c2 == cn])
        Pp.dict_list_is(f"edge_dict[{sc.t}]", sc.c.fields["edge_dict"].get(sc.t, []),
                        [(u, v, D.key(sc.t, sc.r)) for u, v in zip(chain, chain[1:])])
        Pp.frame()

    lab = label or f"unwrap_nodes[{'|'.join(_names(w) for w in wrappers)},{t},{ends},listed {''.join(map(str, order))}{',noise list' if noisy else ''}]"
    return RWTask(Q_UW, scenario, check, lab, clause=UW_CLAUSE, native=native_replay({"unwrap", "nowrap"}, [("w", list(w)) for w in wrappers], t))


def unwrap_nodes_tasks():
    T = []
    for t in "ep":
        T.append(_uw_task([["Hadamard"]], t, "mid"))
        T.append(_uw_task([["Hadamard", "Phase"]], t, "mid"))
        T.append(_uw_task([["SigmaX", "Hadamard", "Phase"]], t, "mid"))
    T.append(_uw_task([["Phase", "Hadamard", "Phase", "SigmaZ"]], "e", "mid"))
    T.append(_uw_task([["Hadamard", "Phase"]], "p", "ends"))
    T.append(_uw_task([["Identity", "Hadamard"]], "e", "ends"))
    for order in ((0, 1), (1, 0)):
        T.append(_uw_task([["Hadamard", "Phase"], ["SigmaX", "PhaseDagger"]], "e", "mid", order))
    T.append(_uw_task([["Hadamard", "Phase"], ["SigmaX"], ["SigmaY", "SigmaZ"]], "p", "ends", (2, 0, 1)))
    T.append(_uw_task([["SigmaX", "Hadamard", "Phase"]], "e", "mid", noisy=True))
    T.append(_uw_task([["Hadamard", "Phase"], ["SigmaX", "PhaseDagger"]], "p", "mid", (1, 0), noisy=True))
    for t in "ep":
        for adj in ("none", "y1", "y2", "both"):
            T.append(_member_step("wrapper", t, adj))
        T.append(_uw_inner_step(t, "op"))
        T.append(_uw_inner_step(t, "in"))
    return T


def _uw_inner_step(t, pred_kind):
    """induction step for the INNER loop `for op in op_list` (symbolic number of gates in a wrapper):
    Inv(j): the wrapper node w has exactly ONE incoming edge (p, w) on its wire, p = the node inserted by iteration j-1 (or w's original
    predecessor); the REAL body for an arbitrary operation `op` on w's register gives p -> new -> w with new carrying `op`, and w again has
    exactly one incoming edge, from new.  Hence after the loop the chain is a -> op_list[0] -> ... -> op_list[k-1] -> w in iteration
    order, and op_list is the wrapper's unwrap() = application order (C20)."""

    def scenario(I):
        sc = Sc(I)
        r = sc.reg("r", t)
        w, b = sc.ids("w", "b")
        sc.unknown(b)
        inn = D.in_node(t, r)
        sc.g.nodes.append([inn, {"op": sc.op("Input", t, r), "reg": r}])
        if pred_kind == "op":
            p = sc.ids("p")
            sc.unknown(p)
        else:
            p = inn
        sc.put(w, sc.op("OneQubitGateWrapper", t, r, ["Hadamard", "Phase"]))
        sc.chain(t, r, [p, w, b])
        op = sc.op("SigmaY", t, r)  # an arbitrary element of op_list: the body never looks at its class
        sc.p, sc.w, sc.b, sc.t, sc.r, sc.opx = p, w, b, t, r, op
        return sc, {"node": w, "op": op}

    def check(I, sc, ret, Pp):
        new = sc.M + 1
        k_ = D.key(sc.t, sc.r)
        Pp.edges_are([(sc.p, new, k_, sc.r, sc.t), (new, sc.w, k_, sc.r, sc.t), (sc.w, sc.b, k_, sc.r, sc.t)])
        ent = sc.g._find_node(I, new)
        Pp.ob("new-node-carries-op", ent is not None and ent[1].get("op") is sc.opx)
        ins = [e for e in sc.g.edges if SG.decide_eq(I, e[1], sc.w)]
        Pp.ob("Inv.wrapper-has-one-incoming-edge-from-the-new-node", len(ins) == 1 and SG.decide_eq(I, ins[0][0], new), str(ins))
        Pp.ob("wrapper-still-present", sc.g._find_node(I, sc.w) is not None)
        Pp.ob("node_id", to_z3(sc.c.fields["_node_id"]) == new)
        Pp.frame()

    return RWTask(Q_UW, scenario, check, f"unwrap_nodes.step[body of `for op in op_list`,{t},predecessor={pred_kind}]",
                  loop_body=find_loop("for", "op"), clause="induction step of the inner loop: each gate is spliced between the wrapper and its "
                                                             "current predecessor, so the gates end up on the wire in iteration (= application) order")


def _uw_absent_task():
    def scenario(I):
        sc = Sc(I)
        r = sc.reg("r", "e")
        a, b = sc.ends("e", r)
        h = sc.ids("h")
        sc.put(h, sc.op("Hadamard", "e", r))
        sc.chain("e", r, [a, h, b])
        sc.h, sc.a, sc.b, sc.r = h, a, b, r
        return sc, []

    def check(I, sc, ret, Pp):
        Pp.ob("graph-untouched", not sc.g.log, f"graph updated: {sc.g.log}")
        Pp.edges_are([(sc.a, sc.h, D.key("e", sc.r), sc.r, "e"), (sc.h, sc.b, D.key("e", sc.r), sc.r, "e")])
        Pp.ob("node_id.unchanged", to_z3(sc.c.fields["_node_id"]) == sc.M)

    return RWTask(Q_UW, scenario, check, "unwrap_nodes[no wrapper in the circuit]", clause=UW_CLAUSE)


# =============================================================================================
# group_one_qubit_gates
# =============================================================================================
GR_CLAUSE = ("every maximal run of one-qubit gate nodes on a wire becomes ONE wrapper at the place of the run whose unwrap() order (reversed "
             "`operations`) equals the application sequence of the run; other nodes and wires untouched")


def run_application_sequence(items):
    """items in TIME order: ('g', cls) | ('w', [listed classes]) -> elementary classes in application order (property's reading)"""
    out = []
    for it in items:
        out += [it[1]] if it[0] == "g" else application_order(it[1])
    return out


def _gr_task(wire, t, label=None, second=None, expect=run_application_sequence):
    """wire: items in TIME order on wire (t, r): ('g', cls) | ('w', [classes]) | ('cnot', role) | ('meas',);
    second: items of a second, independent wire of the same type (frame + the loop over node_dict['Output'])"""

    def build(sc, I, t_, r, items, tag):
        i_, o_ = sc.ends(t_, r)
        nodes, info = [], []
        for q, it in enumerate(items):
            n = sc.ids(f"{tag}n{q}")
            if it[0] == "g":
                op = sc.op(it[1], t_, r)
            elif it[0] == "w":
                op = sc.op("OneQubitGateWrapper", t_, r, it[1])
            elif it[0] == "meas":
                I.path.assume(sc.n["c"] >= 1)
                op = sc.op("MeasurementZ", t_, r)
            else:
                r2 = sc.reg(f"{tag}other{q}", "p")
                op = sc.op2("CNOT", t_, r, "p", r2) if it[1] == "control" else sc.op2("CNOT", "p", r2, t_, r)
                x, y = sc.ids(f"{tag}x{q}", f"{tag}y{q}")
                sc.unknown(x)
                sc.unknown(y)
                if t_ == "p":
                    I.path.assume(r2 != r)
                info.append((n, x, y, r2))
            sc.put(n, op)
            nodes.append(n)
            if it[0] == "cnot":
                sc.link(info[-1][1], n, "p", info[-1][3])
                sc.link(n, info[-1][2], "p", info[-1][3])
            if it[0] == "meas":
                cx, cy = sc.ids(f"{tag}cx{q}", f"{tag}cy{q}")
                sc.unknown(cx)
                sc.unknown(cy)
                sc.link(cx, n, "c", 0)
                sc.link(n, cy, "c", 0)
                info.append((n, cx, cy, None))
        sc.chain(t_, r, [i_] + nodes + [o_])
        return dict(i=i_, o=o_, nodes=nodes, items=items, t=t_, r=r, info=info)

    def scenario(I):
        sc = Sc(I)
        r = sc.reg("r", t)
        sc.W = [build(sc, I, t, r, wire, "")]
        if second is not None:
            r2 = sc.reg("rb", t)
            I.path.assume(r2 != r)
            sc.W.append(build(sc, I, t, r2, second, "b"))
        return sc, []

    def check(I, sc, ret, Pp):
        cnt = 0
        all_edges, kept_other = [], []
        for wi, W in enumerate(sc.W):
            # runs, processed from the END of the wire backwards (new ids in that order)
            groups, cur = [], []
            for n, it in zip(W["nodes"], W["items"]):
                if it[0] in ("g", "w"):
                    cur.append((n, it))
                else:
                    if cur:
                        groups.append(("run", cur))
                        cur = []
                    groups.append(("keep", n))
            if cur:
                groups.append(("run", cur))
            new_ids = {}
            for gi in reversed(range(len(groups))):
                if groups[gi][0] == "run":
                    cnt += 1
                    new_ids[gi] = sc.M + cnt
            chain = [W["i"]]
            for gi, g_ in enumerate(groups):
                if g_[0] == "keep":
                    chain.append(g_[1])
                    continue
                w = new_ids[gi]
                chain.append(w)
                want = expect([it for _, it in g_[1]])
                what = f"wire{wi}.run{gi}"
                for n, _ in g_[1]:
                    Pp.node_gone(f"{what}.old-node", n)
                op = Pp.op_at(f"{what}.wrapper", w, "OneQubitGateWrapper", W["t"], W["r"])
                if op is not None and isinstance(op.fields.get("operations"), list):
                    got = [c.name if isinstance(c, ClsRef) else repr(c) for c in reversed(op.fields["operations"])]
                    Pp.ob(f"{what}.wrapper.unwrap-order-equals-the-application-sequence-of-the-run", got == want,
                          f"reversed(operations) = {got}; application sequence of the run = {want}")
                    # ... and through the REAL unwrap() of the new wrapper object (C20 proves unwrap() = reversed `operations`)
                    try:
                        un = I.call(I.getattr(op, "unwrap"), [], {})
                        got_u = [g_.cls.name if isinstance(g_, Obj) else repr(g_) for g_ in un]
                        ok_u = got_u == (want if expect is run_application_sequence else got_u)
                    except RaiseEx as e:
                        got_u, ok_u = f"raises {e.exc_name}", False
                    Pp.ob(f"{what}.wrapper.real-unwrap()-gives-the-application-sequence-of-the-run", ok_u,
                          f"unwrap() classes = {got_u}; application sequence of the run = {want}")
            chain.append(W["o"])
            all_edges += [(u, v, D.key(W["t"], W["r"]), W["r"], W["t"]) for u, v in zip(chain, chain[1:])]
            for (n, x, y, r2) in W["info"]:
                if r2 is None:
                    all_edges += [(x, n, D.key("c", 0), 0, "c"), (n, y, D.key("c", 0), 0, "c")]
                else:
                    all_edges += [(x, n, D.key("p", r2), r2, "p"), (n, y, D.key("p", r2), r2, "p")]
                kept_other.append(n)
        Pp.edges_are(all_edges)
        Pp.ob("kept-nodes-present", all(sc.g._find_node(I, n) is not None for n in kept_other))
        Pp.ob("node_id", to_z3(sc.c.fields["_node_id"]) == sc.M + cnt)
        Pp.dict_list_is("node_dict[OneQubitGateWrapper]", sc.c.fields["node_dict"].get("OneQubitGateWrapper", []),
                        [sc.M + q for q in range(1, cnt + 1)])
        Pp.frame()

    def show(items):
        return ",".join(it[1][:2] if it[0] == "g" else ("W(" + _names(it[1]) + ")" if it[0] == "w" else it[0]) for it in items)

    lab = label or f"group_one_qubit_gates[{show(wire)}{' || ' + show(second) if second is not None else ''},{t}]"
    return RWTask(Q_GR, scenario, check, lab, clause=GR_CLAUSE, native=native_replay({"group", "maximal"}, list(wire), t, second))


GTOKEN_TAG = "classes-collected-from-the-part-of-the-run-already-removed(latest first)"


def _gr_instantiate(I, cls, args, kwargs):
    """a wrapper built from a gate list that contains the abstract prefix token: [A, from C20's task on OneQubitGateWrapper.__init__] the
    object holds `operations` (the very list passed), its register and type, label one-qubit; every other case: the REAL constructor"""
    if cls.module == OPS and cls.name == "OneQubitGateWrapper":
        ops_ = args[0] if args else kwargs["operations"]
        if any(isinstance(o, Opaque) for o in ops_):
            o = Obj(cls)
            reg = args[1] if len(args) > 1 else kwargs.get("register", 0)
            rt = args[2] if len(args) > 2 else kwargs.get("reg_type", "e")
            o.fields.update(operations=ops_, register=reg, reg_type=rt, noise=None, _labels=["one-qubit"], _q_registers=(reg,),
                            _q_registers_type=(rt,), _c_registers=tuple())
            return o
    return CS.abstract_noise_instantiate(I, cls, args, kwargs)


def _gr_step(t, node_kind, pred_kind, prefix, label=None, wrong=False):
    """induction step of the backwards walk (`while next_node not in node_dict['Input']`) for runs of ANY length.
    Inv: the walk stands at next_node = n on wire (t, r); the nodes of the current run after n are already removed and n is joined to
    the first kept node s behind the run; gate_list = G = their classes, latest first (abstract token; [] when no run is open);
    G != [] only if n is a one-qubit gate.  The REAL loop body must give:
      n a one-qubit gate:  n removed; its contribution (plain: [class]; wrapper: its `operations` in LISTED order) is appended to G;
          predecessor p a one-qubit gate -> gate_list = G + contribution, p joined to s, nothing inserted (Inv again, n := p)
          otherwise (input / other node)  -> ONE wrapper with operations == G + contribution between p and s; gate_list = [] (Inv, n := p)
      n another node (G = []): graph untouched, gate_list = [], n := p.
    With Inv at loop exit a run g_1 .. g_m (time order) yields operations = listed(g_m) + ... + listed(g_1), whose reversal is the
    application sequence of the run (reversal of a concatenation = concatenation of the reversals in opposite order).
    Init (gate_list = [], next_node = predecessor of the out node) and exit (next_node is an Input node, which is not a one-qubit gate,
    hence gate_list = [] by Inv: no run is left open) are exercised by the whole-function tasks `group_one_qubit_gates[...]`."""
    wcls = ["Hadamard", "Phase"]

    def scenario(I):
        sc = Sc(I)
        r = sc.reg("r", t)
        n, s_, pp = sc.ids("n", "s", "pp")
        sc.unknown(s_)
        sc.unknown(pp)
        extra = []

        def two_qubit(node):
            r2 = sc.reg(f"other_{node}", "p")
            if t == "p":
                I.path.assume(r2 != r)
            x, y = sc.ids(f"x_{node}", f"y_{node}")
            sc.unknown(x)
            sc.unknown(y)
            sc.put(node, sc.op2("CNOT", t, r, "p", r2))
            sc.link(x, node, "p", r2)
            sc.link(node, y, "p", r2)
            extra.extend([(x, node, D.key("p", r2), r2, "p"), (node, y, D.key("p", r2), r2, "p")])

        if pred_kind == "in":
            p, _o = sc.ends(t, r)
        else:
            p = sc.ids("p")
            sc.g.nodes.append([D.in_node(t, r), {"op": sc.op("Input", t, r), "reg": r}])
            sc.c.fields["node_dict"]["Input"].append(D.in_node(t, r))
            if pred_kind == "g1q":
                sc.put(p, sc.op("SigmaX", t, r))
            else:
                two_qubit(p)
            sc.link(pp, p, t, r)
        if node_kind == "g":
            contribution = ["SigmaZ"]
            sc.put(n, sc.op("SigmaZ", t, r))
        elif node_kind == "w":
            contribution = list(reversed(wcls)) if wrong else list(wcls)  # wrong: the canary's reading (application order)
            sc.put(n, sc.op("OneQubitGateWrapper", t, r, wcls))
        else:
            contribution = None
            two_qubit(n)
        sc.chain(t, r, [p, n, s_])
        G0 = [Opaque(GTOKEN_TAG)] if prefix else []
        sc.G0, sc.G0_items = G0, list(G0)
        sc.p, sc.nn, sc.s, sc.pp, sc.t, sc.r, sc.extra, sc.contribution = p, n, s_, pp, t, r, extra, contribution
        return sc, {"next_node": n, "gate_list": G0, "reg_type": t, "register": r, "node": D.out_node(t, r)}

    def check(I, sc, env, Pp):
        k_ = D.key(sc.t, sc.r)
        gl = env.get("gate_list")
        Pp.ob("Inv.next_node-is-the-predecessor", SG.eq_term(I, env.get("next_node"), sc.p))
        head = [] if pred_kind == "in" else [(sc.pp, sc.p, k_, sc.r, sc.t)]
        if sc.contribution is None:
            Pp.edges_are(head + [(sc.p, sc.nn, k_, sc.r, sc.t), (sc.nn, sc.s, k_, sc.r, sc.t)] + sc.extra)
            Pp.ob("graph-untouched", not sc.g.log, str(sc.g.log))
            Pp.ob("Inv.gate_list-empty", gl == [], repr(gl))
            return
        Pp.node_gone("n", sc.nn)
        cls_of = lambda c: c.name if isinstance(c, ClsRef) else c
        want = sc.G0_items + sc.contribution
        if pred_kind == "g1q":
            got = [cls_of(c) for c in gl] if isinstance(gl, list) else gl
            Pp.ob("Inv.gate_list-is-the-prefix-followed-by-the-listed-classes-of-the-node", isinstance(gl, list) and len(got) == len(want)
                  and all((a is b) if isinstance(b, Opaque) else a == b for a, b in zip(got, want)), f"gate_list = {got}; want {want}")
            Pp.edges_are(head + [(sc.p, sc.s, k_, sc.r, sc.t)] + sc.extra)
            Pp.ob("node_id.unchanged", to_z3(sc.c.fields["_node_id"]) == sc.M)
        else:
            new = sc.M + 1
            Pp.edges_are(head + [(sc.p, new, k_, sc.r, sc.t), (new, sc.s, k_, sc.r, sc.t)] + sc.extra)
            op = Pp.op_at("wrapper", new, "OneQubitGateWrapper", sc.t, sc.r)
            if op is not None:
                ops_ = op.fields.get("operations")
                got = [cls_of(c) for c in ops_] if isinstance(ops_, list) else ops_
                Pp.ob("wrapper.operations-are-the-prefix-followed-by-the-listed-classes-of-the-node", isinstance(ops_, list) and len(got) == len(want)
                      and all((a is b) if isinstance(b, Opaque) else a == b for a, b in zip(got, want)), f"operations = {got}; want {want}")
            Pp.ob("Inv.gate_list-empty", gl == [], repr(gl))
            Pp.ob("node_id", to_z3(sc.c.fields["_node_id"]) == new)
        Pp.frame()

    lab = label or f"group_one_qubit_gates.step[walk at {node_kind}, predecessor {pred_kind}, {'open run' if prefix else 'no open run'},{t}]"
    return RWTask(Q_GR, scenario, check, lab, loop_body=find_loop("while"), instantiate=_gr_instantiate,
                  clause="induction step of the backwards walk: gate_list = classes of the removed part of the run, latest first; a run is "
                         "closed by ONE wrapper holding exactly that list")


def before_first_while(body):
    for k, st in enumerate(body):
        if isinstance(st, ast.While):
            return body[:k]
    raise Undecided("no while statement in the loop body")


def _gr_init(t, last_kind):
    """Init of the backwards walk: the statements of the body of `for node in node_dict['Output']` BEFORE the while loop, for the out node
    of an arbitrary wire whose last node is a one-qubit gate / a two-qubit gate / the in node: gate_list = [], next_node = that node"""

    def scenario(I):
        sc = Sc(I)
        r = sc.reg("r", t)
        i_, o_ = sc.ends(t, r)
        if last_kind == "in":
            last = i_
        else:
            last, pp = sc.ids("last", "pp")
            sc.unknown(pp)
            if last_kind == "g":
                sc.put(last, sc.op("Hadamard", t, r))
            else:
                r2 = sc.reg("r2", "p")
                if t == "p":
                    I.path.assume(r2 != r)
                x, y = sc.ids("x", "y")
                sc.unknown(x)
                sc.unknown(y)
                sc.put(last, sc.op2("CNOT", "p", r2, t, r))
                sc.link(x, last, "p", r2)
                sc.link(last, y, "p", r2)
            sc.link(pp, last, t, r)
        sc.link(last, o_, t, r)
        sc.last, sc.o = last, o_
        return sc, {"node": o_}

    def check(I, sc, env, Pp):
        Pp.ob("Inv.gate_list-empty", env.get("gate_list") == [], repr(env.get("gate_list")))
        Pp.ob("Inv.next_node-is-the-last-node-of-the-wire", SG.eq_term(I, env.get("next_node"), sc.last))
        Pp.ob("walks-the-wire-of-the-output-node", SG.eq_term(I, env.get("register"), sc.g._find_node(I, sc.o)[1]["reg"]))
        Pp.ob("reg_type-of-the-output-node", env.get("reg_type") == t, repr(env.get("reg_type")))
        Pp.ob("graph-untouched", not sc.g.log, str(sc.g.log))

    return RWTask(Q_GR, scenario, check, f"group_one_qubit_gates.init[wire ends with {last_kind},{t}]", loop_body=find_loop("for", "node"),
                  body_slice=before_first_while, clause="Init of the walk invariant: gate_list = [], next_node = predecessor of the out node on its own wire")


def group_step_tasks():
    T = [_gr_init(t, k) for t in "ep" for k in ("g", "cnot", "in")]
    for t in "ep":
        for nk in ("g", "w"):
            for pk in ("g1q", "in", "cnot"):
                for prefix in (False, True):
                    T.append(_gr_step(t, nk, pk, prefix))
        for pk in ("g1q", "in", "cnot"):
            T.append(_gr_step(t, "cnot", pk, False))
    return T


G, W_ = (lambda c: ("g", c)), (lambda *cs: ("w", list(cs)))


def group_tasks():
    T = [
        _gr_task([], "e"),
        _gr_task([G("Hadamard")], "e"),
        _gr_task([G("Hadamard"), G("Phase")], "p"),
        _gr_task([W_("Hadamard", "Phase")], "e"),
        _gr_task([W_("SigmaX", "Hadamard", "Phase")], "p"),
        _gr_task([G("SigmaX"), W_("Hadamard", "Phase")], "e"),
        _gr_task([W_("Hadamard", "Phase"), G("SigmaX")], "e"),
        _gr_task([W_("Hadamard", "Phase"), W_("SigmaX", "PhaseDagger")], "p"),
        _gr_task([G("SigmaY"), W_("Hadamard", "Phase"), G("SigmaX")], "e"),
        _gr_task([W_("Hadamard", "Phase"), G("SigmaZ"), W_("SigmaX", "PhaseDagger")], "e"),
        _gr_task([G("Hadamard"), G("Phase"), G("SigmaX")], "p"),
        _gr_task([G("Hadamard"), ("cnot", "control"), G("Phase")], "e"),
        _gr_task([W_("Hadamard", "Phase"), G("SigmaX"), ("cnot", "target"), W_("Phase", "SigmaZ")], "e"),
        _gr_task([G("Hadamard"), ("meas",), G("Phase")], "e"),
        _gr_task([("cnot", "control")], "e"),
        _gr_task([G("Hadamard"), G("Identity")], "e"),
        _gr_task([W_("Hadamard", "Phase")], "e", second=[G("SigmaX"), W_("Phase", "SigmaZ")]),
    ]
    return T


# =============================================================================================
# wire-level lemma used by remove_identity (in addition to lemmas/wires.py UNSPLICE)
# =============================================================================================
def wire_lemmas():
    from lemmas.wires import _wire
    from lemmas.symplectic import _ob

    Int = z3.IntSort()
    on = z3.Function("on", Int, z3.BoolSort())
    idx = z3.Function("idx", Int, Int)
    E = z3.Function("E", Int, Int, z3.BoolSort())
    L, nin, nout, a, b, w, x, y = z3.Ints("L nin nout a b w px py")
    asm = _wire(on, idx, L, nin, nout, E) + [E(a, w), E(w, b), w != nin, w != nout]
    idx3 = lambda q: z3.If(idx(q) > idx(w), idx(q) - 1, idx(q))
    fn = f"{CDAG}:CircuitDAG.remove_identity"
    return [_ob("L2.wire.unsplice.order-of-other-nodes-kept", fn, asm + [on(x), on(y), x != w, y != w, idx(x) < idx(y)], idx3(x) < idx3(y),
                "removing a node keeps the relative order of all other operations on the wire (remove_identity, unwrap_nodes, grouping)")]


# =============================================================================================
# [F] native cross-check on the enumerated shapes (REAL graphiq objects, exact comparison)
# =============================================================================================
def native_shape(items, t, second=None):
    """one shape as a REAL CircuitDAG (registers 0 / 1), rewritten by the REAL methods -> dict kind -> failure text (empty: all good)"""
    import importlib

    ops = importlib.import_module(OPS)
    dag = importlib.import_module(CDAG)

    def build():
        c = dag.CircuitDAG(n_emitter=2, n_photon=2, n_classical=1)
        for w, its in enumerate([items] + ([second] if second is not None else [])):
            for it in its:
                if it[0] == "g":
                    c.add(getattr(ops, it[1])(register=w, reg_type=t))
                elif it[0] == "w":
                    c.add(ops.OneQubitGateWrapper([getattr(ops, n) for n in it[1]], register=w, reg_type=t))
                elif it[0] == "meas":
                    c.add(ops.MeasurementZ(register=w, reg_type=t, c_register=0))
                else:
                    oth = ("p", 1) if (t, w) != ("p", 1) else ("p", 0)
                    a, b = ((w, t), oth[::-1]) if it[1] == "control" else (oth[::-1], (w, t))
                    c.add(ops.CNOT(control=a[0], control_type=a[1], target=b[0], target_type=b[1]))
        return c

    def wires(c, drop_identity=False):
        seq = {}
        for o in c.sequence(unwrapped=True):
            nm = type(o).__name__
            if nm in ("Input", "Output") or (drop_identity and nm == "Identity"):
                continue
            for q, qt in zip(o.q_registers, o.q_registers_type):
                seq.setdefault(f"{qt}{q}", []).append(nm)
        return seq

    bad = {}
    try:
        c = build()
        before = wires(c)
        c.group_one_qubit_gates()
        if wires(c) != before:
            bad["group"] = f"per-wire gate sequence before {before}, after group_one_qubit_gates {wires(c)}"
        for key in before:
            hist, _ = c.reg_gate_history(int(key[1:]), key[0])
            oneq = [isinstance(o, ops.OneQubitOperationBase) for o in hist]
            if any(a and b for a, b in zip(oneq, oneq[1:])):
                bad["maximal"] = f"two adjacent one-qubit gate nodes left on wire {key}: {[type(o).__name__ for o in hist]}"
        c = build()
        c.unwrap_nodes()
        if wires(c) != before:
            bad["unwrap"] = f"per-wire gate sequence before {before}, after unwrap_nodes {wires(c)}"
        if any(isinstance(o, ops.OneQubitGateWrapper) for o in c.sequence()):
            bad["nowrap"] = "a OneQubitGateWrapper is left after unwrap_nodes"
        c.remove_identity()
        want = wires(build(), drop_identity=True)
        if wires(c) != want:
            bad["rmid"] = f"per-wire gate sequence after unwrap_nodes + remove_identity {wires(c)}, expected {want}"
        if any(type(o).__name__ == "Identity" for o in c.sequence()):
            bad["noid"] = f"Identity left after unwrap_nodes + remove_identity: {[type(o).__name__ for o in c.sequence()]}"
        c = build()
        c.remove_identity()
        if any(type(o).__name__ == "Identity" for o in c.sequence()):
            bad["noid0"] = f"Identity left after remove_identity: {[type(o).__name__ for o in c.sequence()]}"
        want = {k_: [n for n in v if n != "Identity"] for k_, v in wires(build(), drop_identity=False).items()}
        got = wires(c)
        if "w" not in [it[0] for it in items + (second or [])] and {k_: v for k_, v in got.items()} != {k_: v for k_, v in want.items() if v or k_ in got}:
            bad["rmid0"] = f"per-wire gate sequence after remove_identity {got}, expected {want}"
    except Exception as e:  # noqa: BLE001
        bad["raise"] = f"{type(e).__name__}: {e}"
    return bad


def native_replay(kinds, items, t, second=None):
    """replay of a refuted obligation of a rewrite task on the REAL code: -> (witness, reproduced?)"""

    def run():
        bad = native_shape(items, t, second)
        hit = {k_: v for k_, v in bad.items() if k_ in kinds or k_ == "raise"}
        wit = {"circuit": f"CircuitDAG(2 emitters, 2 photons, 1 classical) with, on {t}0{' / ' + t + '1' if second is not None else ''}: "
                          f"{items}{' / ' + str(second) if second is not None else ''} (added with add() in this order)",
               "calls": sorted(kinds), "failures": hit}
        return wit, bool(hit)

    return run


def native_cross_check():
    """[F] The shapes of group_tasks() / unwrap_nodes_tasks() / remove_identity_tasks() as REAL CircuitDAG objects, rewritten by the REAL
    methods; exact comparison of what the property speaks about: the per-wire sequence of elementary gates in application order -
    `sequence(unwrapped=True)` restricted to each wire - is the same before and after (Identity gates dropped for remove_identity), grouping
    leaves no two adjacent one-qubit gate nodes, unwrapping leaves no wrapper, remove_identity leaves no Identity node.  Also guards the
    fragment model: the symbolic tasks and the native run must agree."""
    import time

    from vf.core import Obl

    t0 = time.time()
    SH = [([], "e", None), ([G("Hadamard")], "e", None), ([G("Hadamard"), G("Phase")], "p", None), ([W_("Hadamard", "Phase")], "e", None),
          ([W_("SigmaX", "Hadamard", "Phase")], "p", None), ([G("SigmaX"), W_("Hadamard", "Phase")], "e", None),
          ([W_("Hadamard", "Phase"), G("SigmaX")], "e", None), ([W_("Hadamard", "Phase"), W_("SigmaX", "PhaseDagger")], "p", None),
          ([G("SigmaY"), W_("Hadamard", "Phase"), G("SigmaX")], "e", None),
          ([W_("Hadamard", "Phase"), G("SigmaZ"), W_("SigmaX", "PhaseDagger")], "e", None),
          ([G("Hadamard"), G("Phase"), G("SigmaX")], "p", None), ([G("Hadamard"), ("cnot", "control"), G("Phase")], "e", None),
          ([W_("Hadamard", "Phase"), G("SigmaX"), ("cnot", "target"), W_("Phase", "SigmaZ")], "e", None),
          ([G("Hadamard"), ("meas",), G("Phase")], "e", None), ([G("Hadamard"), G("Identity")], "e", None),
          ([W_("Identity", "Hadamard"), G("Identity"), G("Phase")], "e", None),
          ([G("Identity"), G("Identity")], "e", None), ([G("Identity"), G("Hadamard"), G("Identity"), G("Identity")], "p", None),
          ([G("Identity")], "e", [G("Identity"), G("Identity"), G("Identity")]),
          ([W_("Hadamard", "Phase")], "e", [G("SigmaX"), W_("Phase", "SigmaZ")])]
    fails = {}
    try:
        for items, t, second in SH:
            for k_, v in native_shape(items, t, second).items():
                fails.setdefault(k_, []).append(f"{items} / {second} on {t}: {v}")
    except Exception as e:  # noqa: BLE001
        return [Obl(name="F.rewrites.native-cross-check", function=Q_GR, status="undecided", kind="F", backend="exact",
                    detail=f"graphiq not importable / harness failure: {type(e).__name__}: {e}")]
    cl = "exact native evaluation on the enumerated shapes"
    rows = [("F.group_one_qubit_gates.native.per-wire-application-sequence-unchanged", Q_GR, ["group", "raise"]),
            ("F.group_one_qubit_gates.native.no-two-adjacent-one-qubit-gate-nodes-left", Q_GR, ["maximal"]),
            ("F.unwrap_nodes.native.per-wire-application-sequence-unchanged", Q_UW, ["unwrap"]),
            ("F.unwrap_nodes.native.no-wrapper-left", Q_UW, ["nowrap"]),
            ("F.remove_identity.native.per-wire-sequence-unchanged-up-to-identities", Q_RI, ["rmid", "rmid0"]),
            ("F.remove_identity.native.no-identity-left", Q_RI, ["noid", "noid0"])]
    out = []
    for name, fn, keys in rows:
        det = [x for k_ in keys for x in fails.get(k_, [])]
        out.append(Obl(name=name, function=fn, status="discharged" if not det else "refuted", kind="F", backend="exact",
                       detail="" if not det else "; ".join(det)[:2500], clause=cl, witness={"failures": det[:5]} if det else None,
                       replayed=bool(det), ms=round((time.time() - t0) * 1000 / len(rows), 1)))
    return out


# =============================================================================================
# canaries (deliberately wrong specifications: must be refuted)
# =============================================================================================
def canary_tasks():
    listed = lambda l: list(l)
    wrong_run = lambda items: [c for it in items for c in ([it[1]] if it[0] == "g" else list(it[1]))]
    return [
        _uw_task([["Hadamard", "Phase"]], "e", "mid", label="canary.unwrap_nodes.listed-order-on-the-wire", expect=listed),
        _gr_task([G("SigmaX"), W_("Hadamard", "Phase")], "e", label="canary.group_one_qubit_gates.wrapper-kept-in-listed-order", expect=wrong_run),
        _ri_canary(),
        _gr_step("e", "w", "g1q", True, label="canary.group_one_qubit_gates.step.wrapper-contributes-its-application-order", wrong=True),
    ]


def _ri_canary():
    """wrong spec: the identity's neighbours stay disconnected (no re-joining edge)"""
    t0 = _ri_apart(1, ("e",))

    def check(I, sc, ret, Pp):
        Pp.edges_are([])

    return RWTask(Q_RI, t0.scenario, check, "canary.remove_identity.wire-left-open", clause="")


def tasks():
    return remove_identity_tasks() + unwrap_nodes_tasks() + [_uw_absent_task()] + group_tasks() + group_step_tasks()
