"""C20 - deductive [P] contracts on graphiq/circuit/ops.py (the Clifford library's code paths) and the shared `PostTask`.

Functions under contract here (REAL bodies interpreted from /repo's AST):
  * OneQubitGateWrapper.unwrap (and, on the way, OneQubitGateWrapper.__init__ / OneQubitOperationBase.__init__ /
    OperationBase.__init__ with their asserts):  result = instances of `operations` in REVERSED list order (= application
    order: the last listed gate acts first), each on the wrapper's (symbolic) register and register type, noise attached per
    index (list case), or all NoNoise plus an Identity carrier holding the wrapper's single noise model, placed so that it
    acts after all gates iff noise_parameters["After gate"]; the wrapper itself is not modified (frame).
  * local_clifford_to_matrix_map: loop invariant  result_k = eye(2) @ M[g_0] @ ... @ M[g_{k-1}]  (left fold in list order)
    proved by induction for a word of SYMBOLIC length over the six supported classes; an unsupported class raises
    ValueError; the non-list branch returns mapping[gate.__name__].  Matrices are abstract terms of an uninterpreted sort
    with an uninterpreted `matmul`; that `@` on 2x2 complex arrays is the associative matrix product is [T: linear algebra]
    and the concrete products are the [F] lemmas (lemmas/clifford_group.py).
  * find_local_clifford_by_matrix (relational: which accepted candidate / in which order candidates are tried is a free
    choice): every test is check_equivalent_unitaries(<the input matrix>, M(x) @ M(y)) for a pair (x, y) of the REAL
    local_clifford_composition(), with the library matrix as SECOND argument; it returns x + y of a candidate that was
    accepted; it raises ValueError only after all 24 candidates were tested and rejected - 24 + 1 paths.
  * simplify_local_clifford = find_local_clifford_by_matrix(local_clifford_to_matrix_map(gate_list)).
  * local_clifford_composition / one_qubit_cliffords / local_cliffords_name_to_matrix_map: structure only (24 = 6 x 4
    non-empty lists over the supported classes; the enumerations are the sets {x + y} and {M(x) @ M(y)}; enumeration ORDER
    and the choice of coset representatives are not part of the property - the group facts are the [F] lemmas).

Not within reach here: the float semantics of check_equivalent_unitaries / is_unitary (np.allclose, np.nonzero, complex
division) - decided on complete finite domains in lemmas/clifford_group.py [F] and by the bounded stand-in for general
matrices ([B-only]).
"""
from __future__ import annotations

import itertools

import z3

from pyvc import source
from pyvc.contract import Contract
from pyvc.interp import Interp, Engine, Path, explore, RaiseEx, Undecided, PathEnd, Frame
from pyvc.trace import recorder, Token, same
from pyvc.values import Obj, ClsRef, FuncRef, NDArr, Opaque, is_sym, to_z3, as_int_term

OPS = "graphiq.circuit.ops"
NM = "graphiq.noise.noise_models"
OQ = "graphiq.utils.openqasm_lib"
DMF = "graphiq.backends.density_matrix.functions"

ONE_QUBIT = ["Identity", "Hadamard", "Phase", "PhaseDagger", "SigmaX", "SigmaY", "SigmaZ"]
CLIFF_GENS = ["Identity", "Hadamard", "Phase", "SigmaX", "SigmaY", "SigmaZ"]
LIB_A = [["Identity"], ["Hadamard", "Phase", "Hadamard", "Phase"], ["Hadamard", "Phase"], ["Hadamard"],
         ["Phase", "Hadamard", "Phase"], ["Phase"]]
LIB_B = [["Identity"], ["SigmaX"], ["SigmaY"], ["SigmaZ"]]
LIBRARY = [x + y for x, y in itertools.product(LIB_A, LIB_B)]  # the property's statement of the enumeration


# =============================================================================================
# a verification task with a free-form postcondition (obligations issued by `post`)
# =============================================================================================

class PostTask:
    """Runs the REAL body of `qual` on inputs built by mk_inputs(I) and then post(I, ret, *args), which issues named
    obligations through `ob(name, goal)`; a raise of the body is judged by `on_raise(I, exc, *args) -> bool` (permitted?).
    `replay(detail)` (optional, native) turns a refuted obligation into a concrete witness on the real code."""

    def __init__(self, qual, mk_inputs, post, contracts=None, inline=(), label=None, hooks=None, requires=None, clause="",
                 timeout_ms=10000, on_raise=None, replay=None, must_raise=False):
        self.qual = qual
        self.mk_inputs = mk_inputs
        self.post = post
        self.contracts = contracts or {}
        self.inline = set(inline)
        self.label = label or qual.split(":")[1]
        self.hooks = hooks or {}
        self.requires = requires
        self.timeout_ms = timeout_ms
        self.contract = Contract(qual, clause=clause)
        self.on_raise = on_raise
        self.replay = replay
        self.must_raise = must_raise
        self.cases = None  # optional list of (case_label, mk_inputs, post, replay): many inputs, shared obligation names

    def run(self):
        eng = CaseEngine(self.timeout_ms)
        m, node, cls = source.find(self.qual)
        cases = self.cases if self.cases is not None else [(None, self.mk_inputs, self.post, self.replay)]
        cur = {}

        def harness(path):
            I = Interp(path, self.contracts, self.inline, dict(self.hooks))
            I.task_name = self.qual
            path.ghost["task"] = self.qual
            f = FuncRef(m.name, node, self.qual, I.get_class(m.name, cls.name) if cls is not None else None)
            I.stack.append(Frame(m.name, {}, self.label))
            args = cur["mk"](I)
            if self.requires is not None:
                pre = self.requires(I, *args)
                path.assume(pre if not isinstance(pre, bool) else z3.BoolVal(pre))
            path.trace = []
            try:
                ret = I.call_function(f, list(args), {}, force_body=True)
            except RaiseEx as e:
                ok = bool(self.on_raise and self.on_raise(I, e, *args))
                eng.record(f"{self.label}:no-raise", "discharged" if ok else "refuted", 0,
                           "" if ok else f"real body raises {e.exc_name}: {e.msg} on an input the contract accepts", None)
                return
            if self.must_raise:
                eng.record(f"{self.label}:no-raise", "refuted", 0, "the contract demands an exception here; the body returned", None)
                return
            eng.record(f"{self.label}:no-raise", "discharged", 0, "", None)

            def ob(name, goal, extra=()):
                if isinstance(goal, bool):
                    goal = z3.BoolVal(goal)
                path.oblige(f"{self.label}:post.{name}", goal, extra)

            I.ob = ob
            cur["post"](I, ret, *args)

        replays = {}
        for case_label, mk, post, rep in cases:
            cur.update(mk=mk, post=post)
            eng.case = case_label
            replays[case_label] = rep
            try:
                explore(eng, harness)
            except Undecided as u:
                eng.record(f"{self.label}:supported-subset", "undecided", 0, f"{u}", None)
        for name, r in eng.results.items():
            r.witness, r.replayed = None, False
            rep = replays.get(eng.fail_case.get(name))
            if r.status == "refuted" and rep is not None:
                try:
                    r.witness, r.replayed = rep(r)
                except Exception as e:  # noqa: BLE001
                    r.witness, r.replayed = {"replay_error": f"{type(e).__name__}: {e}"}, False
            if r.status != "discharged" and len(eng.all_fail.get(name, [])) > 1:
                r.witness = dict(r.witness or {})
                r.witness["all_failing_cases"] = eng.all_fail[name]
                r.detail += f" | {len(eng.all_fail[name])} failing cases"
        return eng


class CaseEngine(Engine):
    """obligations of all cases of a task share names; the first failing case is remembered (detail + replay)"""

    def __init__(self, timeout_ms=10000):
        super().__init__(timeout_ms)
        self.case = None
        self.fail_case = {}
        self.all_fail = {}

    def record(self, name, status, ms, detail, model):
        if status != "discharged" and self.case is not None and self.case not in self.all_fail.setdefault(name, []):
            self.all_fail[name].append(self.case)
        if status != "discharged" and name not in self.fail_case:
            self.fail_case[name] = self.case
            if self.case is not None:
                detail = f"[case {self.case}] {detail}"
        elif status != "discharged" and self.case is not None:
            detail = f"[case {self.case}] {detail}"
        super().record(name, status, ms, detail, model)


def sym_eq(a, b):
    """equality of two interpreter values as z3 Bool / python bool (ints, strings, tuples thereof)"""
    return same(a, b)


# =============================================================================================
# OneQubitGateWrapper.unwrap
# =============================================================================================

UNWRAP = f"{OPS}:OneQubitGateWrapper.unwrap"
INLINE_OPS = {f"{OPS}:*"}


def _abstract_noise(I, clsname, **fields):
    o = Obj(I.get_class(NM, clsname))
    o.fields.update(fields)
    return o


def noise_instantiate_hook(I, cls, args, kwargs):
    """noise models are abstract instances of their real class: constructors are not run (isinstance works)"""
    if cls.module == NM:
        return Obj(cls)
    return NotImplemented


def wrapper_contracts():
    q = f"{OQ}:single_qubit_wrapper_info"
    return {q: recorder(q, "single_qubit_wrapper_info", result=lambda I, ops_: Token("wrapper_info", tuple(ops_)))}


def unwrap_inputs(names, rt, variant):
    def mk(I):
        r = z3.Int("reg")
        I.path.assume(r >= 0)
        classes = [I.get_class(OPS, n) for n in names]
        op_list = list(classes)
        kw = {"register": r, "reg_type": rt}
        if variant == "list":
            noise = [_abstract_noise(I, "DepolarizingNoise") for _ in names]
            kw["noise"] = noise
        elif variant == "default":
            noise = None
        elif variant in ("after", "before"):
            noise = _abstract_noise(I, "DepolarizingNoise", noise_parameters={"After gate": variant == "after"})
            kw["noise"] = noise
        else:
            raise KeyError(variant)
        w = I.instantiate(I.get_class(OPS, "OneQubitGateWrapper"), [op_list], kw)
        I.path.ghost.update(classes=classes, op_list=op_list, noise=noise, r=r, fields0=dict(w.fields), n0=list(op_list),
                            noise0=list(noise) if isinstance(noise, list) else noise)
        return [w]

    return mk


def unwrap_post(names, rt, variant, order="reversed"):
    """order='reversed' is the contract; order='listed' is the canary (must be refuted for non-palindromic lists)"""

    def post(I, ret, w):
        g = I.path.ghost
        ob = I.ob
        n = len(names)
        carrier = variant in ("after", "before")
        ob("is-list", isinstance(ret, list))
        if not isinstance(ret, list):
            return
        ob("length", len(ret) == n + (1 if carrier else 0))
        if len(ret) != n + (1 if carrier else 0):
            return
        gates = list(ret)
        if carrier:
            # application order: carrier acts after all gates iff "After gate"
            car = gates.pop(-1 if variant == "after" else 0)
            ob("carrier.class", isinstance(car, Obj) and car.cls is I.get_class(OPS, "Identity"))
            if isinstance(car, Obj):
                ob("carrier.noise-is-the-wrappers", car.fields.get("noise") is g["noise"])
                ob("carrier.register", sym_eq(car.fields.get("register"), g["r"]))
                ob("carrier.reg_type", car.fields.get("reg_type") == rt)
        seen = set()
        for j, op in enumerate(gates):
            src = n - 1 - j if order == "reversed" else j
            ob(f"op{j}.class-is-operations[{src}]", isinstance(op, Obj) and op.cls is g["classes"][src])
            if not isinstance(op, Obj):
                continue
            fresh = id(op) not in seen and op is not w
            seen.add(id(op))
            ob(f"op{j}.register", sym_eq(op.fields.get("register"), g["r"]))
            ob(f"op{j}.reg_type+registers-tuples+fresh",
               fresh and op.fields.get("reg_type") == rt and op.fields.get("_q_registers_type") == (rt,)
               and op.fields.get("_c_registers") == () and isinstance(op.fields.get("_q_registers"), tuple)
               and len(op.fields["_q_registers"]) == 1)
            ob(f"op{j}.q_registers", sym_eq(op.fields.get("_q_registers"), (g["r"],)))
            nz = op.fields.get("noise")
            if variant == "list":
                ob(f"op{j}.noise-is-noise[{src}]", nz is g["noise"][src])
            else:
                ob(f"op{j}.noise-is-NoNoise", isinstance(nz, Obj) and nz.cls is I.get_class(NM, "NoNoise"))
        # frame: the wrapper is unchanged
        ob("frame.wrapper-fields", set(w.fields) == set(g["fields0"]) and all(w.fields[k] is g["fields0"][k] for k in w.fields))
        ob("frame.operations-list", w.fields["operations"] is g["op_list"] and list(g["op_list"]) == g["n0"])
        if isinstance(g["noise"], list):
            ob("frame.noise-list", list(g["noise"]) == g["noise0"])

    return post


def unwrap_replay(names, rt, variant, order):
    """native replay of a refuted unwrap obligation: run the real class and evaluate the same clause concretely"""

    def replay(r):
        import graphiq.circuit.ops as ops
        import graphiq.noise.noise_models as nm

        classes = [getattr(ops, n) for n in names]
        kw = {}
        if variant == "list":
            noise = [nm.DepolarizingNoise(0.01 * (k + 1)) for k in range(len(names))]
            kw["noise"] = noise
        elif variant in ("after", "before"):
            noise = nm.DepolarizingNoise(0.01)
            noise.noise_parameters["After gate"] = variant == "after"
            kw["noise"] = noise
        w = ops.OneQubitGateWrapper(list(classes), register=7, reg_type=rt, **kw)
        got = w.unwrap()
        gates = list(got)
        okn = True
        if variant in ("after", "before"):
            car = gates.pop(-1 if variant == "after" else 0)
            okn = type(car) is ops.Identity and car.noise is noise
        want = classes[::-1] if order == "reversed" else classes
        okc = [type(x) for x in gates] == want
        okr = all(x.register == 7 and x.reg_type == rt and x.q_registers == (7,) and x.q_registers_type == (rt,) for x in got)
        if variant == "list":
            wn = noise[::-1] if order == "reversed" else noise
            okn = len(gates) == len(wn) and all(x.noise is y for x, y in zip(gates, wn))
        else:
            okn = okn and all(isinstance(x.noise, nm.NoNoise) for x in gates)
        wit = {"function": UNWRAP, "args": {"operations": names, "register": 7, "reg_type": rt, "noise": variant},
               "actual": [type(x).__name__ for x in got], "expected_classes": [c.__name__ for c in want]}
        return wit, not (okc and okr and okn)

    return replay


def unwrap_case(names, rt, variant, order="reversed"):
    return (f"{'.'.join(names)},{rt},{variant}", unwrap_inputs(names, rt, variant), unwrap_post(names, rt, variant, order),
            unwrap_replay(names, rt, variant, order))


def unwrap_group(label, cases, C):
    t = PostTask(UNWRAP, None, None, C, inline=INLINE_OPS, label=label, hooks={"instantiate": noise_instantiate_hook},
                 clause=f"unwrap returns instances of `operations` in reversed (application) order on the wrapper's (symbolic) "
                        f"register, noise per index / carrier placement; wrapper unchanged  [{len(cases)} gate-list cases]")
    t.cases = cases
    return t


def unwrap_task(names, rt, variant, C, order="reversed", prefix=""):
    return unwrap_group(f"{prefix}OneQubitGateWrapper.unwrap[{'.'.join(names)},{rt},{variant}]",
                        [unwrap_case(names, rt, variant, order)], C)


def unwrap_tasks(C, tier="quick"):
    """groups of gate lists that share obligation names (same length, same noise variant)"""
    T = []
    # every list of length 1..3 over the seven one-qubit classes, both register types, per-index noise lists
    for n in (1, 2):
        cases = [unwrap_case(list(t), rt, "list") for t in itertools.product(ONE_QUBIT, repeat=n) for rt in "ep"]
        T.append(unwrap_group(f"OneQubitGateWrapper.unwrap[all lists of length {n},e|p,noise list]", cases, C))
    for first in ONE_QUBIT:
        cases = [unwrap_case([first] + list(t), rt, "list") for t in itertools.product(ONE_QUBIT, repeat=2) for rt in "ep"]
        T.append(unwrap_group(f"OneQubitGateWrapper.unwrap[all lists of length 3 starting with {first},e|p,noise list]", cases, C))
    # length 4 over the five non-trivial Clifford generators: stride sample (quick) / all 625 (thorough)
    four = [list(t) for t in itertools.product(CLIFF_GENS[1:], repeat=4)]
    if tier != "thorough":
        four = four[::5]
    for first in CLIFF_GENS[1:]:
        cases = [unwrap_case(w, "ep"[k % 2], "list") for k, w in enumerate(four) if w[0] == first]
        if cases:
            T.append(unwrap_group(f"OneQubitGateWrapper.unwrap[lists of length 4 starting with {first},noise list]", cases, C))
    # every library list (lengths 2..5), both register types, all four noise variants
    for n in sorted({len(l) for l in LIBRARY}):
        for variant in ("list", "default", "after", "before"):
            cases = [unwrap_case(l, rt, variant) for l in LIBRARY if len(l) == n for rt in "ep"]
            T.append(unwrap_group(f"OneQubitGateWrapper.unwrap[library lists of length {n},e|p,noise {variant}]", cases, C))
    return T


# =============================================================================================
# abstract 2x2 matrix algebra: uninterpreted sort, uninterpreted product  ([T] `@` is the associative matrix product)
# =============================================================================================

Mat = z3.DeclareSort("Mat")
MATMUL = z3.Function("matmul", Mat, Mat, Mat)
EYE = z3.Const("np.eye(2)", Mat)
GEN_MAT = {"Identity": EYE, "Hadamard": z3.Const("dmf.hadamard()", Mat), "Phase": z3.Const("dmf.phase()", Mat),
           "SigmaX": z3.Const("dmf.sigmax()", Mat), "SigmaY": z3.Const("dmf.sigmay()", Mat), "SigmaZ": z3.Const("dmf.sigmaz()", Mat)}
DMF_OF = {"Hadamard": "hadamard", "Phase": "phase", "SigmaX": "sigmax", "SigmaY": "sigmay", "SigmaZ": "sigmaz"}
MAP = f"{OPS}:local_clifford_to_matrix_map"
FIND = f"{OPS}:find_local_clifford_by_matrix"
SIMPLIFY = f"{OPS}:simplify_local_clifford"
CEU = f"{DMF}:check_equivalent_unitaries"


def is_mat(v):
    return isinstance(v, z3.ExprRef) and v.sort() == Mat


def to_mat(I, v):
    """engine value -> Mat term; the only arrays that occur are np.eye(2) (recognised entrywise)"""
    if is_mat(v):
        return v
    if isinstance(v, NDArr) and v.ndim == 2 and [z3.simplify(to_z3(s)) for s in v.shape] == [z3.IntVal(2), z3.IntVal(2)]:
        ent = [z3.simplify(as_int_term(v.get(i, j))) for i in range(2) for j in range(2)]
        if all(z3.is_int_value(e) for e in ent) and [e.as_long() for e in ent] == [1, 0, 0, 1]:
            return EYE
    raise Undecided(f"not an abstract matrix: {v!r}")


def matmul_hook(I, a, b):
    return MATMUL(to_mat(I, a), to_mat(I, b))


def fold(names):
    """left fold of `@` over the list, starting from eye(2): the matrix the word DENOTES (g1.g2...gk, last gate first)"""
    t = EYE
    for n in names:
        t = MATMUL(t, GEN_MAT[n])
    return t


def dmf_contracts():
    C = {}
    for cls, f in DMF_OF.items():
        q = f"{DMF}:{f}"
        C[q] = Contract(q, spec=(lambda t: (lambda I: t))(GEN_MAT[cls]), clause=f"abstract matrix constant {f}()")
    return C


class AbsWord(list):
    """a python-list value of SYMBOLIC length whose k-th element is a class drawn from `classes` (index term w(k))"""

    def __init__(self, length, w, classes):
        super().__init__()
        self.length, self.w, self.classes = length, w, classes


PFUN = z3.Function("fold_prefix", z3.IntSort(), Mat)  # P(k) = eye @ M[w(0)] @ ... @ M[w(k-1)]
WFUN = z3.Function("word", z3.IntSort(), z3.IntSort())
MFUN = z3.Function("M_of_class", z3.IntSort(), Mat)


def _axioms_M():
    return [MFUN(i) == GEN_MAT[n] for i, n in enumerate(CLIFF_GENS)]


def word_loop_hook(classes_of):
    """loop rule for `for op in gate:` with carried variable `result` over an AbsWord:
         init:           result at entry == P(0)            (P(0) := eye(2))
         preservation:   for a fresh k in [0, N), result == P(k), op = the class w(k) (path forks over the classes):
                         one execution of the REAL body gives result == P(k+1)   (P(k+1) := P(k) @ M[w(k)])
         frame:          the body assigns only `result` (and the target) and writes no heap object
       after the loop: result == P(N)."""
    import ast as _ast
    from pyvc.loops import assigned_names

    def hook(I, node, it):
        if not isinstance(it, AbsWord):
            return False
        path = I.path
        fr = I.stack[-1]
        lab = f"{fr.func_name}:loop(for {_ast.unparse(node.target)} in {_ast.unparse(node.iter)})"
        written = assigned_names(node.body)
        tgt = {n.id for n in _ast.walk(node.target) if isinstance(n, _ast.Name)}
        ok = written <= {"result"}
        path.engine.record(f"{lab}.frame.vars", "discharged" if ok else "refuted", 0,
                           "" if ok else f"loop body assigns {sorted(written)}; the invariant carries only `result`", None)
        if not ok:
            raise PathEnd()
        N = it.length
        for ax in _axioms_M():
            path.assume(ax)
        path.assume(PFUN(0) == EYE)  # definition of P at 0
        path.oblige(f"{lab}.init", to_mat(I, fr.env["result"]) == PFUN(0))
        # arbitrary iteration
        saved_pc = len(path.pc)
        saved_env = dict(fr.env)
        k = path.fresh("it")
        path.assume(z3.And(k >= 0, k < N))
        path.assume(z3.And(WFUN(k) >= 0, WFUN(k) < len(it.classes)))
        path.assume(PFUN(k + 1) == MATMUL(PFUN(k), MFUN(WFUN(k))))  # definition of P at k+1
        fr.env["result"] = PFUN(k)
        elem = None
        for idx, c in enumerate(it.classes):
            if idx == len(it.classes) - 1 or path.decide(WFUN(k) == idx):
                if idx == len(it.classes) - 1:
                    path.assume(WFUN(k) == idx)
                elem = c
                break
        I.assign(node.target, elem)
        n_writes = len(I.writes)
        I.exec_block(node.body)
        path.oblige(f"{lab}.preservation", to_mat(I, fr.env["result"]) == PFUN(k + 1))
        heap_ok = len(I.writes) == n_writes
        path.engine.record(f"{lab}.frame.heap", "discharged" if heap_ok else "refuted", 0,
                           "" if heap_ok else f"loop body writes {I.writes[n_writes:]}", None)
        del path.pc[saved_pc:]
        fr.env.clear()
        fr.env.update(saved_env)
        for t in tgt:
            fr.env.pop(t, None)
        fr.env["result"] = PFUN(N)
        return True

    return hook


def _np_product(ops_mod, dmf, names):
    import numpy as np

    M = {"Identity": np.eye(2), "Hadamard": dmf.hadamard(), "Phase": dmf.phase(), "SigmaX": dmf.sigmax(), "SigmaY": dmf.sigmay(),
         "SigmaZ": dmf.sigmaz()}
    out = np.eye(2)
    for n in names:
        out = out @ M[n]
    return out


def map_replay(words):
    """native replay: the real float function vs the numpy product in list order, on the first word that differs"""

    def replay(r):
        import numpy as np
        import graphiq.circuit.ops as ops
        import graphiq.backends.density_matrix.functions as dmf

        for w in words:
            try:
                got = np.asarray(ops.local_clifford_to_matrix_map([getattr(ops, n) for n in w]))
                diff = got.shape != (2, 2) or not np.allclose(got, _np_product(ops, dmf, w), atol=1e-12)
                act = got.tolist()
            except Exception as e:  # noqa: BLE001
                diff, act = True, f"raises {type(e).__name__}: {e}"
            if diff:
                return {"function": MAP, "args": {"gate": w}, "actual": act,
                        "expected": _np_product(ops, dmf, w).tolist()}, True
        return {"function": MAP, "note": "no differing word among " + str(len(words))}, False

    return replay


def find_replay(r):
    """native replay: every library matrix (times i) must come back as a library list denoting it up to phase"""
    import numpy as np
    import graphiq.circuit.ops as ops
    import graphiq.backends.density_matrix.functions as dmf

    a, b = ops.local_clifford_composition()
    for x in a:
        for y in b:
            w = [c.__name__ for c in x + y]
            m = 1j * _np_product(ops, dmf, w)
            try:
                got = ops.find_local_clifford_by_matrix(m)
                g = _np_product(ops, dmf, [c.__name__ for c in got])
                ok = abs(abs(np.trace(g @ m.conj().T)) - 2) < 1e-9 and [c.__name__ for c in got] in [[c.__name__ for c in p + q] for p in a for q in b]
                act = [c.__name__ for c in got]
            except Exception as e:  # noqa: BLE001
                ok, act = False, f"raises {type(e).__name__}: {e}"
            if not ok:
                return {"function": FIND, "args": {"matrix": f"i * product of {w}"}, "actual": act,
                        "expected": "a library list x + y denoting the input up to phase"}, True
    return {"function": FIND, "note": "all 24 library matrices are found"}, False


def map_tasks():
    C = dmf_contracts()
    T = []
    hooks = {"matmul": matmul_hook}
    small = [list(t) for n in (1, 2, 3) for t in itertools.product(CLIFF_GENS, repeat=n)]

    # (1) symbolic word length: induction
    def mk_sym(I):
        n = z3.Int("n")
        I.path.assume(n >= 0)
        return [AbsWord(n, WFUN, [I.get_class(OPS, c) for c in CLIFF_GENS])]

    def post_sym(I, ret, gate):
        I.ob("result-is-left-fold-of-the-word", to_mat(I, ret) == PFUN(gate.length))

    T.append(PostTask(MAP, mk_sym, post_sym, C, inline=INLINE_OPS, label="local_clifford_to_matrix_map[word of symbolic length]",
                      hooks={**hooks, "loop": word_loop_hook(None)}, replay=map_replay(small),
                      clause="loop invariant: result_k = eye(2) @ M[g_0] @ ... @ M[g_{k-1}] (list order) for words of any length over {I,H,P,X,Y,Z}"))

    # (2) the 24 library lists and all words up to length 2, concretely (loop unrolled): the explicit product term
    words = [list(w) for w in LIBRARY] + [[a] for a in CLIFF_GENS] + [[a, b] for a in CLIFF_GENS for b in CLIFF_GENS] + [[]]
    seen = set()
    for w in words:
        if tuple(w) in seen:
            continue
        seen.add(tuple(w))

        def mk(I, w=w):
            return [[I.get_class(OPS, c) for c in w]]

        def post(I, ret, gate, w=w):
            I.ob("result-is-g1@g2@...@gk", to_mat(I, ret) == fold(w))

        T.append(PostTask(MAP, mk, post, C, inline=INLINE_OPS, label=f"local_clifford_to_matrix_map[{'.'.join(w) or 'empty'}]", hooks=hooks,
                          replay=map_replay([w]),
                          clause="the list denotes the matrix product in list order (last listed gate acts first)"))

    # (3) single class argument
    for c in CLIFF_GENS:
        def mk1(I, c=c):
            return [I.get_class(OPS, c)]

        def post1(I, ret, gate, c=c):
            I.ob("result-is-the-generator-matrix", to_mat(I, ret) == GEN_MAT[c])

        T.append(PostTask(MAP, mk1, post1, C, inline=INLINE_OPS, label=f"local_clifford_to_matrix_map[class {c}]", hooks=hooks,
                          clause="a single class maps to its dmf matrix"))

    # (4) unsupported classes raise ValueError (list and non-list argument)
    for w in (["PhaseDagger"], ["Hadamard", "PhaseDagger"], ["Hadamard", "CNOT", "Phase"], "PhaseDagger", "CNOT", "MeasurementZ"):
        def mkr(I, w=w):
            return [[I.get_class(OPS, c) for c in w]] if isinstance(w, list) else [I.get_class(OPS, w)]

        T.append(PostTask(MAP, mkr, lambda I, ret, gate: None, C, inline=INLINE_OPS,
                          label=f"local_clifford_to_matrix_map[unsupported {w}]", hooks=hooks, must_raise=True,
                          on_raise=lambda I, e, gate: e.exc_name == "ValueError",
                          clause="a class outside {I,H,P,X,Y,Z} raises ValueError"))
    return T


# =============================================================================================
# find_local_clifford_by_matrix / simplify_local_clifford / enumeration
# =============================================================================================

def lm_contract():
    """contract of local_clifford_to_matrix_map as proved by map_tasks: concrete list -> the fold term"""

    def spec(I, gate):
        if isinstance(gate, list) and not isinstance(gate, AbsWord):
            names = [c.name for c in gate]
            if all(n in GEN_MAT for n in names):
                return fold(names)
            raise RaiseEx("ValueError", "unsupported class")
        if isinstance(gate, ClsRef) and gate.name in GEN_MAT:
            return GEN_MAT[gate.name]
        raise Undecided("local_clifford_to_matrix_map contract: argument shape")

    return Contract(MAP, spec=spec, clause="list -> eye @ g1 @ ... @ gk")


def find_contracts():
    C = {MAP: lm_contract()}

    def ceu_result(I, u1, u2):
        return I.path.fresh("equivalent", "bool")

    C[CEU] = recorder(CEU, "check_equivalent_unitaries", result=ceu_result)
    return C


def library_of(I):
    """the candidate pairs (x, y) as the REAL local_clifford_composition states them"""
    q = f"{OPS}:local_clifford_composition"
    a, b = I.call_function(FuncRef(OPS, source.find(q)[1], q), [], {}, force_body=True)
    return [([c.name for c in x], [c.name for c in y]) for x in a for y in b]


def find_tasks(prefix="", concat=lambda x, y: x + y):
    """free choice: WHICH accepted candidate is returned / in which order candidates are tried is not prescribed (the
    library is pairwise inequivalent [F], so at most one candidate can be accepted)"""
    C = find_contracts()
    MX = z3.Const("matrix", Mat)
    L = f"{prefix}find_local_clifford_by_matrix"

    def candidates(I):
        """-> list of (library index or None, verdict term) per recorded test; obligations: every test compares the INPUT
        matrix with M(x) @ M(y) of a library pair"""
        lib = library_of(I)
        terms = [MATMUL(fold(x), fold(y)) for x, y in lib]
        out = []
        for k, ev in enumerate(I.path.trace):
            ok = ev["name"] == "check_equivalent_unitaries" and len(ev["args"]) == 2
            idx = None
            if ok:
                cand = to_mat(I, ev["args"][1])
                hits = [j for j, t in enumerate(terms) if t.eq(cand)]
                idx = hits[0] if hits else None
                ok = idx is not None
            I.path.oblige(f"{L}:test.compares-a-library-candidate", z3.BoolVal(bool(ok)))
            if ok:
                I.path.oblige(f"{L}:test.compares-with-the-input-matrix", to_mat(I, ev["args"][0]) == MX)
            out.append((idx, ev["ret"]))
        return lib, out

    def post(I, ret, matrix):
        lib, tests = candidates(I)
        I.ob("some-candidate-was-tested", len(tests) >= 1)
        if not tests:
            return
        idx, verdict = tests[-1]
        I.ob("returned-candidate-was-accepted-by-check_equivalent_unitaries", verdict if idx is not None else False)
        want = concat(*lib[idx]) if idx is not None else None
        I.ob("returns-op1+op2-of-the-accepted-candidate", isinstance(ret, list) and [getattr(c, "name", None) for c in ret] == want)
        for k, (j, v) in enumerate(tests[:-1]):
            I.ob("candidates-passed-over-were-rejected", z3.Not(v))

    def on_raise(I, e, matrix):
        if e.exc_name != "ValueError":
            return False
        lib, tests = candidates(I)
        I.path.oblige(f"{L}:raise.only-after-all-{len(lib)}-candidates-were-tested",
                      z3.BoolVal(sorted(j for j, _ in tests if j is not None) == list(range(len(lib)))))
        for j, v in tests:
            I.path.oblige(f"{L}:raise.only-if-every-candidate-was-rejected", z3.Not(v))
        return True

    def mk(I):
        return [MX]

    return [PostTask(FIND, mk, post, C, inline=INLINE_OPS, label=L, hooks={"matmul": matmul_hook}, on_raise=on_raise, replay=find_replay,
                     clause="returns op1+op2 of a library pair accepted by check_equivalent_unitaries(matrix, M(op1)@M(op2)); "
                            "raises ValueError only if all library candidates were tested and rejected")]


def LIB_SPLIT(names):
    for a in LIB_A:
        for b in LIB_B:
            if a + b == names:
                return a, b
    raise KeyError(names)


def simplify_tasks():
    def lm(I, gate):
        return Token("matrix_of", tuple(gate))

    C = {MAP: recorder(MAP, "local_clifford_to_matrix_map", result=lm),
         FIND: recorder(FIND, "find_local_clifford_by_matrix", result=lambda I, m: Token("found", m))}
    T = []
    for w in (["Hadamard", "Hadamard"], ["Phase", "SigmaX", "Hadamard", "SigmaZ", "Phase"]):
        def mk(I, w=w):
            return [[I.get_class(OPS, c) for c in w]]

        def post(I, ret, gate_list):
            tr = I.path.trace
            I.ob("calls", [e["name"] for e in tr] == ["local_clifford_to_matrix_map", "find_local_clifford_by_matrix"])
            if len(tr) != 2:
                return
            I.ob("matrix-of-the-whole-list", tr[0]["args"][0] is gate_list)
            I.ob("lookup-of-that-matrix", tr[1]["args"][0] is tr[0]["ret"])
            I.ob("returns-the-lookup-result", ret is tr[1]["ret"])

        T.append(PostTask(SIMPLIFY, mk, post, C, inline=INLINE_OPS, label=f"simplify_local_clifford[{'.'.join(w)}]",
                          clause="simplify = find_local_clifford_by_matrix(local_clifford_to_matrix_map(gate_list))"))
    return T


def enumeration_tasks():
    C = {MAP: lm_contract()}
    T = []

    def post_comp(I, ret, *a):
        ok = isinstance(ret, tuple) and len(ret) == 2 and all(isinstance(x, list) for x in ret)
        I.ob("pair-of-lists", ok)
        if ok:
            I.ob("6-x-4-candidates", len(ret[0]) * len(ret[1]) == 24)
            I.ob("gate-lists-over-the-supported-classes",
                 all(isinstance(l, list) and l and all(isinstance(c, ClsRef) and c.name in GEN_MAT for c in l) for l in ret[0] + ret[1]))

    T.append(PostTask(f"{OPS}:local_clifford_composition", lambda I: [], post_comp, {}, inline=INLINE_OPS,
                      clause="two lists of non-empty gate lists over {I,H,P,X,Y,Z}, 24 pairs"))

    def post_enum(I, ret, *a):
        lists = [[c.name for c in l] for l in I.iterate(ret)]
        lib = [x + y for x, y in library_of(I)]
        I.ob("exactly-24", len(lists) == 24)
        I.ob("lists-are-{x+y}", sorted(lists) == sorted(lib))
        I.ob("fresh-lists", len({id(l) for l in I.iterate(ret)}) == len(lists))

    T.append(PostTask(f"{OPS}:one_qubit_cliffords", lambda I: [], post_enum, {}, inline=INLINE_OPS,
                      clause="enumerates exactly the 24 lists x + y (x in a, y in b) that find_local_clifford_by_matrix can return"))

    def post_mats(I, ret, *a):
        mats = [to_mat(I, m) for m in I.iterate(ret)]
        want = [MATMUL(fold(x), fold(y)) for x, y in library_of(I)]
        I.ob("exactly-24", len(mats) == 24)
        I.ob("matrices-are-{M(x)@M(y)}", len(mats) == len(want) and all(any(m.eq(w) for w in want) for m in mats)
             and all(any(m.eq(w) for m in mats) for w in want))

    T.append(PostTask(f"{OPS}:local_cliffords_name_to_matrix_map", lambda I: [], post_mats, C, inline=INLINE_OPS,
                      hooks={"matmul": matmul_hook},
                      clause="the matrices M(x) @ M(y) of the 24 library pairs"))
    return T


def all_tasks(tier="quick"):
    return unwrap_tasks(wrapper_contracts(), tier) + map_tasks() + find_tasks() + simplify_tasks() + enumeration_tasks()


# =============================================================================================
# canaries: deliberately wrong contracts that MUST be refuted, each with a native replay on the real code
# =============================================================================================

def canary_tasks():
    Cw = wrapper_contracts()
    T = [unwrap_task(["Hadamard", "Phase"], "e", "list", Cw, order="listed", prefix="canary.listed-order.")]
    # carrier placed as if "After gate" were False while it is True
    names = ["Hadamard", "Phase"]
    T.append(PostTask(UNWRAP, unwrap_inputs(names, "p", "after"), unwrap_post(names, "p", "before"), Cw, inline=INLINE_OPS,
                      label="canary.carrier-before.OneQubitGateWrapper.unwrap[Hadamard.Phase,p,after]",
                      hooks={"instantiate": noise_instantiate_hook}, clause="canary",
                      replay=_replay_carrier))

    def mk(I):
        return [[I.get_class(OPS, c) for c in ("Hadamard", "Phase")]]

    def post(I, ret, gate):
        I.ob("result-is-gk@...@g1", to_mat(I, ret) == fold(["Phase", "Hadamard"]))

    T.append(PostTask(MAP, mk, post, dmf_contracts(), inline=INLINE_OPS, label="canary.reversed-product.local_clifford_to_matrix_map[Hadamard.Phase]",
                      hooks={"matmul": matmul_hook}, clause="canary", replay=_replay_map))
    # find: wrong concatenation (op2 + op1)
    t = find_tasks(prefix="canary.op2+op1.", concat=lambda x, y: y + x)[0]
    t.replay = _replay_find
    # simplify: "returns its argument" (wrong: the result comes from the lookup)
    st = simplify_tasks()[0]
    st.label = "canary.returns-argument." + st.label
    st.post = lambda I, ret, gate_list: I.ob("returns-its-argument", ret is gate_list)
    st.replay = _replay_simplify
    T.append(st)
    # enumeration: "lists are y + x" (Pauli first)
    et = [x for x in enumeration_tasks() if x.qual.endswith("one_qubit_cliffords")][0]
    et.label = "canary.pauli-first." + et.label

    def bad_enum(I, ret, *a):
        lists = [[c.name for c in l] for l in I.iterate(ret)]
        I.ob("lists-are-{y+x}", sorted(lists) == sorted(y + x for x, y in library_of(I)))

    et.post = bad_enum
    et.replay = _replay_enum
    T.append(et)
    T.append(t)
    return T


def _replay_carrier(r):
    import graphiq.circuit.ops as ops
    import graphiq.noise.noise_models as nm

    nz = nm.DepolarizingNoise(0.01)
    nz.noise_parameters["After gate"] = True
    got = ops.OneQubitGateWrapper([ops.Hadamard, ops.Phase], register=3, reg_type="p", noise=nz).unwrap()
    wit = {"function": UNWRAP, "args": {"operations": ["Hadamard", "Phase"], "noise": "After gate = True"},
           "actual": [type(x).__name__ for x in got], "canary_expects": "Identity carrier first"}
    return wit, not (type(got[0]) is ops.Identity and got[0].noise is nz)


def _replay_map(r):
    import numpy as np
    import graphiq.circuit.ops as ops
    import graphiq.backends.density_matrix.functions as dmf

    got = ops.local_clifford_to_matrix_map([ops.Hadamard, ops.Phase])
    wrong = dmf.phase() @ dmf.hadamard()
    return {"function": MAP, "args": {"gate": ["Hadamard", "Phase"]}, "actual": np.asarray(got).tolist(),
            "canary_expects": wrong.tolist()}, not np.allclose(got, wrong)


def _replay_find(r):
    import graphiq.circuit.ops as ops
    import graphiq.backends.density_matrix.functions as dmf

    m = dmf.hadamard() @ dmf.phase() @ dmf.sigmax()
    got = [c.__name__ for c in ops.find_local_clifford_by_matrix(m)]
    return {"function": FIND, "args": {"matrix": "H @ P @ X"}, "actual": got, "canary_expects": ["SigmaX", "Hadamard", "Phase"]}, \
        got != ["SigmaX", "Hadamard", "Phase"]


def _replay_simplify(r):
    import graphiq.circuit.ops as ops

    arg = [ops.Hadamard, ops.Hadamard]
    got = ops.simplify_local_clifford(arg)
    return {"function": SIMPLIFY, "args": {"gate_list": ["Hadamard", "Hadamard"]}, "actual": [c.__name__ for c in got],
            "canary_expects": "the argument itself"}, got is not arg


def _replay_enum(r):
    import graphiq.circuit.ops as ops

    got = [[c.__name__ for c in l] for l in ops.one_qubit_cliffords()]
    return {"function": f"{OPS}:one_qubit_cliffords", "actual_first_lists": got[:3], "canary_expects": "Pauli factor first"}, \
        ["SigmaX", "Hadamard"] not in got


def canary_summary(d):
    by = {}
    for o in d.obligations:
        lab = o.name.split("|")[0]
        if not lab.startswith("canary."):
            continue
        key = ".".join(lab.split(":")[0].split(".")[:2])
        e = by.setdefault(key, {"name": key, "function": o.function, "refuted": False, "replayed": False})
        if o.status == "refuted":
            e["refuted"] = True
            e["replayed"] = e["replayed"] or o.replayed
    return list(by.values())
