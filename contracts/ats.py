"""C10 - AlternateTargetSolver.solve: the clauses contracts can reach without the callee chain.

[F, static] every value of `lc_method` that solve() dispatches on reaches a branch, and the DEFAULT of
   AlternateTargetSolverSetting.__init__ is one of them (the default setting is accepted).
[P over the equality relation, F over list sizes 1..5] the de-duplication REGION of solve() (mechanically extracted: the
   statements from `adj_list = ...` to the `for index in redundant_indices[::-1]` loop; everything else of solve() is dropped):
   for an arbitrary equivalence relation EQ on the listed graphs (np.array_equal is one)
       - no two remaining entries list EQ graphs,
       - every removed entry is EQ to a remaining one (no class disappears),
       - remaining entries keep their relative order and are the same tuple objects.
   [S8] a set of small ints is iterated in increasing order (CPython); which representative survives does not matter for the claims.
[chain] "the circuit generates the relabelled target" = C16 relabel/get_relabel_map + C09 lc_check certificate + C02 graph_to_circ +
   C12 append: those are the other properties' obligations; the composition inside solve() is [B-only].
"""
from __future__ import annotations

import ast
import itertools
import time

import z3

from pyvc import source
from pyvc.interp import Interp, Engine, Path, explore, RaiseEx, Undecided, PathEnd, Frame
from pyvc.values import FuncRef, Opaque, Builtin
from pyvc.contract import Contract
from vf.core import Obl

ATS = "graphiq.solvers.alternate_target_solver"
QSOLVE = f"{ATS}:AlternateTargetSolver.solve"


def static_obligations():
    out = []
    t0 = time.time()
    m, node, cls = source.find(QSOLVE)
    accepted = set()
    has_none = False
    raises_otherwise = False
    for n in ast.walk(node):
        if isinstance(n, ast.Compare) and ast.unparse(n.left) == "setting.lc_method":
            c = n.comparators[0]
            if isinstance(n.ops[0], ast.Eq) and isinstance(c, ast.Constant) and isinstance(c.value, str):
                accepted.add(c.value)
            if isinstance(n.ops[0], ast.Is) and isinstance(c, ast.Constant) and c.value is None:
                has_none = True
    m2, init, _ = source.find(f"{ATS}:AlternateTargetSolverSetting.__init__")
    params = [a.arg for a in init.args.args]
    defaults = dict(zip(params[len(params) - len(init.args.defaults):], init.args.defaults))
    dflt = defaults.get("lc_method")
    dval = dflt.value if isinstance(dflt, ast.Constant) else "<non-constant>"
    ok = (dval is None and has_none) or (isinstance(dval, str) and dval in accepted)
    out.append(Obl(name="C10.F.default-lc_method-is-dispatched", function=QSOLVE, status="discharged" if ok else "refuted", kind="F",
                   backend="exact", ms=(time.time() - t0) * 1000,
                   detail="" if ok else f"default lc_method={dval!r} is not among the dispatched values {sorted(accepted)} + None",
                   clause="the default AlternateTargetSolverSetting is accepted by solve()",
                   witness=None if ok else {"default": dval, "accepted": sorted(accepted)}, replayed=not ok))
    documented = {"rgs", "linear", "depth_first", "lc_with_iso", "random", "random_with_iso", "random_with_rep"}
    ok2 = documented <= accepted and has_none
    out.append(Obl(name="C10.F.every-documented-lc_method-reaches-a-branch", function=QSOLVE, status="discharged" if ok2 else "refuted",
                   kind="F", backend="exact", detail="" if ok2 else f"missing {sorted(documented - accepted)} none={has_none}",
                   clause="each accepted LC-orbit method value has its own branch"))
    return out


class DedupTask:
    def __init__(self, n):
        self.n = n
        self.qual = QSOLVE
        self.label = f"AlternateTargetSolver.solve.dedup-region[n={n}]"
        self.contract = Contract(QSOLVE, clause="de-duplication keeps exactly one entry per class of equal graphs, in order")

    def run(self):
        eng = Engine(10000)
        m, fn, sha = source.region(QSOLVE, "adj_list = ", "for index in redundant_indices[::-1]", ["results_list"])
        n = self.n
        EQ = z3.Function("EQ", z3.IntSort(), z3.IntSort(), z3.BoolSort())

        def harness(path):
            def ext(I, modname, attr):
                if modname in ("networkx", "nx") and attr == "to_numpy_array":
                    return Builtin("to_numpy_array", lambda i, g: Opaque("adj", g.payload))
                return NotImplemented

            I = Interp(path, {}, set(), {"external": ext})
            import pyvc.models as MD

            # equivalence relation on the n graphs (np.array_equal is reflexive, symmetric, transitive)
            for a in range(n):
                path.assume(EQ(a, a))
                for b in range(n):
                    path.assume(EQ(a, b) == EQ(b, a))
                    for c in range(n):
                        path.assume(z3.Implies(z3.And(EQ(a, b), EQ(b, c)), EQ(a, c)))
            orig_np = dict(MD.NUMPY)

            def array_equal(i, x, y):
                return EQ(x.payload, y.payload)

            MD.NUMPY["array_equal"] = array_equal
            try:
                entries = [(Opaque("circ", k), {"g": Opaque("graph", k), "score": 0.0, "map": Opaque("map", k)}) for k in range(n)]
                results = list(entries)
                I.stack.append(Frame(m.name, {}, self.label))
                f = FuncRef(m.name, fn, QSOLVE + "#dedup")
                I.task_name = f.qual
                try:
                    I.call_function(f, [results], {}, force_body=True)
                except RaiseEx as e:
                    eng.record(f"{self.label}:no-raise", "refuted", 0, f"raises {e.exc_name}: {e.msg}", None)
                    return
                eng.record(f"{self.label}:no-raise", "discharged", 0, "", None)
                kept = [entries.index(r) if r in entries else None for r in results]
                same_objs = all(k is not None for k in kept)
                eng.record(f"{self.label}:post.kept-entries-are-the-original-tuples", "discharged" if same_objs else "refuted", 0, "", None)
                if not same_objs:
                    return
                eng.record(f"{self.label}:post.relative-order-kept", "discharged" if kept == sorted(kept) and len(set(kept)) == len(kept) else "refuted", 0,
                           "" if kept == sorted(kept) else f"order {kept}", None)
                for a, b in itertools.combinations(kept, 2):
                    path.oblige(f"{self.label}:post.no-two-remaining-entries-list-equal-graphs", z3.Not(EQ(a, b)))
                for r in range(n):
                    if r not in kept:
                        path.oblige(f"{self.label}:post.every-removed-entry-equals-a-remaining-one",
                                    z3.Or(*[EQ(r, k) for k in kept]) if kept else z3.BoolVal(False))
                if n == len(kept):
                    path.oblige(f"{self.label}:post.no-two-remaining-entries-list-equal-graphs", z3.BoolVal(True))
            finally:
                MD.NUMPY.clear()
                MD.NUMPY.update(orig_np)

        try:
            explore(eng, harness)
        except Undecided as u:
            eng.record(f"{self.label}:supported-subset", "undecided", 0, f"{u}", None)
        for r in eng.results.values():
            r.witness, r.replayed = None, False
        return eng


def tasks(tier="quick"):
    return [DedupTask(n) for n in ((1, 2, 3, 4) if tier == "quick" else (1, 2, 3, 4, 5))]
