"""Sidecar contracts for graphiq/backends/stabilizer/functions/stabilizer.py (StabilizerTableau helpers): C05 / C03 / C11.

  tab_row_swap(T, a, b)      rows a and b of the table AND of the phase vector exchanged.  Frame (from the code): the table
                             buffer is written in place (x/z setters copy into `_table`), `_phase` is rebound to a fresh
                             copy and the OLD phase buffer has been swapped in place too (row_swap mutates its argument).
  tab_row_sum(T, a, t)       row t := row a (+) row t (both halves);  r_t := ((2 r_t + 2 r_a + G) mod 4) div 2 where
                             G = sum_j g(x_aj, z_aj, x_tj, z_tj): exactly what the code computes - it hands row_sum an
                             all-zero iphase vector and DROPS the iphase it gets back (so the result is the signed Pauli
                             product g_a.g_t precisely when the exponent is even, i.e. for commuting rows: [T], not proved
                             here).  Same frame as tab_row_swap.  Each call records its spec function G (ghost
                             `tabrowsum_calls`) so that callers can unfold it.
  pauli_type_finder(x, z, pivot), one_pauli_type_finder(x, z, pivot, type)
                             the increasing lists of the rows i in [pivot[0], #COLUMNS) whose entry in column pivot[1] is the
                             X / Y / Z Pauli (exact tests ==1 / ==0 as in the code; `type` not in x,y,z selects identity
                             entries).  The bound is the number of columns (np.shape(x)[1]), as in the code: the contract
                             requires #columns <= #rows (call sites pass square blocks).  Lists of symbolic length are
                             engine values `SymList`; the loop invariant proves that the loop builds (CNT(N), SEL) of the
                             filter theory in pyvc/symlist.py, whose characterisation (L2 lemma FILTER) is what callers get.
  insert_qubit(T, pos)       StabilizerTableau version: the new generator +Z_pos in row pos, a zero column at pos in both
                             halves, every old row / column / sign carried to its shifted place (mirrors
                             clifford.insert_qubit).
"""
from __future__ import annotations

import z3

from pyvc.contract import Contract, Task
from pyvc import schema as S, loops
from pyvc.loops import SeqLoop
from pyvc.symlist import SymList, filtered_range, filter_symbols, filter_defs
from pyvc.values import NDArr, Obj, new_array, as_int_term, to_z3, concrete_int
from .common import STABF, TAB, LINALG, TABLEAU_ACCESSORS, idx_in
from .stab_gates import _and, _tab_parts, _bit, g_term

C = {}

TRSWAP = f"{STABF}:tab_row_swap"
TRSUM = f"{STABF}:tab_row_sum"
PTF = f"{STABF}:pauli_type_finder"
OPTF = f"{STABF}:one_pauli_type_finder"
INSERT = f"{STABF}:insert_qubit"


# ------------------------------------------------------------------------------------------ tab_row_swap
def _two_rows(I, T, a, b):
    n = T.fields["n_qubits"]
    return _and(idx_in(a, n), idx_in(b, n))


def _trswap_spec(I, T, a, b):
    tab, ph, n = _tab_parts(T)
    rt, rp = tab.reader(), ph.reader()
    a_, b_ = to_z3(a), to_z3(b)

    def src(i):
        return z3.If(i == a_, b_, z3.If(i == b_, a_, i))

    tab.assign_from(lambda i, j: rt(src(i), j))
    ph.assign_from(lambda i: rp(src(i)))  # row_swap(tableau.phase, ..) swaps the old buffer in place ...
    T.fields["_phase"] = new_array(ph.shape, lambda i: rp(src(i)), "phase'")  # ... and the setter rebinds to a copy
    I.path.ghost.setdefault("gauge_moves", []).append(("swap", a_, b_))
    return T


C[TRSWAP] = Contract(TRSWAP, requires=_two_rows, spec=_trswap_spec,
                     clause="generators a and b exchanged together with their signs; nothing else changes; same tableau object")


# ------------------------------------------------------------------------------------------ tab_row_sum
def tgsum_fn(I):
    """G(k) = sum_{j<k} g(x_aj, z_aj, x_tj, z_tj) over the rows at call time (recursive spec function, fresh per call site)"""
    if I.path.ghost.get("task") == TRSUM:
        return z3.Function("TGSUM", z3.IntSort(), z3.IntSort())
    k = I.path.counter.get("TGSUMcall", 0)
    I.path.counter["TGSUMcall"] = k + 1
    return z3.Function(f"TGSUM@{k}", z3.IntSort(), z3.IntSort())


def _trsum_req(I, T, a, t):
    tab, ph, n = _tab_parts(T)
    j = I.path.fresh("rq")
    n_ = to_z3(n)
    bits = z3.Implies(z3.And(j >= 0, j < 2 * n_), z3.And(_bit(tab.get(to_z3(a), j)), _bit(tab.get(to_z3(t), j))))
    return _and(idx_in(a, n), idx_in(t, n), bits)


def trsum_phase(r_t, r_a, gs):
    return ((2 * r_t + 2 * r_a + gs) % 4) / 2


def _trsum_spec(I, T, a, t):
    from lemmas.sums import apply_sum_ext

    tab, ph, n = _tab_parts(T)
    rt, rp = tab.reader(), ph.reader()
    a_, t_, n_ = to_z3(a), to_z3(t), to_z3(n)
    GS = tgsum_fn(I)

    def gj(j):
        return g_term(rt(a_, j), rt(a_, n_ + j), rt(t_, j), rt(t_, n_ + j))

    rec = dict(GS=GS, g=gj, rt=rt, rp=rp, a=a_, t=t_, n=n_)
    I.path.ghost.setdefault("tabrowsum_calls", []).append(rec)
    I.path.ghost.setdefault("gauge_moves", []).append(("sum", a_, t_))
    if I.path.ghost.get("task") == TRSUM and I.path.ghost.get("rowsum_calls"):
        # own verification task: the callee's running sum (row_sum contract) is the same sum - L2 SUM_EXT, premise proved
        cal = I.path.ghost["rowsum_calls"][-1]
        rx, rz, ca, ct = cal["rx"], cal["rz"], cal["a"], cal["t"]
        apply_sum_ext(I, "tab_row_sum:lemma.sum_ext.premise", cal["GS"](n_), GS(n_),
                      lambda j: g_term(rx(ca, j), rz(ca, j), rx(ct, j), rz(ct, j)), gj, n_)
    total = GS(n_)
    nc = concrete_int(n_)
    if nc is not None:  # concrete size (a replayed counter-model): the sum is evaluated
        total = z3.IntVal(0)
        for j in range(nc):
            total = total + gj(z3.IntVal(j))
    newp = lambda i: z3.If(i == t_, trsum_phase(rp(t_), rp(a_), total), rp(i))  # noqa: E731
    tab.assign_from(lambda i, j: z3.If(i == t_, (rt(a_, j) + rt(t_, j)) % 2, rt(i, j)))
    ph.assign_from(newp)
    T.fields["_phase"] = new_array(ph.shape, newp, "phase'")
    return T


C[TRSUM] = Contract(TRSUM, requires=_trsum_req, spec=_trsum_spec,
                    clause="generator t := generator a (+) generator t, sign r_t := ((2 r_t + 2 r_a + sum_j g_j) mod 4) div 2 "
                           "(zero iphase in, returned iphase dropped); every other generator and sign unchanged")


def trsum_defs(rec, k):
    """defining equations of a recorded tab_row_sum spec function (k None: base)"""
    if k is None:
        return [rec["GS"](0) == 0]
    return [rec["GS"](k + 1) == rec["GS"](k) + rec["g"](k)]


# ------------------------------------------------------------------------------------------ pauli_type_finder
KINDS = {"x": (1, 0), "y": (1, 1), "z": (0, 1)}


def _kind_pred(rx, rz, c, kind):
    a, b = KINDS.get(kind, (0, 0))
    return lambda i: z3.And(as_int_term(rx(i, c)) == a, as_int_term(rz(i, c)) == b)


def _ptf_req(I, x, z, pivot, *rest):
    if not (isinstance(pivot, list) and len(pivot) == 2 and isinstance(x, NDArr) and isinstance(z, NDArr) and x.ndim == 2 and z.ndim == 2):
        return False
    rows, cols = x.shape
    return _and(to_z3(z.shape[0]) == to_z3(rows), to_z3(z.shape[1]) == to_z3(cols), to_z3(cols) <= to_z3(rows),
                to_z3(pivot[0]) >= 0, idx_in(pivot[1], cols))


def _call_tag(I, qual, base):
    if I.path.ghost.get("task") == qual:
        return base, True
    k = I.path.counter.get(base + "call", 0)
    I.path.counter[base + "call"] = k + 1
    return f"{base}@{k}", False


def _ptf_spec(I, x, z, pivot):
    rx, rz = x.reader(), z.reader()
    c = to_z3(pivot[1])
    tag, own = _call_tag(I, PTF, "ptf")
    out, infos = [], {}
    for kind in "xyz":
        lst, info = filtered_range(I, pivot[0], x.shape[1], _kind_pred(rx, rz, c, kind), f"{tag}{kind}", own)
        out.append(lst)
        infos[kind] = info
    I.path.ghost.setdefault("ptf_calls", []).append(infos)
    return tuple(out)


C[PTF] = Contract(PTF, requires=_ptf_req, spec=_ptf_spec,
                  clause="three increasing lists: the rows in [pivot[0], #columns) holding X / Y / Z in column pivot[1]")


def _optf_spec(I, x, z, pivot, pauli_type):
    rx, rz = x.reader(), z.reader()
    c = to_z3(pivot[1])
    tag, own = _call_tag(I, OPTF, "optf")
    kind = pauli_type.lower() if isinstance(pauli_type, str) else None
    lst, info = filtered_range(I, pivot[0], x.shape[1], _kind_pred(rx, rz, c, kind), tag, own)
    I.path.ghost.setdefault("optf_calls", []).append(info)
    return lst


C[OPTF] = Contract(OPTF, requires=_ptf_req, spec=_optf_spec,
                   clause="the increasing list of the rows in [pivot[0], #columns) holding the requested Pauli (x/y/z, anything "
                          "else: identity) in column pivot[1]")


def _finder_loop(func, qual, base, names):
    """loop contract of `for row_i in range(pivot[0], n_qubits): if <kind test>: <list>.append(row_i)`:
    after k iterations every list is (CNT(k), m -> lo + SEL(m)) of the filter theory (pyvc/symlist.py)"""

    def preds(entry):
        rx, rz = entry.rd("x_matrix"), entry.rd("z_matrix")
        piv = entry["pivot"]
        lo, c = to_z3(piv[0]), to_z3(piv[1])
        out = {}
        for var, kind in names(entry).items():
            base_p = _kind_pred(rx, rz, c, kind)
            out[var] = (lambda kk, _p=base_p, _lo=lo: _p(_lo + kk))
        return lo, out

    def tagof(var, entry):
        kind = names(entry)[var]
        return f"{base}{kind}" if base == "ptf" else base

    def state(I, k, entry):
        lo, ps = preds(entry)
        st = {}
        for var in ps:
            CNT, SEL = filter_symbols(tagof(var, entry))
            st[var] = SymList(CNT(k), (lambda m, _S=SEL, _lo=lo: _lo + _S(to_z3(m))), var)
        return st

    def axioms(I, k, entry):
        lo, ps = preds(entry)
        out = []
        for var, p in ps.items():
            CNT, SEL = filter_symbols(tagof(var, entry))
            out += filter_defs(CNT, SEL, p, k)
        return out

    # iter_text None: whatever range the real loop header uses, the lists must be the filter of range(pivot[0], #columns)
    return SeqLoop(func, "row_i", None, state=state, axioms=axioms)


PTF_LOOPS = [_finder_loop("pauli_type_finder", PTF, "ptf", lambda entry: {"pauli_x_list": "x", "pauli_y_list": "y", "pauli_z_list": "z"})]


def _optf_names(entry):
    pt = entry["pauli_type"]
    return {"pauli_list": pt.lower() if isinstance(pt, str) else None}


OPTF_LOOPS = [_finder_loop("one_pauli_type_finder", OPTF, "optf", _optf_names)]


# ------------------------------------------------------------------------------------------ insert_qubit
def _insert_req(I, T, pos):
    n = T.fields["n_qubits"]
    return _and(to_z3(pos) >= 0, to_z3(pos) <= to_z3(n))


def _insert_spec(I, T, pos):
    tab, ph, n = _tab_parts(T)
    rt, rp = tab.reader(), ph.reader()
    p, n_ = to_z3(pos), to_z3(n)
    m = n_ + 1

    def old_row(i):
        return z3.If(i < p, i, i - 1)

    def old_col(j):
        return z3.If(j < p, j, z3.If(j <= n_, j - 1, z3.If(j < m + p, j - 1, j - 2)))

    def new_tab(i, j):
        return z3.If(z3.And(i == p, j == m + p), z3.IntVal(1),
                     z3.If(z3.Or(i == p, j == p, j == m + p), z3.IntVal(0), rt(old_row(i), old_col(j))))

    T.fields["_table"] = new_array((m, 2 * m), new_tab, "table'")
    T.fields["_phase"] = new_array((m,), lambda i: z3.If(i == p, z3.IntVal(0), rp(old_row(i))), "phase'")
    T.fields["n_qubits"] = m
    T.fields["shape"] = (m, 2 * m)
    return T


C[INSERT] = Contract(INSERT, requires=_insert_req, spec=_insert_spec,
                     clause="inserting a qubit adds an unentangled |0> at the requested position: new generator +Z_pos, all old "
                            "generators, columns and signs carried to their shifted places")


# ------------------------------------------------------------------------------------------ schema items / tasks
class IntList(S.Item):
    """a Python list of k symbolic ints (e.g. the pivot [row, column])"""

    def __init__(self, name, k=2, lo=-1, hi=5):
        self.name, self.k, self.lo, self.hi = name, k, lo, hi

    def _syms(self):
        return [z3.Int(f"{self.name}{i}") for i in range(self.k)]

    def symbolic(self, I):
        return list(self._syms())

    def concrete(self, model, env):
        return [S._ev(model, s) for s in self._syms()]

    def random(self, rng, env):
        return [int(rng.integers(self.lo, self.hi)) for _ in range(self.k)]

    def real(self, conc):
        return list(conc)

    def const(self, I, conc):
        return list(conc)


INLINE = set(TABLEAU_ACCESSORS)


def tasks(Call):
    T = []
    r, c = z3.Int("rows"), z3.Int("cols")
    # the 1-D instance of linalg.row_swap used by tab_row_swap on the phase vector
    q = f"{LINALG}:row_swap"
    T.append(Task(q, Call[q], [S.Assume(r >= 1), S.Matrix("V", r), S.IntArg("a"), S.IntArg("b")], Call, label="row_swap[vector]"))
    T.append(Task(TRSWAP, C[TRSWAP], [S.Stabilizer("S"), S.IntArg("a"), S.IntArg("b")], Call, inline=INLINE))
    T.append(Task(TRSUM, C[TRSUM], [S.Stabilizer("S"), S.IntArg("a"), S.IntArg("t")], Call, inline=INLINE))
    sz = S.Assume(z3.And(r >= 1, c >= 1))
    T.append(Task(PTF, C[PTF], [sz, S.Matrix("X", r, c), S.Matrix("Z", r, c), IntList("piv")], Call,
                  hooks={"loop": loops.make_hook(PTF_LOOPS)}))
    for pt in ("x", "Y", "z", "i"):
        T.append(Task(OPTF, C[OPTF], [sz, S.Matrix("X", r, c), S.Matrix("Z", r, c), IntList("piv"), S.Const("pauli_type", pt)], Call,
                      hooks={"loop": loops.make_hook(OPTF_LOOPS)}, label=f"one_pauli_type_finder[{pt}]"))
    T.append(Task(INSERT, C[INSERT], [S.Stabilizer("S"), S.IntArg("pos")], Call, inline=INLINE))
    return T


def canary_tasks(Call):
    T = []

    def bad_swap(I, Tb, a, b):  # forgets the signs
        tab, ph, n = _tab_parts(Tb)
        rt = tab.reader()
        a_, b_ = to_z3(a), to_z3(b)
        tab.assign_from(lambda i, j: rt(z3.If(i == a_, b_, z3.If(i == b_, a_, i)), j))
        Tb.fields["_phase"] = new_array(ph.shape, ph.reader(), "phase'")
        return Tb

    T.append(Task(TRSWAP, C[TRSWAP], [S.Stabilizer("S"), S.IntArg("a"), S.IntArg("b")], Call, inline=INLINE,
                  label="canary.tab_row_swap.signs-stay", spec_override=bad_swap))

    def bad_sum(I, Tb, a, t):  # Aaronson-Gottesman sign rule WITH a carried iphase of row a (the code passes zeros)
        tab, ph, n = _tab_parts(Tb)
        rt, rp = tab.reader(), ph.reader()
        a_, t_, n_ = to_z3(a), to_z3(t), to_z3(n)
        newp = lambda i: z3.If(i == t_, (rp(t_) + rp(a_)) % 2, rp(i))  # noqa: E731   (ignores the g-sum)
        tab.assign_from(lambda i, j: z3.If(i == t_, (rt(a_, j) + rt(t_, j)) % 2, rt(i, j)))
        ph.assign_from(newp)
        Tb.fields["_phase"] = new_array(ph.shape, newp, "phase'")
        return Tb

    T.append(Task(TRSUM, C[TRSUM], [S.Stabilizer("S"), S.IntArg("a"), S.IntArg("t")], Call, inline=INLINE,
                  label="canary.tab_row_sum.sign-without-g", spec_override=bad_sum))
    r, c = z3.Int("rows"), z3.Int("cols")
    sz = S.Assume(z3.And(r >= 1, c >= 1))

    def bad_ptf(I, x, z, pivot):  # range bounded by the number of ROWS+1 / Y and Z lists exchanged
        rx, rz = x.reader(), z.reader()
        cc = to_z3(pivot[1])
        out = []
        for kind in "xzy":
            lst, _ = filtered_range(I, pivot[0], x.shape[1], _kind_pred(rx, rz, cc, kind), f"bad{kind}", True)
            out.append(lst)
        return tuple(out)

    T.append(Task(PTF, C[PTF], [sz, S.Matrix("X", r, c), S.Matrix("Z", r, c), IntList("piv")], Call,
                  hooks={"loop": loops.make_hook(PTF_LOOPS)}, label="canary.pauli_type_finder.y-z-exchanged", spec_override=bad_ptf))

    def bad_optf(I, x, z, pivot, pauli_type):  # starts one row below the pivot
        rx, rz = x.reader(), z.reader()
        lst, _ = filtered_range(I, to_z3(pivot[0]) + 1, x.shape[1], _kind_pred(rx, rz, to_z3(pivot[1]), "z"), "badz", True)
        return lst

    T.append(Task(OPTF, C[OPTF], [sz, S.Matrix("X", r, c), S.Matrix("Z", r, c), IntList("piv"), S.Const("pauli_type", "z")], Call,
                  hooks={"loop": loops.make_hook(OPTF_LOOPS)}, label="canary.one_pauli_type_finder.skips-pivot-row",
                  spec_override=bad_optf))

    def bad_insert(I, Tb, pos):  # the new generator placed on the X side
        tab, ph, n = _tab_parts(Tb)
        rt = tab.reader()
        p, n_ = to_z3(pos), to_z3(n)
        m = n_ + 1
        _insert_spec(I, Tb, pos)
        good = Tb.fields["_table"].reader()
        Tb.fields["_table"] = new_array((m, 2 * m), lambda i, j: z3.If(z3.And(i == p, j == p), z3.IntVal(1),
                                                                        z3.If(z3.And(i == p, j == m + p), z3.IntVal(0), good(i, j))), "table'")
        return Tb

    T.append(Task(INSERT, C[INSERT], [S.Stabilizer("S"), S.IntArg("pos")], Call, inline=INLINE,
                  label="canary.insert_qubit.new-generator-is-X", spec_override=bad_insert))
    return T
