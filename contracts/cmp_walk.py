"""C15 - the register-by-register walk of circuit_comparison.direct as a LOOP INVARIANT, and the annotation pass
circuit_comparison.add_control_target_to_dag, both on symbolic graph fragments (pyvc/symgraph.py).

Why this module exists: contracts/moves_static.DirectStepTask extracts the body of `while node1 != out_node:` and runs it with exactly
the variables the unchanged function has; a step that reads state carried across steps (a `matched` set, a counter, a flag) left
the accepted subset ("unresolved name") and became undecided.  Here the walk is verified by the havoc + invariant rule:

  region      the statement list of direct() that contains `for in_node in circuit1.node_dict['Input']:` (everything the function does
              before it - copies, unwrap_nodes, remove_identity, the register / node-count tests - is dropped, see moves_static),
              run from its first statement, so that whatever state the function sets up before the loop exists;
  for loop    an ARBITRARY input wire (type t, register r symbolic) of circuit1; both cursors start at the wire's input node;
  while loop  invariant WALK(node1, node2): node1 / node2 are the nodes at the SAME position of wire `reg` in circuit1 / circuit2, and
              `reg` / `out_node` are the wire's key / output-node name.  For the arbitrary step EVERY other local variable that the
              loop body assigns or that holds a mutable container is HAVOC'd (value `any`: membership tests, truth value, comparisons and
              method results are unconstrained, updates are lost) - the step contract must hold whatever has been remembered so far:
                 the step either RETURNS False, and then the two next operations on this wire differ in class, q_registers or
                 q_registers_type;  or it CONTINUES, and then (a) both cursors moved to their successors ON THIS WIRE (never along
                 another wire's edge) and (b) the two next operations have the same class, the same q_registers and the same
                 q_registers_type.  Leaving the while loop by `break` is a violation (the rest of the wire would stay uncompared).
              A path that `continue`s (or falls through) WITHOUT the comparison fails (b) for every pair of operations that can differ.
  exit        after the last wire the region returns True.
  By induction over wire positions and wires: direct() returns True only if every wire of circuit1 carries, position by position, the
  same operations as the same wire of circuit2 (class / q_registers / q_registers_type; classical registers are compared through the
  classical wires, which are walked as well: every classically controlled operation sits on its c-register's wire [T-wire]).

add_control_target_to_dag(circuit) (method "is_isomorphic"), the WHOLE function, on a fragment with an ARBITRARY dag.graph attribute
dict and arbitrary pre-existing edge attributes (stale `control_target` values included):
  post.every-input-wire-was-walked     a normal return happens only after the annotation loop ran over circuit.node_dict['Input']
                                       (an early return in front of it fails: the fragment's stale tags would survive);
  step (invariant ANNOT(node, next_node, label, op): `next_node` is the successor of `node` on wire (t, r), `label` its key, `op` the
       operation at `node`): the edge node -> next_node with key `label` gets control_target = the ROLE of register (t, r) in the
       operation at next_node: 'c' / 't' for the control / target register of a ControlledPairOperationBase (CNOT, CZ), None for a
       one-register operation; the cursor moves along this wire; no other edge's attributes are written;
  last edge  the edge into the output node gets a `control_target` entry as well (edge_match reads the key on every edge).
  Hence, with WF (C12: every edge lies on exactly one wire, every wire starts at a node of node_dict['Input']): after the call EVERY
  edge into a CNOT / CZ carries the role its register plays in that operation, and no stale annotation survives an edit.

What the recorded findings (bounded/C15.findings.md #1-#3) mean for this contract - they are NOT proved away here:
  #1 roles of classically controlled operations: for ClassicalCNOT / ClassicalCZ / MeasurementCNOTandReset the statement needs the
     same 'c' / 't' tags; the code tags both wires None.  The obligation `...edge-carries-the-role-tag` of the tasks
     `add_control_target_to_dag.step[next=ClassicalCNOT,...]` states the needed tag and is REFUTED on the unchanged tree = that finding
     (listed in props/C15.findings.md for the known-findings table);
  #2 parallel edges: the tags proved here are per edge and correct; `circuit_is_isomorphic.edge_match` looks at ONE of several
     parallel edges - that is a defect of the matcher callback, outside add_control_target_to_dag; no obligation here covers it;
  #3 wire crossing: the tag is the role at the HEAD of the edge only (that is what is proved); the role through which an edge LEAVES
     a two-register gate is recorded nowhere, so soundness of the isomorphism test does not follow from these tags. [B-only].
"""
from __future__ import annotations

import ast

import z3

from pyvc import source, symgraph as SG
from pyvc.interp import Interp, Engine, explore, RaiseEx, Undecided, ReturnEx, BreakEx, ContinueEx, PathEnd, Frame
from pyvc.loops import assigned_names
from pyvc.values import Obj, Opaque, Builtin, FuncRef, is_sym, to_z3
from pyvc.contract import Contract
from . import compile_stab as CS

CMP = "graphiq.utils.circuit_comparison"
CDAG = "graphiq.circuit.circuit_dag"
DIRECT = f"{CMP}:direct"
ANNOT = f"{CMP}:add_control_target_to_dag"


# ------------------------------------------------------------------------------------------ unconstrained values
def any_value(label):
    return Opaque("any", label)


def is_any(v):
    return isinstance(v, Opaque) and v.tag == "any"


def _fresh_bool(interp, what):
    return interp.path.fresh(f"any_{what}", "bool")


def hooks(extra_getattr=None):
    """symgraph hooks + the semantics of unconstrained (`any`) values and of the node lists of a circuit"""
    h = SG.install({"instantiate": CS.abstract_noise_instantiate})
    g0, i0, c0, l0, cmp0 = h["getattr"], h["getitem"], h["contains"], h["len"], h["compare"]

    def getattr_(interp, obj, attr):
        if is_any(obj):
            return Builtin(f"any.{attr}", lambda i, *a, **k: any_value(f"{obj.payload}.{attr}()"))
        if isinstance(obj, SG.SymGraph) and attr == "graph":
            return interp.path.ghost.setdefault("dag.graph", {}).setdefault(id(obj), any_value("dag.graph"))
        if extra_getattr is not None:
            r = extra_getattr(interp, obj, attr)
            if r is not NotImplemented:
                return r
        return g0(interp, obj, attr)

    def getitem(interp, obj, key):
        if is_any(obj):
            return any_value(f"{obj.payload}[..]")
        if isinstance(obj, SG.SymGraph):  # G[u] -> adjacency view
            return Opaque("nx.adj1", (obj, key))
        if isinstance(obj, Opaque) and obj.tag == "nx.adj1":
            return Opaque("nx.adj2", (obj.payload[0], obj.payload[1], key))
        if isinstance(obj, Opaque) and obj.tag == "nx.adj2":
            g, u, v = obj.payload
            ex = g.find_edge(interp, (u, v, key))
            if ex is None:
                raise RaiseEx("KeyError", f"edge {u}->{v} key {key}")
            interp.path.ghost.setdefault("edge_attr_reads", []).append(ex)
            return ex[3]
        return i0(interp, obj, key)

    def setitem(interp, obj, key, v):
        if is_any(obj):
            return True  # an update of an unconstrained container leaves it unconstrained
        return False

    def contains(interp, container, item):
        if is_any(container):
            return _fresh_bool(interp, "contains")
        if isinstance(container, Opaque) and container.tag == "node-list":
            # WF (C12): the output nodes are exactly the nodes named '<type><register>_out', the input nodes '<type><register>_in';
            # operation nodes have integer ids
            suffix = "_out" if container.payload == "Output" else "_in"
            if isinstance(item, SG.Templ):
                return item.lits[-1] == suffix
            if isinstance(item, str):
                return item.endswith(suffix)
            return False
        return c0(interp, container, item)

    def len_(interp, x):
        if is_any(x):
            n = interp.path.fresh("any_len")
            interp.path.assume(n >= 0)
            return n
        return l0(interp, x)

    def compare(interp, op, a, b):
        if is_any(a) or is_any(b):
            return _fresh_bool(interp, "compare")
        return cmp0(interp, op, a, b)

    def truth(interp, v):
        if is_any(v):
            return interp.path.decide(_fresh_bool(interp, "truth"))
        raise Undecided("truth of opaque")

    h.update({"getattr": getattr_, "getitem": getitem, "setitem": setitem, "contains": contains, "len": len_, "compare": compare,
              "truth": truth})
    return h


def _havoc_locals(env, body, keep):
    """every local the loop body assigns, and every local that holds a mutable container, becomes unconstrained"""
    written = assigned_names(body)
    for nm_, v in list(env.items()):
        if nm_ in keep or nm_ == "__parent__":
            continue
        if nm_ in written or isinstance(v, (set, list, dict)) or is_any(v):
            env[nm_] = any_value(nm_)


def _region_with_input_loop(func_node):
    """the statement list of the function that contains the `for ... in circuit1.node_dict['Input']` loop"""
    todo = [func_node.body]
    while todo:
        stmts = todo.pop()
        for s in stmts:
            if isinstance(s, ast.For) and "node_dict['Input']" in ast.unparse(s.iter):
                return stmts, s
            for fld in ("body", "orelse"):
                sub = getattr(s, fld, None)
                if isinstance(sub, list) and sub and isinstance(sub[0], ast.stmt):
                    todo.append(sub)
    return None, None


def _b(x):
    return z3.BoolVal(x) if isinstance(x, bool) else x


def star_imports(m):
    """`from graphiq.x import *` (pyvc/source.py records only named imports): bind every public top-level function / class / import of
    the graphiq module x that the importing module does not define itself - Python's semantics when x has no __all__ (checked)"""
    for node in m.tree.body:
        if isinstance(node, ast.ImportFrom) and node.module and node.module.startswith("graphiq") and any(a.name == "*" for a in node.names):
            sub = source.module(node.module)
            if "__all__" in sub.globals_ast:
                raise Undecided(f"star import from {node.module}, which defines __all__")
            for nm_ in list(sub.funcs) + list(sub.classes):
                if not nm_.startswith("_") and nm_ not in m.funcs and nm_ not in m.classes and nm_ not in m.imports:
                    m.imports[nm_] = ("from", node.module, nm_)
    return m


# ------------------------------------------------------------------------------------------ direct(): the walk
class DirectWalkTask:
    def __init__(self, k1, k2, other1=False, other2=False, label=None, wrong=None):
        self.k1, self.k2, self.o1, self.o2, self.wrong = k1, k2, other1, other2, wrong
        self.qual = DIRECT
        self.label = label or f"direct.walk-invariant[next1={k1},next2={k2},fanout={other1}{other2}]"
        self.contract = Contract(DIRECT, clause="loop invariant of the register-by-register walk: every step, from ANY remembered state, either "
                                                 "returns False on a mismatch or moves both cursors along this wire and has compared the two next "
                                                 "operations (class, q_registers, q_registers_type)")

    def run(self):
        eng = Engine(10000)
        L = self.label
        m, node, _ = source.find(DIRECT)
        star_imports(m)
        stmts, for_node = _region_with_input_loop(node)
        if stmts is None:
            eng.record(f"{L}:supported-subset", "undecided", 0, "direct() no longer has a loop over circuit1.node_dict['Input']", None)
            return eng
        whiles = [n for n in ast.walk(for_node) if isinstance(n, ast.While)]
        if len(whiles) != 1:
            eng.record(f"{L}:supported-subset", "undecided", 0, "the input-wire loop no longer contains exactly one while loop", None)
            return eng

        def harness(path):
            t = "e"
            r = z3.Int("wire_reg")
            path.assume(r >= 0)
            reg = SG.mk_templ(("", "", ""), (t, r))
            in_name = SG.mk_templ(("", "", "_in"), (t, r))
            out_name = SG.mk_templ(("", "", "_out"), (t, r))
            G = {}

            def while_hook(interp, wnode):
                fr = interp.stack[-1]
                env = fr.env
                # ---- init: WALK holds at loop entry (both cursors at the wire's input node, reg / out_node name this wire)
                init = z3.And(_b(SG.eq_term(interp, env.get("node1"), in_name)), _b(SG.eq_term(interp, env.get("node2"), in_name)),
                              _b(SG.eq_term(interp, env.get("reg"), reg)), _b(SG.eq_term(interp, env.get("out_node"), out_name)))
                path.oblige(f"{L}:walk.init.cursors-start-at-the-input-node-of-this-wire", init)
                extra = assigned_names(wnode.body) - {"node1", "node2"}
                # ---- the exit state: both cursors at the output node
                if path.decide(path.fresh("walk_at_output", "bool")):
                    _havoc_locals(env, wnode.body, keep={"circuit1", "circuit2", "reg", "out_node", "in_node"})
                    env["node1"], env["node2"] = out_name, out_name
                    if interp.truth(interp.eval(wnode.test)):
                        path.engine.record(f"{L}:walk.exit.loop-stops-at-the-output-node", "refuted", 0, "", None)
                        raise PathEnd()
                    path.engine.record(f"{L}:walk.exit.loop-stops-at-the-output-node", "discharged", 0, "", None)
                    return True
                # ---- an arbitrary step
                _havoc_locals(env, wnode.body, keep={"circuit1", "circuit2", "reg", "out_node", "in_node"})
                env["node1"], env["node2"] = G["cur"][0], G["cur"][1]
                if not interp.truth(interp.eval(wnode.test)):
                    raise PathEnd()
                outcome = "continues"
                try:
                    interp.exec_block(wnode.body)
                except ContinueEx:
                    pass
                except BreakEx:
                    outcome = "break"
                except ReturnEx as rx:
                    outcome = ("return", rx.value)
                o1, o2 = G["ops"]
                regs_eq = SG.eq_term(interp, interp.getattr(o1, "q_registers"), interp.getattr(o2, "q_registers"))
                types_eq = interp.getattr(o1, "q_registers_type") == interp.getattr(o2, "q_registers_type")
                agree = z3.And(z3.BoolVal(bool(self.k1 == self.k2 and types_eq)), _b(regs_eq))
                if self.wrong == "ignores-registers":
                    agree = z3.BoolVal(self.k1 == self.k2)
                if outcome == "break":
                    path.engine.record(f"{L}:walk.step.never-leaves-the-wire-by-break", "refuted", 0,
                                       "the step leaves the while loop before the output node: the rest of the wire is not compared", None)
                elif outcome == "continues":
                    path.oblige(f"{L}:walk.step.continues-only-after-comparing-equal-next-operations", agree)
                    path.oblige(f"{L}:walk.step.cursor1-follows-the-wire", _b(SG.eq_term(interp, env.get("node1"), G["next"][0])))
                    path.oblige(f"{L}:walk.step.cursor2-follows-the-wire", _b(SG.eq_term(interp, env.get("node2"), G["next"][1])))
                    path.oblige(f"{L}:walk.step.wire-names-kept", z3.And(_b(SG.eq_term(interp, env.get("reg"), reg)),
                                                                         _b(SG.eq_term(interp, env.get("out_node"), out_name))))
                else:
                    path.engine.record(f"{L}:walk.step.returned-value-is-False", "discharged" if outcome[1] is False else "refuted", 0,
                                       "" if outcome[1] is False else f"returns {outcome[1]!r} from inside the walk", None)
                    path.oblige(f"{L}:walk.step.returns-False-only-on-a-mismatch", z3.Not(agree))
                raise PathEnd()  # induction: the next step starts from a state covered by the havoc above

            def loop_hook(interp, fnode, it):
                if fnode is not for_node:
                    return False
                fr = interp.stack[-1]
                if not path.decide(path.fresh("another_wire", "bool")):
                    # all wires done: continue after the loop; whatever the loop body assigns is unknown afterwards
                    _havoc_locals(fr.env, fnode.body, keep={"circuit1", "circuit2"})
                    path.ghost["all_wires_walked"] = True
                    return True
                _havoc_locals(fr.env, fnode.body, keep={"circuit1", "circuit2"})
                interp.assign(fnode.target, in_name)
                try:
                    interp.exec_block(fnode.body)
                except ContinueEx:
                    pass
                except BreakEx:
                    path.engine.record(f"{L}:walk.wires.no-break-out-of-the-wire-loop", "refuted", 0, "", None)
                raise PathEnd()

            I = Interp(path, {}, {f"{CS.OPS}:*"}, dict(hooks(), **{"while": while_hook, "loop": loop_hook}))
            I.stack.append(Frame(m.name, {}, L))
            circs, cursors, nexts, ops_ = [], [], [], []
            for ci, (kind, other) in enumerate(((self.k1, self.o1), (self.k2, self.o2))):
                g = SG.SymGraph()
                cur, nxt = z3.Int(f"cur{ci}"), z3.Int(f"next{ci}")
                path.assume(z3.And(cur >= 1, nxt >= 1, cur != nxt))
                syms = dict(n_p=z3.Int("n_p"), n_e=z3.Int("n_e"), n_c=z3.Int("n_c"), r=r, rt=t, c=r, ct=t, t=z3.Int(f"oreg{ci}"), tt="e",
                            creg=z3.Int(f"creg{ci}"))
                path.assume(syms["t"] != r)
                op_next = CS.make_op(I, kind, syms)
                g.nodes.append([in_name, {"op": CS.make_op(I, "Input", syms)}])
                g.nodes.append([cur, {"op": CS.make_op(I, "Hadamard", syms)}])
                g.nodes.append([nxt, {"op": op_next}])
                g.closed += [cur, in_name]
                first = z3.Int(f"first{ci}")
                path.assume(first >= 1)
                g.nodes.append([first, {"op": CS.make_op(I, "Hadamard", syms)}])
                g.edges.append([in_name, first, reg, {"reg": r, "reg_type": t}])
                if other:  # the current node also sits on another wire: a second outgoing edge with another key, listed FIRST
                    oth = z3.Int(f"other{ci}")
                    path.assume(z3.And(oth >= 1, oth != cur))
                    g.nodes.append([oth, {"op": CS.make_op(I, "Hadamard", syms)}])
                    g.edges.append([cur, oth, SG.mk_templ(("", "", ""), ("e", syms["t"])), {"reg": syms["t"], "reg_type": "e"}])
                g.edges.append([cur, nxt, reg, {"reg": r, "reg_type": t}])
                c = Obj(I.get_class(CDAG, "CircuitDAG"))
                c.fields["dag"] = g
                c.fields["node_dict"] = {"Input": Opaque("node-list", "Input"), "Output": Opaque("node-list", "Output")}
                circs.append(c)
                cursors.append(cur)
                nexts.append(nxt)
                ops_.append(op_next)
            G.update(cur=cursors, next=nexts, ops=ops_)
            fr = Frame(m.name, {"circuit1": circs[0], "circuit2": circs[1]}, "direct")
            I.stack.append(fr)
            try:
                I.exec_block(stmts)
                ret = ("fell-through", None)
            except ReturnEx as rx:
                ret = ("return", rx.value)
            except RaiseEx as e:
                eng.record(f"{L}:no-raise", "refuted", 0, f"raises {e.exc_name}: {e.msg}", None)
                return
            eng.record(f"{L}:no-raise", "discharged", 0, "", None)
            ok = bool(path.ghost.get("all_wires_walked")) and ret == ("return", True)
            eng.record(f"{L}:walk.exit.returns-True-exactly-after-all-wires-were-walked", "discharged" if ok else "refuted", 0,
                       "" if ok else f"region ends with {ret!r}; all wires walked: {bool(path.ghost.get('all_wires_walked'))}", None)

        try:
            explore(eng, harness)
        except Undecided as u:
            eng.record(f"{L}:supported-subset", "undecided", 0, f"{u}", None)
        for r_ in eng.results.values():
            r_.witness, r_.replayed = None, False
        return eng


# ------------------------------------------------------------------------------------------ add_control_target_to_dag
ROLE_KINDS = {
    # next operation on the wire -> (constructor kind, role of the walked register, expected tag)
    "Hadamard": ("Hadamard", None, None),
    "MeasurementZ": ("MeasurementZ", None, None),
    "CNOT.control": ("CNOT", "c", "c"), "CNOT.target": ("CNOT", "t", "t"),
    "CZ.control": ("CZ", "c", "c"), "CZ.target": ("CZ", "t", "t"),
}
FINDING_KINDS = {
    "ClassicalCNOT.control": ("ClassicalCNOT", "c", "c"), "ClassicalCNOT.target": ("ClassicalCNOT", "t", "t"),
    "ClassicalCZ.control": ("ClassicalCZ", "c", "c"), "ClassicalCZ.target": ("ClassicalCZ", "t", "t"),
    "MeasurementCNOTandReset.control": ("MeasurementCNOTandReset", "c", "c"),
    "MeasurementCNOTandReset.target": ("MeasurementCNOTandReset", "t", "t"),
}


class AnnotateTask:
    """add_control_target_to_dag(circuit), whole function, arbitrary wire (t, r), arbitrary position cur -> nxt -> nn on it"""

    def __init__(self, kind, t="e", other_type="e", label=None, wrong=None, table=None):
        self.kind, self.t, self.ot, self.wrong = kind, t, other_type, wrong
        self.spec = (table or {**ROLE_KINDS, **FINDING_KINDS})[kind]
        self.qual = ANNOT
        self.label = label or f"add_control_target_to_dag.step[next={kind},wire={t},other={other_type}]"
        self.contract = Contract(ANNOT, clause="after the call every edge into a controlled two-register operation carries the role ('c' / 't') "
                                                "of its register in that operation, one-register operations get None, the edge into the output "
                                                "node is tagged too; no return before every input wire was walked; stale tags are overwritten")

    def run(self):
        eng = Engine(10000)
        L = self.label
        m, node, _ = source.find(ANNOT)
        star_imports(m)
        cons, role, want = self.spec
        if self.wrong == "roles-swapped" and want is not None:
            want = {"c": "t", "t": "c"}[want]

        def harness(path):
            t = self.t
            r = z3.Int("wire_reg")
            oreg = z3.Int("other_reg")
            path.assume(z3.And(r >= 0, oreg >= 0))
            if self.ot == t:
                path.assume(oreg != r)
            reg = SG.mk_templ(("", "", ""), (t, r))
            oreg_key = SG.mk_templ(("", "", ""), (self.ot, oreg))
            in_name = SG.mk_templ(("", "", "_in"), (t, r))
            out_name = SG.mk_templ(("", "", "_out"), (t, r))
            G = {}

            def while_hook(interp, wnode):
                fr = interp.stack[-1]
                env = fr.env
                g = G["g"]
                init = z3.And(_b(SG.eq_term(interp, env.get("node"), in_name)), _b(SG.eq_term(interp, env.get("next_node"), G["first"])),
                              _b(SG.eq_term(interp, env.get("label"), reg)), z3.BoolVal(env.get("op") is G["in_op"]),
                              _b(SG.eq_term(interp, env.get("register"), r)), z3.BoolVal(env.get("reg_type") == t))
                path.oblige(f"{L}:annot.init.cursor-starts-on-the-first-edge-of-this-wire", init)
                keep = {"circuit", "reg_type", "register"}
                if path.decide(path.fresh("annot_at_last_edge", "bool")):
                    # exit state: node = an arbitrary node of the wire, next_node = the output node
                    # (in this state the successor of `cur` on the wire is the output node: the fragment's edge cur -> nxt is replaced)
                    _havoc_locals(env, wnode.body, keep=keep)
                    g.edges.remove(G["edge_in"])
                    g.edges.append(G["edge_out"])
                    env.update(node=G["cur"], next_node=out_name, label=reg, op=G["cur_op"])
                    if interp.truth(interp.eval(wnode.test)):
                        path.engine.record(f"{L}:annot.exit.loop-stops-at-the-output-node", "refuted", 0, "", None)
                        raise PathEnd()
                    path.engine.record(f"{L}:annot.exit.loop-stops-at-the-output-node", "discharged", 0, "", None)
                    path.ghost["at_last_edge"] = True
                    return True
                _havoc_locals(env, wnode.body, keep=keep)
                env.update(node=G["cur"], next_node=G["nxt"], label=reg, op=G["cur_op"])
                if not interp.truth(interp.eval(wnode.test)):
                    path.engine.record(f"{L}:annot.step.loop-continues-at-an-operation-node", "refuted", 0, "", None)
                    raise PathEnd()
                before = {id(e): dict(e[3]) for e in g.edges}
                try:
                    interp.exec_block(wnode.body)
                except ContinueEx:
                    pass
                except (BreakEx, ReturnEx):
                    path.engine.record(f"{L}:annot.step.never-leaves-the-wire-early", "refuted", 0, "break / return inside the annotation walk", None)
                    raise PathEnd()
                e_in = G["edge_in"]
                has = "control_target" in e_in[3] and not (isinstance(e_in[3]["control_target"], Opaque) and e_in[3]["control_target"].tag == "stale-tag")
                got = e_in[3].get("control_target")
                path.engine.record(f"{L}:annot.step.edge-is-tagged-(stale-tag-overwritten)", "discharged" if has else "refuted", 0,
                                   "" if has else f"the edge into the next operation keeps {got!r}", None)
                if has:
                    ok = (got is None and want is None) or (isinstance(got, str) and got == want)
                    path.engine.record(f"{L}:annot.step.edge-carries-the-role-tag", "discharged" if ok else "refuted", 0,
                                       "" if ok else f"edge of register ({t}, wire_reg) into {cons} (its {role or 'only'} register) is tagged {got!r}, "
                                                     f"the statement needs {want!r}", None)
                others = [e for e in g.edges if e is not e_in and e[3] != before[id(e)]]
                path.engine.record(f"{L}:annot.step.no-other-edge-is-written", "discharged" if not others else "refuted", 0,
                                   "" if not others else f"also written: {[(str(e[0]), str(e[1]), str(e[2])) for e in others]}", None)
                path.oblige(f"{L}:annot.step.cursor-follows-the-wire",
                            z3.And(_b(SG.eq_term(interp, env.get("node"), G["nxt"])), _b(SG.eq_term(interp, env.get("next_node"), G["nn"])),
                                   _b(SG.eq_term(interp, env.get("label"), reg))))
                inv_op = env.get("op") is G["nxt_op"]
                path.engine.record(f"{L}:annot.step.op-is-the-operation-at-the-cursor", "discharged" if inv_op else "refuted", 0, "", None)
                path.oblige(f"{L}:annot.step.wire-identity-kept", z3.And(_b(SG.eq_term(interp, env.get("register"), r)),
                                                                         z3.BoolVal(env.get("reg_type") == t)))
                raise PathEnd()

            def loop_hook(interp, fnode, it):
                if not (isinstance(it, Opaque) and it.tag == "node-list" and it.payload == "Input"):
                    return False
                fr = interp.stack[-1]
                if not path.decide(path.fresh("another_wire", "bool")):
                    _havoc_locals(fr.env, fnode.body, keep={"circuit"})
                    path.ghost["all_wires_walked"] = True
                    return True
                _havoc_locals(fr.env, fnode.body, keep={"circuit"})
                interp.assign(fnode.target, in_name)
                try:
                    interp.exec_block(fnode.body)
                except ContinueEx:
                    pass
                except BreakEx:
                    path.engine.record(f"{L}:annot.wires.no-break-out-of-the-wire-loop", "refuted", 0, "", None)
                    raise PathEnd()
                if path.ghost.get("at_last_edge"):
                    e_out = G["edge_out"]
                    got = e_out[3].get("control_target", Opaque("missing"))
                    ok = got is None or isinstance(got, str)
                    path.engine.record(f"{L}:annot.last-edge.edge-into-the-output-node-is-tagged", "discharged" if ok else "refuted", 0,
                                       "" if ok else f"the last edge keeps {got!r}", None)
                raise PathEnd()

            I = Interp(path, {}, {f"{CS.OPS}:*", f"{CMP}:_create_edge_control_target_attr", f"{CDAG}:CircuitDAG.edge_from_reg"},
                       dict(hooks(), **{"while": while_hook, "loop": loop_hook}))
            I.task_name = ANNOT
            I.stack.append(Frame(m.name, {}, L))
            g = SG.SymGraph()
            cur, nxt, nn, first = z3.Int("cur"), z3.Int("nxt"), z3.Int("nn"), z3.Int("first")
            path.assume(z3.And(cur >= 1, nxt >= 1, nn >= 1, first >= 1, z3.Distinct(cur, nxt, nn)))
            base = dict(n_p=z3.Int("n_p"), n_e=z3.Int("n_e"), n_c=z3.Int("n_c"), creg=z3.Int("creg"))
            one = dict(base, r=r, rt=t, c=r, ct=t, t=oreg, tt=self.ot)
            if role == "t":
                two = dict(base, r=r, rt=t, c=oreg, ct=self.ot, t=r, tt=t)
            else:
                two = dict(base, r=r, rt=t, c=r, ct=t, t=oreg, tt=self.ot)
            in_op = CS.make_op(I, "Input", one)
            cur_op = CS.make_op(I, "Hadamard", one)
            nxt_op = CS.make_op(I, cons, two)
            stale = lambda: Opaque("stale-tag")  # noqa: E731
            g.nodes += [[in_name, {"op": in_op}], [cur, {"op": cur_op}], [nxt, {"op": nxt_op}], [nn, {"op": CS.make_op(I, "Hadamard", one)}],
                        [first, {"op": CS.make_op(I, "Hadamard", one)}], [out_name, {"op": CS.make_op(I, "Output", one)}]]
            g.closed += [in_name, cur, nxt]
            edge_first = [in_name, first, reg, {"reg": r, "reg_type": t, "control_target": stale()}]
            g.edges.append(edge_first)
            if role is not None:
                # the two-register operation also sits on the other wire: its edges are listed FIRST (selection must go by key)
                op_prev, op_next = z3.Int("oprev"), z3.Int("onext")
                path.assume(z3.And(op_prev >= 1, op_next >= 1, z3.Distinct(op_prev, op_next, cur, nxt, nn)))
                g.nodes += [[op_prev, {"op": CS.make_op(I, "Hadamard", one)}], [op_next, {"op": CS.make_op(I, "Hadamard", one)}]]
                g.edges.append([op_prev, nxt, oreg_key, {"reg": oreg, "reg_type": self.ot, "control_target": stale()}])
                g.edges.append([nxt, op_next, oreg_key, {"reg": oreg, "reg_type": self.ot, "control_target": stale()}])
            edge_in = [cur, nxt, reg, {"reg": r, "reg_type": t, "control_target": stale()}]
            edge_nn = [nxt, nn, reg, {"reg": r, "reg_type": t, "control_target": stale()}]
            edge_out = [cur, out_name, reg, {"reg": r, "reg_type": t, "control_target": stale()}]
            g.edges += [edge_in, edge_nn]
            G.update(g=g, cur=cur, nxt=nxt, nn=nn, first=first, in_op=in_op, cur_op=cur_op, nxt_op=nxt_op, edge_in=edge_in, edge_out=edge_out)
            c = Obj(I.get_class(CDAG, "CircuitDAG"))
            c.fields["dag"] = g
            c.fields["node_dict"] = {"Input": Opaque("node-list", "Input"), "Output": Opaque("node-list", "Output")}
            try:
                I.call_function(FuncRef(m.name, node, ANNOT, None), [c], {}, force_body=True)
            except RaiseEx as e:
                eng.record(f"{L}:no-raise", "refuted", 0, f"raises {e.exc_name}: {e.msg}", None)
                return
            eng.record(f"{L}:no-raise", "discharged", 0, "", None)
            ok = bool(path.ghost.get("all_wires_walked"))
            eng.record(f"{L}:post.every-input-wire-was-walked", "discharged" if ok else "refuted", 0,
                       "" if ok else "the function returns normally without having run the annotation loop over circuit.node_dict['Input'] "
                                     "(the stale control_target tags of the fragment survive)", None)

        try:
            explore(eng, harness)
        except Undecided as u:
            eng.record(f"{L}:supported-subset", "undecided", 0, f"{u}", None)
        for r_ in eng.results.values():
            r_.witness, r_.replayed = None, False
            if r_.status == "refuted" and r_.name.endswith("annot.step.edge-carries-the-role-tag") and role is not None:
                try:
                    r_.witness, r_.replayed = native_role_witness(cons, role, want)
                except Exception as e:  # noqa: BLE001
                    r_.witness = {"replay_error": f"{type(e).__name__}: {e}"}
        return eng


def native_role_witness(cons, role, want):
    """the REAL add_control_target_to_dag on `H e0; <cons>(control e0 -> target e1)`: the tag on the edge of the control / target wire
    into that operation"""
    from pyvc import schema
    from graphiq.circuit.circuit_dag import CircuitDAG
    import graphiq.circuit.ops as gops

    c = CircuitDAG(n_emitter=2, n_classical=1)
    c.add(gops.Hadamard(register=0, reg_type="e"))
    kw = dict(control=0, control_type="e", target=1, target_type="e")
    if cons.startswith("Classical") or cons == "MeasurementCNOTandReset":
        kw["c_register"] = 0
    c.add(getattr(gops, cons)(**kw))
    schema.real_callable(ANNOT)(c)
    node = [n for n in c.dag.nodes if type(c.dag.nodes[n]["op"]).__name__ == cons][0]
    key = "e0" if role == "c" else "e1"
    tags = {k: d.get("control_target", "<missing>") for _, _, k, d in c.dag.in_edges(node, keys=True, data=True)}
    wit = {"function": ANNOT, "args": {"circuit": f"CircuitDAG(n_emitter=2, n_classical=1): H e0; {cons}(control e0, target e1, c_register 0)"},
           "actual": {"control_target tags of the edges into the operation, by wire": {k: repr(v) for k, v in tags.items()}},
           "expected": f"edge {key} tagged {want!r}"}
    return wit, tags.get(key) != want


# ------------------------------------------------------------------------------------------ task lists
OPKINDS = ["Hadamard", "CNOT", "MeasurementZ", "ClassicalCNOT", "Output"]


def tasks():
    T = []
    for k1 in OPKINDS:
        for k2 in OPKINDS:
            T.append(DirectWalkTask(k1, k2))
    for k in ("Hadamard", "CNOT"):
        T.append(DirectWalkTask(k, k, True, False))
        T.append(DirectWalkTask(k, k, True, True))
    for kind in ROLE_KINDS:
        T.append(AnnotateTask(kind, "e", "e"))
    T.append(AnnotateTask("CNOT.control", "e", "p"))
    T.append(AnnotateTask("CNOT.target", "p", "e"))
    return T


def finding_tasks():
    """obligations that state what the property needs and are REFUTED on the unchanged tree: recorded finding C15 #1"""
    return [AnnotateTask(kind, "e", "e") for kind in FINDING_KINDS]


def canary_tasks():
    return [
        DirectWalkTask("CNOT", "CNOT", label="canary.direct.walk.registers-not-compared", wrong="ignores-registers"),
        AnnotateTask("CNOT.control", label="canary.add_control_target_to_dag.roles-swapped", wrong="roles-swapped"),
    ]


# ------------------------------------------------------------------------------------------ wiring (props/C15.py)
def extend_deductive(d):
    from pyvc.driver import run_tasks, merge
    from contracts.tasks_stab import canary_summary

    from . import cmp_filters as CF

    d2 = run_tasks(tasks() + finding_tasks() + CF.tasks())
    can = run_tasks(canary_tasks() + CF.canary_tasks())
    out = merge(d, d2)
    from . import cmp_callbacks as CB

    for o in CB.obligations():
        out.obligations.append(o)
        f = out.functions.setdefault(o.function, {"sha256": source.sha_of(o.function), "tasks": ["static"], "obligations": 0, "discharged": 0,
                                                  "solver_ms": 0.0, "paths": 0, "status": "F"})
        f["obligations"] += 1
        f["discharged"] += o.status == "discharged"
    out.errors.extend(can.errors)
    out.canaries = list(out.canaries) + canary_summary(can)
    for c in out.canaries:
        if c["refuted"] and not c["replayed"]:
            out.notes.append(f"canary {c['name']} refuted (step contract on a symbolic graph fragment / relation over an uninterpreted "
                             "comparison verdict: the counter-model is not a whole circuit; not replayed)")
    out.dropped = list(out.dropped) + [
        "direct(): the statement list that contains the loop over circuit1.node_dict['Input'] is extracted (copies, unwrap_nodes, "
        "remove_identity, register / node-count tests in front of it: contracts/moves_static.py static checks and C13)"]
    out.trusted_base = [t for t in out.trusted_base if not t.startswith("[B-only] the wire walk of direct()")] + [
        "[rule] havoc + invariant for the walk of direct() and for add_control_target_to_dag (contracts/cmp_walk.py): every local that "
        "the loop body assigns or that holds a mutable container is unconstrained at the arbitrary step",
        "[A] symbolic fragment of networkx.MultiDiGraph (pyvc/symgraph.py) + G[u][v][key] = the attribute dict of that edge, G.graph = "
        "an arbitrary attribute dict; WF (C12): output / input nodes are exactly the '<type><register>_out' / '_in' names",
        "[F] circuit_is_isomorphic's node_match / edge_match callbacks on complete finite tables (contracts/cmp_callbacks.py); the "
        "order-insensitivity of edge_match on parallel edges is REFUTED = recorded finding #2",
        "[B-only] networkx's matcher and the soundness of circuit_is_isomorphic as a whole (finding #3 wire crossing: the tags cannot express "
        "through which register an edge leaves a two-register gate)",
        "[P over an uninterpreted verdict EQ, F over list sizes <= 4] remove_redundant_circuits, check_redundant_circuit, "
        "CircuitStorage.add_new_circuit / is_redundant (contracts/cmp_filters.py): every dropped circuit was reported equal to a kept one, "
        "kept ones pairwise reported different, comparisons on unwrapped identity-free copies, caller's circuits untouched; that "
        "'reported equal' implies 'equivalent' is the soundness of the comparison method (direct: walk invariant + T-wire; is_isomorphic: "
        "NOT sound, bounded/C15.findings.md)",
    ]
    out.notes.append("add_control_target_to_dag: the 6 obligations '...step[next=Classical*/MeasurementCNOTandReset...]:annot.step.edge-carries-the-role-tag' "
                     "state the tag the statement needs and are refuted on the unchanged tree: recorded finding C15 #1 (props/C15.findings.md)")
    return out
