"""C08 - stabilizer -> graph: state_rep_conversion._graph_finder, state_to_graph, _phase_correction (deductive part).

The property: "For every stabilizer state the state-to-graph conversion returns a graph together with single-qubit Clifford gates
that map the input state exactly, signs included, onto that graph's state."  What is brought under contract here is the part of
that chain which is NOT floating-point linear algebra:

_graph_finder(x_matrix, z_matrix, get_ops_data)          [P, symbolic n; int- and float-dtype arguments]  GraphFinderTask
   frame        the two argument arrays are not modified (entry-wise, skolem index) and no in-place callee ever receives an
                argument buffer: sla.row_reduction (row swaps / GF(2) row additions IN PLACE) runs on np.copy's of them whose
                contents at that moment equal the arguments'
   bookkeeping  every column operation applied to the working copy is recorded on the same qubits: the position list handed
                to sla.hadamard_transform (X/Z column exchange = H) IS the list returned as h_positions, it was computed by
                _position_finder from the row-reduced working X part, and hadamard_transform acts on the working pair that
                row_reduction returned;  the diagonal of Z X^-1 is cleared exactly at the positions returned as z_diag_pos
                (P_dag): the matrix the graph is built from has a zero diagonal and equals Z X^-1 off the diagonal, and
                z_diag_pos is the increasing enumeration of {i : (Z X^-1)[i,i] != 0} (filter theory, lemma FILTER)
   result       get_ops_data=True -> (graph, (h_positions, z_diag_pos)); False -> graph; the graph is nx.from_numpy_array of
                that matrix
   abrupt exits only the three certificate asserts (det odd / symmetric / X part became the identity) - permitted
   [N]          np.linalg.det / np.linalg.inv in floating point as a GF(2) inverse: modelled as an UNSPECIFIED 0/1 matrix (no
                claim); `@` with it: unspecified integer matrix.  So "the graph is LC-equivalent to the input" is NOT proved
                here (certificate asserts + bounded part).  _position_finder's choice of columns is not specified either
                (known finding C08-F3: it can never choose column 0) - it is a recorded call returning some position list.
state_to_graph(state)                                     [P, trace; symbolic n]  S2GTask, four input kinds
   works on a deep copy of the argument; _graph_finder sees the X / Z part of that copy (stabilizer half for a CliffordTableau),
   get_ops_data=True; gate list = [("H", p) for p in h_positions] + [("P_dag", p) for p in z_diag_pos] (element-wise, symbolic
   lengths); _phase_correction(tab, tableau(graph), <exactly that list>) is called on EVERY path - also when the list is empty -
   and its result is appended; returns (graph, tab, gates) in this order; graph / adjacency input: (graph, tableau(graph), [])
   (component order fixed by commit 39da741).
_phase_correction(tab1, tab2, gate_list)                  [P, trace + arithmetic; symbolic n]  PhaseTask
   T1 = canonical_form(tab1), T2 = canonical_form(tab2), T = canonical_form(run_circuit(copy of T1, gate_list)) - run_circuit never
   touches tab1/tab2 themselves; result = [("Z", i) for i ascending with z_ops[i] != 0], z_ops = X(T)^-1 (T2.phase - T.phase) mod 2.
   Graph-state formalism: Z_v anticommutes with exactly the generators that have an X on qubit v, so applying Z on the set s flips
   the signs X(T) s; the signs of T must become those of T2, hence s = X(T)^-1 (phase difference) - the code's rule.  In both
   callers T2 is a graph state's tableau and the gates map the generator GROUPS onto each other, so X(T) = I ([T-canon]: the
   canonical form of a tableau whose X part is invertible has X = I; assumed for the recorded canonical_form result, stated as
   the precondition "X(T) = I") and the rule reads: Z on qubit i  <=>  sign of generator K_i differs  (Z_i flips exactly K_i).
   Proved under that precondition, with np.linalg.det/inv of the IDENTITY matrix exact (det = 1, inverse = I; any other matrix:
   Undecided, [N]); afterwards every sign agrees (T.phase + X(T) z_ops = T2.phase mod 2, entry-wise).
"""
from __future__ import annotations

import ast

import z3

from pyvc import source, models, loops, gateseq as GS
from pyvc import symlist as SL
from pyvc.contract import Contract
from pyvc.interp import Interp, Engine, explore, RaiseEx, Undecided, PathEnd, Frame
from pyvc.loops import SeqLoop
from pyvc.symlist import SymList
from pyvc.trace import recorder, Token
from pyvc.values import NDArr, Obj, Opaque, Builtin, FuncRef, new_array, to_z3, as_int_term, concrete_int, is_sym
from pyvc import schema as S
from . import nxmodel as NX
from .common import STABF, TRANS, TAB, CTAB, LINALG, TABLEAU_ACCESSORS, mk_stabilizer, mk_clifford

SRC = "graphiq.backends.state_rep_conversion"
RC = "graphiq.backends.stabilizer.functions.rep_conversion"
GF = f"{SRC}:_graph_finder"
S2G = f"{SRC}:state_to_graph"
PHASE = f"{SRC}:_phase_correction"
POSF = f"{SRC}:_position_finder"
GST = f"{RC}:get_stabilizer_tableau_from_graph"
ROWRED = f"{LINALG}:row_reduction"
HADT = f"{LINALG}:hadamard_transform"
CANON = f"{STABF}:canonical_form"
RUNC = f"{TRANS}:run_circuit"


def chain(*dicts):
    """merge hook tables; hooks with the same name are tried in order (not mine = None / NotImplemented; for `loop` also False)"""
    out = {}
    for d in dicts:
        for k, h in d.items():
            if k not in out:
                out[k] = h
            else:
                prev = out[k]

                def both(*a, _p=prev, _h=h, _k=k, **kw):
                    r = _p(*a, **kw)
                    if r is None or r is NotImplemented or (_k == "loop" and r is False):
                        return _h(*a, **kw)
                    return r

                out[k] = both
    return out


# ------------------------------------------------------------------------------------------ small numpy models (additive)
def _np_diag(interp, a, k=0):
    if isinstance(a, NDArr) and a.ndim == 2 and concrete_int(k) == 0:
        models.used("np.diag of a matrix = vector of its diagonal entries (copy)")
        rd = a.reader()
        return new_array((a.shape[0],), lambda i: rd(i, i), "diag")
    raise Undecided("np.diag other than the diagonal of a 2-D array")


def _np_allclose(interp, a, b, *r, **k):
    models.used("np.allclose = unspecified Bool (floating-point tolerance test: no claim)")
    return interp.path.fresh("allclose", "bool")


models.NUMPY.setdefault("diag", _np_diag)
models.NUMPY.setdefault("allclose", _np_allclose)


def _bits_fn(tag, nargs):
    B = z3.Function(tag, *([z3.IntSort()] * nargs), z3.BoolSort())
    return lambda *i: z3.If(B(*[to_z3(x) for x in i]), z3.IntVal(1), z3.IntVal(0))


def _fresh_tag(I, base):
    c = I.path.counter.get(base, 0)
    I.path.counter[base] = c + 1
    return f"{base}!{c}"


# ------------------------------------------------------------------------------------------ float GF(2) inverse: [N]
class FloatVal(Opaque):
    """result of np.linalg.det / inv and of arithmetic on them: a floating-point quantity the deduction makes no claim about"""

    def __init__(self, kind, matrix):
        super().__init__("float-linalg", {"kind": kind})
        self.kind = kind
        self.matrix = matrix


def _is_identity(interp, m):
    if not (isinstance(m, NDArr) and m.ndim == 2):
        return False
    i, j = interp.path.fresh("idq"), interp.path.fresh("idq")
    n = to_z3(m.shape[0])
    st, _ms, _d, _m = interp.path.engine.check(interp.path.pc + [i >= 0, i < n, j >= 0, j < n, to_z3(m.shape[1]) == n],
                                               as_int_term(m.get(i, j)) == z3.If(i == j, 1, 0))
    return st == "discharged"


def linalg_external(exact_identity=False):
    def ext(interp, name, attr):
        if name != "numpy.linalg" or attr not in ("det", "inv"):
            return NotImplemented

        def f(i, m):
            if exact_identity:
                if not _is_identity(i, m):
                    raise Undecided(f"np.linalg.{attr} of a matrix that is not provably the identity: floating-point GF(2) inverse [N]")
                models.used("np.linalg.det / inv of the identity matrix: exactly 1 / the identity (IEEE: LU of I is exact)")
                if attr == "det":
                    return 1
                rd = m.reader()
                return new_array(m.shape, lambda a, b: rd(a, b), "inv-of-identity")
            models.used("np.linalg.det / inv (floating point) = unspecified value [N]")
            return FloatVal(attr, m)

        return Builtin("np.linalg." + attr, f)

    return ext


def float_binop(interp, op, a, b):
    if isinstance(a, FloatVal) or isinstance(b, FloatVal):
        fv = a if isinstance(a, FloatVal) else b
        other = b if fv is a else a
        if isinstance(other, (FloatVal, int, float)) or is_sym(other):
            m = fv.matrix if fv.kind != "det" or not isinstance(other, FloatVal) else other.matrix
            kind = "matrix" if "inv" in (fv.kind, getattr(other, "kind", "")) or "matrix" in (fv.kind, getattr(other, "kind", "")) else "scalar"
            return FloatVal(kind, m)
        raise Undecided("arithmetic between a floating-point linalg result and an array")
    return NotImplemented


def float_getattr(interp, obj, attr):
    if not isinstance(obj, FloatVal):
        return NotImplemented
    if attr == "astype":
        def astype(i, typ=None, *a, **k):
            if obj.kind in ("det", "scalar"):
                return i.path.fresh("float_as_int")
            sh = obj.matrix.shape
            return new_array(sh, _bits_fn(_fresh_tag(i, "gf2inv"), 2), "float-gf2-inverse[N]")
        return Builtin("astype", astype)
    raise Undecided(f"attribute {attr} of a floating-point linalg result")


def unspecified_matmul(interp, a, b):
    """`@` where one factor is the unspecified float GF(2) inverse: an integer matrix about which nothing is claimed"""
    if isinstance(a, NDArr) and isinstance(b, NDArr) and a.ndim == 2 and b.ndim == 2:
        models.used("A @ B with the unspecified float GF(2) inverse as a factor = unspecified integer matrix [N]")
        F = z3.Function(_fresh_tag(interp, "matprod"), z3.IntSort(), z3.IntSort(), z3.IntSort())
        return new_array((a.shape[0], b.shape[1]), lambda i, j: F(to_z3(i), to_z3(j)), "product[N]")
    return NotImplemented


# ------------------------------------------------------------------------------------------ [.. for i, d in enumerate(L) if c]
def enumerate_filter_hook(interp, elt, gens):
    """[i for i, d in enumerate(L) if c(d)]  /  [(<name>, i) for i, d in enumerate(L) if c(d)]  with L of symbolic length:
    the increasing enumeration (CNT(N), SEL) of {k < N : c(L[k])} (filter theory of pyvc/symlist.py, lemma FILTER assumed)"""
    if len(gens) != 1 or len(gens[0].ifs) != 1 or gens[0].is_async:
        return None
    g = gens[0]
    if not (isinstance(g.iter, ast.Call) and ast.unparse(g.iter.func) == "enumerate" and len(g.iter.args) == 1 and not g.iter.keywords
            and isinstance(g.target, ast.Tuple) and len(g.target.elts) == 2 and all(isinstance(e, ast.Name) for e in g.target.elts)):
        return None
    src = interp.eval(g.iter.args[0])
    if isinstance(src, NDArr) and src.ndim == 1:
        N, get = to_z3(src.shape[0]), src.get
    elif isinstance(src, SymList):
        N, get = to_z3(src.length), src.get
    else:
        return None
    if concrete_int(N) is not None:
        return None
    iname, dname = g.target.elts[0].id, g.target.elts[1].id
    gate = None
    if isinstance(elt, ast.Name) and elt.id == iname:
        pass
    elif isinstance(elt, ast.Tuple) and len(elt.elts) == 2 and isinstance(elt.elts[0], ast.Constant) and isinstance(elt.elts[0].value, str) \
            and isinstance(elt.elts[1], ast.Name) and elt.elts[1].id == iname and elt.elts[0].value in GS.CODE:
        gate = elt.elts[0].value
    else:
        raise Undecided("filtering enumerate-comprehension with an element other than the index / (<gate name>, index)")
    for n in ast.walk(g.ifs[0]):
        if isinstance(n, (ast.Call, ast.NamedExpr, ast.Lambda, ast.ListComp, ast.IfExp)):
            return None
    models.used("[i for i, d in enumerate(L) if c(d)] over a symbolic-length sequence = filtered index enumeration (lemma FILTER)")
    path, fr = interp.path, interp.stack[-1]
    env_now = dict(fr.env)

    def cond_at(k, quiet=True):
        cur = dict(fr.env)
        fr.env.clear()
        fr.env.update(env_now)
        fr.env[iname], fr.env[dname] = k, get(k)
        if quiet:
            path.quiet += 1
        interp.stack.append(fr)
        try:
            return interp.truth_term(interp.eval(g.ifs[0]))
        finally:
            interp.stack.pop()
            if quiet:
                path.quiet -= 1
            fr.env.clear()
            fr.env.update(cur)

    saved = len(path.pc)
    k0 = path.fresh("ck")
    path.assume(z3.And(k0 >= 0, k0 < N))
    cond_at(k0, quiet=False)
    del path.pc[saved:]
    tag = _fresh_tag(interp, "enumf")
    CNT, SEL = SL.filter_symbols(tag)
    p = lambda k: cond_at(to_z3(k))
    for f in SL.filter_facts(CNT, SEL, p, N, tag):
        path.assume(f)
    ps = GS.PosSeq(CNT(N), lambda m: SEL(to_z3(m)), tag)
    ps.filter = dict(CNT=CNT, SEL=SEL, p=p, N=N)
    path.ghost.setdefault("enum_filters", []).append(ps)
    if gate is None:
        return ps
    gs = GS.const_over(gate, ps)
    gs.filter = ps.filter
    return gs


def _first(*hooks):
    def h(interp, elt, gens):
        for hk in hooks:
            r = hk(interp, elt, gens)
            if r is not None:
                return r
        return None

    return h


# ------------------------------------------------------------------------------------------ _graph_finder
def _gf_recorders():
    R = {}

    def rowred(I, xm, zm):
        ev = {"name": "row_reduction", "args": [xm, zm], "self": None, "ret": None,
              "pre": (xm.reader() if isinstance(xm, NDArr) else None, zm.reader() if isinstance(zm, NDArr) else None)}
        I.path.trace.append(ev)
        for a, nm in ((xm, "rrX"), (zm, "rrZ")):  # row swaps and row additions IN PLACE: the contents become other bits
            if isinstance(a, NDArr):
                a.assign_from(_bits_fn(_fresh_tag(I, nm), a.ndim))
        rank = I.path.fresh("rank")
        I.path.assume(z3.And(rank >= 0, rank < to_z3(xm.shape[0])))
        ev["ret"] = (xm, zm, rank)
        return ev["ret"]

    R[ROWRED] = Contract(ROWRED, spec=rowred, clause="[A-recorder] row_reduction rewrites its two arguments in place (unspecified bits), returns "
                                                     "(x_matrix, z_matrix, rank) with 0 <= rank < rows (rank is dead in _graph_finder)")

    def posf(I, xm):
        ev = {"name": "_position_finder", "args": [xm], "self": None, "ret": None, "store": xm.store if isinstance(xm, NDArr) else None}
        I.path.trace.append(ev)
        ev["ret"] = GS.fresh_positions(I, "h_positions")
        return ev["ret"]

    R[POSF] = Contract(POSF, spec=posf, clause="[A-recorder] _position_finder reads its argument and returns some list of positions")

    def hadt(I, xm, zm, pos):
        ev = {"name": "hadamard_transform", "args": [xm, zm, pos], "self": None, "ret": (xm, zm)}
        I.path.trace.append(ev)
        for a, nm in ((xm, "htX"), (zm, "htZ")):  # exchanges the listed columns of X and Z IN PLACE
            if isinstance(a, NDArr):
                a.assign_from(_bits_fn(_fresh_tag(I, nm), a.ndim))
        return ev["ret"]

    R[HADT] = Contract(HADT, spec=hadt, clause="[A-recorder] hadamard_transform exchanges columns of its two arguments in place, returns them")
    return R


def _from_numpy_external(interp, name, attr):
    if name in ("networkx", "nx") and attr == "from_numpy_array":
        def f(i, m, *a, **k):
            g = Opaque("graph-of-matrix", {"matrix": m.snapshot() if isinstance(m, NDArr) else m})
            i.path.trace.append({"name": "from_numpy_array", "args": [m], "self": None, "ret": g})
            return g
        return Builtin("nx.from_numpy_array", f)
    return NotImplemented


def _diag_state(I, k, entry):
    r0 = entry.rd("final_z")
    return {entry["final_z"]: lambda i, j: z3.If(z3.And(to_z3(i) == to_z3(j), to_z3(i) < k), z3.IntVal(0), as_int_term(r0(i, j)))}


GF_LOOPS = [SeqLoop("_graph_finder", "i", "range(n_row)", state=_diag_state)]


class GraphFinderTask:
    def __init__(self, dtype, get_ops_data, label=None, timeout_ms=10000, claim_untouched=True):
        self.qual = GF
        self.dtype, self.ops = dtype, get_ops_data
        self.label = label or f"_graph_finder[{dtype} arguments, get_ops_data={get_ops_data}]"
        self.contract = Contract(GF, clause="frame: the argument matrices are not modified (in-place row reduction / column exchange run on "
                                            "copies); bookkeeping: the returned H positions are the columns exchanged on the working copy, the "
                                            "returned P_dag positions are exactly the cleared non-zero diagonal entries; result shape")
        self.timeout_ms = timeout_ms
        self.contracts = _gf_recorders()
        self.inline = set()
        self.claim_untouched = claim_untouched
        self.hooks = chain(GS.HOOKS, {"external": linalg_external(False), "binop": float_binop, "getattr": float_getattr,
                                      "matmul": unspecified_matmul, "comprehension": enumerate_filter_hook,
                                      "loop": loops.make_hook(GF_LOOPS), "permitted_asserts": lambda i, name, node: True},
                           {"external": _from_numpy_external})

    def run(self):
        eng = Engine(self.timeout_ms)
        m, node, cls = source.find(self.qual)
        lab = self.label

        def rec(name, ok, detail=""):
            eng.record(f"{lab}:{name}", "discharged" if ok else "refuted", 0, "" if ok else detail, None)
            return ok

        def harness(path):
            I = Interp(path, self.contracts, self.inline, dict(self.hooks))
            I.task_name = self.qual
            path.ghost["task"] = self.qual
            f = FuncRef(m.name, node, self.qual, None)
            I.stack.append(Frame(m.name, {}, lab))
            n = z3.Int("n")
            path.assume(n >= 1)
            X = S.NDInput("X", (n, n), dtype=self.dtype, bits=True).symbolic(I)
            Z = S.NDInput("Z", (n, n), dtype=self.dtype, bits=True).symbolic(I)
            X0, Z0 = X.reader(), Z.reader()
            path.trace = []
            try:
                ret = I.call_function(f, [X, Z, self.ops], {}, force_body=True)
            except RaiseEx as e:
                rec("no-raise", False, f"real body raises {e.exc_name}: {e.msg} (only the certificate asserts are permitted exits)")
                return
            rec("no-raise", True)
            tr = list(path.trace)
            names = [e["name"] for e in tr]
            want = ["row_reduction", "_position_finder", "hadamard_transform", "from_numpy_array"]
            if not rec("post.calls", names == want, f"recorded calls {names}, expected {want}"):
                return
            rr, pf, ht, fg = tr
            i, j = path.fresh("sk"), path.fresh("sk")
            rng = [i >= 0, i < n, j >= 0, j < n]
            # ---- frame
            for nm_, arr, r0 in (("x_matrix", X, X0), ("z_matrix", Z, Z0)):
                if self.claim_untouched:
                    path.oblige(f"{lab}:frame.{nm_}-not-modified", as_int_term(arr.get(i, j)) == as_int_term(r0(i, j)), extra=rng)
                else:  # canary: claims the argument IS rewritten
                    path.oblige(f"{lab}:frame.{nm_}-not-modified", as_int_term(arr.get(i, j)) != as_int_term(r0(i, j)), extra=rng)
            inplace_args = [a for e in (rr, ht) for a in e["args"][:2] if isinstance(a, NDArr)]
            rec("frame.in-place-callees-never-see-an-argument-buffer", all(a.store is not X.store and a.store is not Z.store for a in inplace_args),
                "sla.row_reduction / sla.hadamard_transform (in place) is applied to a buffer of the caller's x_matrix / z_matrix")
            # ---- the working copies start as the arguments
            wx, wz = rr["args"]
            ok = isinstance(wx, NDArr) and isinstance(wz, NDArr) and wx.ndim == 2 and wz.ndim == 2
            if not rec("post.row_reduction-on-two-matrices", ok):
                return
            px, pz = rr["pre"]
            path.oblige(f"{lab}:post.working-x-starts-as-x_matrix", z3.And(to_z3(wx.shape[0]) == n, to_z3(wx.shape[1]) == n,
                                                                        as_int_term(px(i, j)) == as_int_term(X0(i, j))), extra=rng)
            path.oblige(f"{lab}:post.working-z-starts-as-z_matrix", z3.And(to_z3(wz.shape[0]) == n, to_z3(wz.shape[1]) == n,
                                                                        as_int_term(pz(i, j)) == as_int_term(Z0(i, j))), extra=rng)
            # ---- bookkeeping of the Hadamards
            rec("post.h-positions-from-the-row-reduced-working-x", pf["store"] is rr["ret"][0].store,
                "_position_finder is not applied to the X part returned by row_reduction")
            ok = ht["args"][0].store is rr["ret"][0].store and ht["args"][1].store is rr["ret"][1].store
            rec("post.hadamards-act-on-the-working-pair", ok, "hadamard_transform is not applied to the (X, Z) pair returned by row_reduction")
            rec("post.columns-exchanged-are-the-positions-found", ht["args"][2] is pf["ret"],
                "hadamard_transform gets another position list than the one _position_finder returned")
            # ---- the graph matrix: zero diagonal, equal to the matrix product off the diagonal
            gm = fg["ret"].payload["matrix"]
            flt = path.ghost.get("enum_filters", [])
            ok = isinstance(gm, NDArr) and gm.ndim == 2 and len(flt) == 1
            if not rec("post.graph-from-a-matrix-and-one-diagonal-filter", ok, f"{len(flt)} filtering comprehension(s)"):
                return
            path.oblige(f"{lab}:post.graph-matrix.zero-diagonal", z3.And(to_z3(gm.shape[0]) == n, to_z3(gm.shape[1]) == n, as_int_term(gm.get(i, i)) == 0),
                        extra=rng[:2])
            fz = path.ghost.get("final_z_before")
            zpos = flt[0]
            k = path.fresh("sk")
            if fz is not None:
                path.oblige(f"{lab}:post.graph-matrix.off-diagonal-unchanged", as_int_term(gm.get(i, j)) == as_int_term(fz(i, j)), extra=rng + [i != j])
                path.oblige(f"{lab}:post.p_dag-positions.are-the-non-zero-diagonal-entries",
                            z3.And(zpos.filter["N"] == n, zpos.filter["p"](k) == (as_int_term(fz(k, k)) != 0)), extra=[k >= 0, k < n])
            else:
                rec("post.graph-matrix.off-diagonal-unchanged", False, "no matrix product (Z^T X^-1) % 2 was seen")
            # ---- result
            if self.ops:
                ok = isinstance(ret, tuple) and len(ret) == 2 and isinstance(ret[1], tuple) and len(ret[1]) == 2
                if rec("post.returns-(graph,(h,p_dag))", ok, repr(ret)):
                    rec("post.return.graph", ret[0] is fg["ret"], "not the graph built by nx.from_numpy_array")
                    rec("post.return.h_positions-are-the-exchanged-columns", ret[1][0] is ht["args"][2] and ret[1][0] is pf["ret"],
                        "the returned Hadamard positions are not the list the column exchange was done with")
                    rec("post.return.p_dag-positions-are-the-cleared-diagonal", ret[1][1] is zpos, "not the list of non-zero diagonal positions")
            else:
                rec("post.return.graph", ret is fg["ret"], f"returns {ret!r}")

        try:
            explore(eng, harness)
        except Undecided as u:
            eng.record(f"{lab}:supported-subset", "undecided", 0, f"{u}", None)
        for r in eng.results.values():
            r.witness, r.replayed = None, False
            if r.status == "refuted" and (":frame." in r.name or "working-" in r.name) and self.claim_untouched:
                w = native_frame_witness(self.dtype)
                if w is not None:
                    r.witness, r.replayed = w, True
            if r.status == "refuted" and not self.claim_untouched and ":frame." in r.name:
                w = native_frame_witness(self.dtype, want_modified=False)
                if w is not None:
                    r.witness, r.replayed = w, True
        return eng


def _snapshot_final_z_hook(interp, node, it):
    """wraps the diagonal loop: remembers the contents of final_z at loop entry (ghost `final_z_before`)"""
    fr = interp.stack[-1]
    if fr.func_name.split(".")[-1] == "_graph_finder" and ast.unparse(node.target) == "i" and isinstance(fr.env.get("final_z"), NDArr):
        interp.path.ghost["final_z_before"] = fr.env["final_z"].reader()
    return False


def native_frame_witness(dtype, want_modified=True, max_n=2):
    """smallest stabilizer tableau on which the REAL _graph_finder changes (want_modified) / keeps (not want_modified) its arguments"""
    import importlib
    import itertools

    import numpy as np

    mod = importlib.import_module(SRC)
    fallback = None
    for n in range(1, max_n + 1):
        for bits in itertools.product((0, 1), repeat=2 * n * n):
            x = np.array(bits[:n * n]).reshape(n, n).astype(float if dtype == "float" else int)
            z = np.array(bits[n * n:]).reshape(n, n).astype(float if dtype == "float" else int)
            x0, z0 = x.copy(), z.copy()
            outcome = "returns normally"
            try:
                mod._graph_finder(x, z, get_ops_data=True)
            except Exception as e:  # noqa: BLE001
                outcome = f"raises {type(e).__name__}: {e}"
            changed = not (np.array_equal(x, x0) and np.array_equal(z, z0))
            if changed == want_modified:
                w = {"function": GF, "args": {"x_matrix": {"dtype": dtype, "values": x0.tolist()}, "z_matrix": {"dtype": dtype, "values": z0.tolist()}},
                     "expected": "arguments unchanged after the call" if want_modified else "(canary) arguments rewritten",
                     "actual": {"x_matrix after": x.tolist(), "z_matrix after": z.tolist(), "call": outcome}}
                if outcome == "returns normally":  # prefer an input on which the conversion itself succeeds
                    return w
                fallback = fallback or w
    return fallback


def gf_tasks():
    T = []
    for dt in ("int", "float"):
        for ops in (True, False):
            t = GraphFinderTask(dt, ops)
            t.hooks = chain({"loop": _snapshot_final_z_hook}, t.hooks)
            T.append(t)
    return T


def gf_canaries():
    t = GraphFinderTask("int", True, label="canary._graph_finder.claims-the-arguments-are-rewritten", claim_untouched=False)
    t.hooks = chain({"loop": _snapshot_final_z_hook}, t.hooks)
    return [t]


# ------------------------------------------------------------------------------------------ state_to_graph
def _s2g_recorders():
    R = {}

    def gf(I, xm, zm, get_ops_data=False):
        g = NX.mk_graph(I.path.fresh("ng"), NX.simple_adj(_fresh_tag(I, "found")), "found")
        h, p = GS.fresh_positions(I, "h_pos"), GS.fresh_positions(I, "p_dag_pos")
        I.path.ghost["gf"] = dict(graph=g, h=h, p=p, x=xm.reader() if isinstance(xm, NDArr) else None,
                                  z=zm.reader() if isinstance(zm, NDArr) else None, xm=xm, zm=zm)
        return (g, (h, p)) if get_ops_data is True else g

    R[GF] = recorder(GF, "_graph_finder", result=gf)
    R[GST] = recorder(GST, "get_stabilizer_tableau_from_graph", result=lambda I, g: Opaque("graph-tableau", {"graph": g}))

    def pc(I, t1, t2, gl):
        s = GS.fresh_gates(I, "phase_correction", ("Z",))
        I.path.ghost["pc"] = dict(gates=s.copy(), arg=gl.copy() if isinstance(gl, GS.GateSeq) else (list(gl) if isinstance(gl, list) else gl))
        return s

    R[PHASE] = recorder(PHASE, "_phase_correction", result=pc)
    return R


S2G_INLINE = set(TABLEAU_ACCESSORS) | {f"{CTAB}:CliffordTableau.to_stabilizer", f"{TAB}:StabilizerTableau.__init__"}


class S2GTask:
    KINDS = ("StabilizerTableau", "CliffordTableau", "nx.Graph", "adjacency")

    def __init__(self, kind, label=None, timeout_ms=10000, always_corrects=True, h_first=True):
        self.qual = S2G
        self.h_first = h_first
        self.kind = kind
        self.label = label or f"state_to_graph[{kind}]"
        self.contract = Contract(S2G, clause="works on a deep copy; _graph_finder on the copy's X/Z part; gates = H list + P_dag list + the result of "
                                             "_phase_correction, which is called on EVERY path with exactly that list; returns (graph, tableau, gates)")
        self.timeout_ms = timeout_ms
        self.contracts = _s2g_recorders()
        self.inline = set(S2G_INLINE)
        self.always = always_corrects
        self.hooks = chain(GS.HOOKS, NX.HOOKS)

    def run(self):
        eng = Engine(self.timeout_ms)
        m, node, cls = source.find(self.qual)
        lab = self.label

        def rec(name, ok, detail=""):
            eng.record(f"{lab}:{name}", "discharged" if ok else "refuted", 0, "" if ok else detail, None)
            return ok

        def harness(path):
            I = Interp(path, self.contracts, self.inline, dict(self.hooks))
            I.task_name = self.qual
            path.ghost["task"] = self.qual
            f = FuncRef(m.name, node, self.qual, None)
            I.stack.append(Frame(m.name, {}, lab))
            n = z3.Int("n")
            path.assume(n >= 1)
            if self.kind == "StabilizerTableau":
                st = mk_stabilizer(I, "S", n)
            elif self.kind == "CliffordTableau":
                st = mk_clifford(I, "T", n)
            elif self.kind == "nx.Graph":
                st = NX.SimpleGraph("G", n).symbolic(I)
            else:
                st = NX.SimpleAdj("A", n).symbolic(I)
            tab0 = st.fields["_table"].reader() if isinstance(st, Obj) else None
            ph0 = st.fields["_phase"].reader() if isinstance(st, Obj) else None
            path.trace = []
            try:
                ret = I.call_function(f, [st], {}, force_body=True)
            except RaiseEx as e:
                rec("no-raise", False, f"real body raises {e.exc_name}: {e.msg}")
                return
            rec("no-raise", True)
            tr = list(path.trace)
            names = [e["name"] for e in tr]
            ok = isinstance(ret, tuple) and len(ret) == 3
            if not rec("post.returns-a-triple", ok, repr(ret)):
                return
            i, j = path.fresh("sk"), path.fresh("sk")
            if self.kind in ("nx.Graph", "adjacency"):
                rec("post.calls", names == ["get_stabilizer_tableau_from_graph"], f"recorded calls {names}")
                if names != ["get_stabilizer_tableau_from_graph"]:
                    return
                g = tr[0]["args"][0]
                ok = NX.is_graph(ret[0]) and ret[0] is g
                rec("post.return[0]-is-the-graph", ok, "first component is not the graph whose tableau is returned")
                if NX.is_graph(ret[0]):
                    adj = st.payload["adj"] if NX.is_graph(st) else st.reader()
                    path.oblige(f"{lab}:post.return[0]-has-the-input-adjacency",
                                z3.And(to_z3(ret[0].payload["n"]) == n, as_int_term(ret[0].payload["adj"](i, j)) == as_int_term(adj(i, j))),
                                extra=[i >= 0, i < n, j >= 0, j < n])
                rec("post.return[1]-is-the-graph-tableau", ret[1] is tr[0]["ret"], "second component is not get_stabilizer_tableau_from_graph(graph)")
                rec("post.return[2]-is-the-empty-gate-list", isinstance(ret[2], list) and ret[2] == [], f"third component {ret[2]!r}")
                return
            # ---- tableau inputs
            want = ["_graph_finder", "get_stabilizer_tableau_from_graph", "_phase_correction"]
            if self.always:
                if not rec("post.calls._graph_finder-tableau-_phase_correction-on-every-path", names == want,
                           f"recorded calls on this path: {names} (lengths of the H / P_dag lists: symbolic, this path's condition decides)"):
                    self._need_native = True
                    return
            elif names != want:
                rec("post.calls._graph_finder-tableau-_phase_correction-on-every-path", True)
                return
            G = path.ghost["gf"]
            gfev, gstev, pcev = tr
            rec("post._graph_finder.get_ops_data=True", len(gfev["args"]) >= 3 and gfev["args"][2] is True, f"args {gfev['args'][2:]}")
            rng = [i >= 0, i < n, j >= 0, j < n]
            off = n if self.kind == "CliffordTableau" else 0  # stabilizer half of a Clifford tableau: rows n..2n-1
            ok = G["x"] is not None and G["z"] is not None
            if rec("post._graph_finder.on-matrices", ok):
                path.oblige(f"{lab}:post._graph_finder.sees-the-X-part", z3.And(to_z3(G["xm"].shape[0]) == n, to_z3(G["xm"].shape[1]) == n,
                                                                             as_int_term(G["x"](i, j)) == as_int_term(tab0(i + off, j))), extra=rng)
                path.oblige(f"{lab}:post._graph_finder.sees-the-Z-part", z3.And(to_z3(G["zm"].shape[0]) == n, to_z3(G["zm"].shape[1]) == n,
                                                                             as_int_term(G["z"](i, j)) == as_int_term(tab0(i + off, j + n))), extra=rng)
                own = {id(v.store) for v in st.fields.values() if isinstance(v, NDArr)}
                rec("frame._graph_finder-gets-the-copy-not-the-argument", id(G["xm"].store) not in own and id(G["zm"].store) not in own,
                    "a buffer of the caller's tableau is handed on")
            rec("post.tableau-of-the-found-graph", gstev["args"][0] is G["graph"], "get_stabilizer_tableau_from_graph is not applied to the graph found")
            tab = ret[1]
            ok = isinstance(tab, Obj) and tab.cls.name == "StabilizerTableau" and tab is not st
            if rec("post.return[1]-is-a-StabilizerTableau-copy", ok, repr(tab)):
                path.oblige(f"{lab}:post.return[1].generators-of-the-input", z3.And(
                    to_z3(tab.fields["n_qubits"]) == n,
                    as_int_term(tab.fields["_table"].get(i, j)) == as_int_term(tab0(i + off, j)),
                    as_int_term(tab.fields["_table"].get(i, j + n)) == as_int_term(tab0(i + off, j + n))), extra=rng)
                path.oblige(f"{lab}:post.return[1].signs-of-the-input", as_int_term(tab.fields["_phase"].get(i)) == as_int_term(ph0(i + off)), extra=rng[:2])
            rec("post._phase_correction(tab, tableau(graph), ..)", pcev["args"][0] is tab and pcev["args"][1] is gstev["ret"],
                "_phase_correction is not called on (returned tableau, tableau of the found graph)")
            base = GS.concat(GS.const_over("H", G["h"]), GS.const_over("P_dag", G["p"])) if self.h_first else \
                GS.concat(GS.const_over("P_dag", G["p"]), GS.const_over("H", G["h"]))
            GS.seq_equal(I, f"{lab}:post._phase_correction.sees-H-list-then-P_dag-list", path.ghost["pc"]["arg"], base)
            rec("post.return[0]-is-the-found-graph", ret[0] is G["graph"], "first component is not the graph _graph_finder returned")
            GS.seq_equal(I, f"{lab}:post.return[2]", ret[2], GS.concat(base, path.ghost["pc"]["gates"]))
            st_stores = [v for v in st.fields.values() if isinstance(v, NDArr)]
            path.oblige(f"{lab}:frame.argument-not-modified", z3.And(as_int_term(st.fields["_table"].get(i + off, j)) == as_int_term(tab0(i + off, j)),
                                                                     as_int_term(st.fields["_phase"].get(i + off)) == as_int_term(ph0(i + off))), extra=rng)

        self._need_native = False
        try:
            explore(eng, harness)
        except Undecided as u:
            eng.record(f"{lab}:supported-subset", "undecided", 0, f"{u}", None)
        for r in eng.results.values():
            r.witness, r.replayed = None, False
            if r.status == "refuted" and "on-every-path" in r.name and self.always:
                w = native_missing_phase_correction()
                if w is not None:
                    r.witness, r.replayed = w, True
            if r.status == "refuted" and (":post.return[2]" in r.name or "sees-H-list-then-P_dag-list" in r.name):
                w = native_gate_list_order(self.h_first)
                if w is not None:
                    r.witness, r.replayed = w, True
        return eng


def native_missing_phase_correction(max_n=2):
    """a stabilizer tableau on which the REAL state_to_graph returns without calling _phase_correction"""
    import importlib
    import itertools

    import numpy as np

    mod = importlib.import_module(SRC)
    tabm = importlib.import_module(TAB)
    saved = mod._phase_correction
    calls = []

    def spy(*a, **k):
        calls.append(1)
        return saved(*a, **k)

    try:
        mod._phase_correction = spy
        for n in range(1, max_n + 1):
            for bits in itertools.product((0, 1), repeat=n * (n - 1) // 2 + n):
                adj = np.zeros((n, n), dtype=int)
                for (a, b), v in zip(itertools.combinations(range(n), 2), bits):
                    adj[a, b] = adj[b, a] = v
                phase = np.array(bits[n * (n - 1) // 2:], dtype=int)
                t = tabm.StabilizerTableau([np.eye(n, dtype=int), adj], phase)
                del calls[:]
                try:
                    out = mod.state_to_graph(t)
                except Exception:  # noqa: BLE001
                    continue
                if not calls and phase.any():
                    return {"function": S2G, "args": {"tableau": {"x": np.eye(n, dtype=int).tolist(), "z": adj.tolist(), "signs": phase.tolist()}},
                            "expected": "_phase_correction is consulted (signs: Z on every qubit whose generator has sign 1)",
                            "actual": f"returns gates {out[2]!r} without calling _phase_correction"}
    finally:
        mod._phase_correction = saved
    return None


def native_gate_list_order(h_first=True):
    """REAL state_to_graph with _graph_finder / tableau / _phase_correction stubbed (H positions [1], P_dag positions [0], correction
    [Z 0]): does the list handed to _phase_correction and the returned list have the order the contract states?"""
    import importlib

    import numpy as np

    mod = importlib.import_module(SRC)
    tabm = importlib.import_module(TAB)
    names = ("_graph_finder", "get_stabilizer_tableau_from_graph", "_phase_correction")
    saved = {k: getattr(mod, k) for k in names}
    seen = {}
    try:
        mod._graph_finder = lambda x, z, get_ops_data=False: ("graph", ([1], [0])) if get_ops_data else "graph"
        mod.get_stabilizer_tableau_from_graph = lambda g: "tableau-of-graph"

        def pc(t1, t2, gl):
            seen["arg"] = [tuple(x) for x in gl]
            return [("Z", 0)]

        mod._phase_correction = pc
        t = tabm.StabilizerTableau([np.eye(2, dtype=int), np.zeros((2, 2), dtype=int)])
        try:
            got = mod.state_to_graph(t)[2]
        except Exception as e:  # noqa: BLE001
            got = f"raises {type(e).__name__}: {e}"
    finally:
        for k, v in saved.items():
            setattr(mod, k, v)
    base = [("H", 1), ("P_dag", 0)] if h_first else [("P_dag", 0), ("H", 1)]
    want = base + [("Z", 0)]
    if seen.get("arg") == base and isinstance(got, list) and [tuple(x) for x in got] == want:
        return None
    return {"function": S2G, "args": {"_graph_finder(...)": ["graph", [[1], [0]]], "_phase_correction(...)": [["Z", 0]]},
            "expected": {"list seen by _phase_correction": [list(x) for x in base], "gates returned": [list(x) for x in want]},
            "actual": {"list seen by _phase_correction": [list(x) for x in seen.get("arg", [])] if "arg" in seen else None,
                       "gates returned": got if isinstance(got, str) else [list(x) for x in got]},
            "how": "real state_to_graph on a 2-qubit StabilizerTableau with its three callees replaced by stubs"}


def s2g_tasks():
    return [S2GTask(k) for k in S2GTask.KINDS]


def s2g_canaries():
    """WRONG contract: 'the phase correction may be skipped' cannot be refuted by a trace (it is weaker); the canary instead claims
    a different list order (P_dag list before the H list), which the real code contradicts"""
    return [S2GTask("StabilizerTableau", label="canary.state_to_graph.p_dag-list-before-h-list", h_first=False)]


# ------------------------------------------------------------------------------------------ _phase_correction
def _pc_recorders():
    from .stab_inverse import havoc_tableau

    R = {}

    def canon(I, T):
        ev = {"name": "canonical_form", "args": [T], "self": None, "ret": T}
        I.path.trace.append(ev)
        if isinstance(T, Obj) and "_table" in T.fields:
            havoc_tableau(I, T)  # in place: another generating set of the same group, signs move with it (frame contract, C05/C11)
            run = [e for e in I.path.trace if e["name"] == "run_circuit" and e["ret"] is T]
            if run:
                # precondition of _phase_correction in both callers ([T-canon], module docstring): the circuit's result has an
                # invertible X part (it generates a graph state's group), so its canonical form has X = I
                n = to_z3(T.fields["n_qubits"])
                zb = _bits_fn(_fresh_tag(I, "canonZ"), 2)
                T.fields["_table"] = new_array(T.fields["_table"].shape,
                                               lambda i, j: z3.If(to_z3(j) < n, z3.If(to_z3(i) == to_z3(j), z3.IntVal(1), z3.IntVal(0)), zb(i, j)), "canonical[X=I]")
                ev["x_is_identity"] = True
        return T

    R[CANON] = Contract(CANON, spec=canon, clause="[A-recorder] canonical_form rewrites its argument in place and returns it; for the result of the "
                                                  "circuit the X part is the identity (precondition X(T) = I)")

    def runc(I, tab, circ, reverse=False):
        ev = {"name": "run_circuit", "args": [tab, circ, reverse], "self": None, "ret": tab,
              "pre": (tab.fields["_table"].reader(), tab.fields["_phase"].reader()) if isinstance(tab, Obj) and "_table" in tab.fields else None}
        I.path.trace.append(ev)
        if isinstance(tab, Obj) and "_table" in tab.fields:
            havoc_tableau(I, tab)
        return tab

    R[RUNC] = Contract(RUNC, spec=runc, clause="[A-recorder] run_circuit applies the gates to its tableau argument in place and returns it")
    return R


def _identity_support(interp, a, b):
    """x_inv @ phase_diff: only the diagonal entry of the (identity) inverse contributes - PROVED as obligation matmul.support"""
    return lambda i, k: [i]


class PhaseTask:
    def __init__(self, label=None, timeout_ms=10000, differs=True):
        self.qual = PHASE
        self.label = label or "_phase_correction[X(T) = I]"
        self.contract = Contract(PHASE, clause="Z on qubit i <=> the sign of generator i of canonical(run(gates, canonical(tab1))) differs from that of "
                                               "canonical(tab2) (X part = I: Z_i flips exactly generator i); ascending qubits; the circuit runs on a copy")
        self.timeout_ms = timeout_ms
        self.contracts = _pc_recorders()
        self.inline = set(TABLEAU_ACCESSORS) | {f"{TAB}:StabilizerTableau.copy"}
        self.differs = differs
        self.hooks = chain(GS.HOOKS, {"external": linalg_external(True), "matmul_support": _identity_support,
                                      "comprehension": enumerate_filter_hook})

    def run(self):
        eng = Engine(self.timeout_ms)
        m, node, cls = source.find(self.qual)
        lab = self.label

        def rec(name, ok, detail=""):
            eng.record(f"{lab}:{name}", "discharged" if ok else "refuted", 0, "" if ok else detail, None)
            return ok

        def harness(path):
            I = Interp(path, self.contracts, self.inline, dict(self.hooks))
            I.task_name = self.qual
            path.ghost["task"] = self.qual
            f = FuncRef(m.name, node, self.qual, None)
            I.stack.append(Frame(m.name, {}, lab))
            n = z3.Int("n")
            path.assume(n >= 1)
            S1, S2 = mk_stabilizer(I, "S1", n), mk_stabilizer(I, "S2", n)
            gl = GS.fresh_gates(I, "gate_list")
            gl0 = gl.copy()
            path.trace = []
            try:
                ret = I.call_function(f, [S1, S2, gl], {}, force_body=True)
            except RaiseEx as e:
                rec("no-raise", False, f"real body raises {e.exc_name}: {e.msg}")
                return
            rec("no-raise", True)
            tr = list(path.trace)
            names = [e["name"] for e in tr]
            want = ["canonical_form", "canonical_form", "run_circuit", "canonical_form"]
            if not rec("post.calls", names == want, f"recorded calls {names}, expected {want}"):
                return
            c1, c2, run, c3 = tr
            rec("post.canonical_form(tab1)-then-(tab2)", c1["args"][0] is S1 and c2["args"][0] is S2, "canonical forms are not taken of the two arguments in order")
            work = run["args"][0]
            ok = isinstance(work, Obj) and work is not S1 and work is not S2 and run["pre"] is not None
            if not rec("post.circuit-runs-on-a-copy", ok, "run_circuit (in place) is applied to one of the argument tableaux"):
                return
            i, j = path.fresh("sk"), path.fresh("sk")
            t1, p1 = S1.fields["_table"], S1.fields["_phase"]
            path.oblige(f"{lab}:post.copy-of-canonical(tab1).table", as_int_term(run["pre"][0](i, j)) == as_int_term(t1.get(i, j)),
                        extra=[i >= 0, i < n, j >= 0, j < 2 * n])
            path.oblige(f"{lab}:post.copy-of-canonical(tab1).signs", as_int_term(run["pre"][1](i)) == as_int_term(p1.get(i)), extra=[i >= 0, i < n])
            if isinstance(run["args"][1], GS.GateSeq):
                GS.seq_equal(I, f"{lab}:post.circuit-is-the-given-gate-list", run["args"][1], gl0)
            else:
                rec("post.circuit-is-the-given-gate-list", False, repr(run["args"][1]))
            rec("post.circuit-runs-forward", run["args"][2] is False, f"reverse={run['args'][2]!r}")
            rec("post.canonical_form(result-of-the-circuit)", c3["args"][0] is run["ret"] and c3.get("x_is_identity"), "third canonical form is not of the circuit's result")
            # ---- the result: Z exactly where the signs differ
            ok = isinstance(ret, GS.GateSeq) and getattr(ret, "filter", None) is not None
            if not rec("post.returns-a-filtered-gate-list", ok, repr(ret)):
                return
            k = path.fresh("sk")
            T, T2 = work, S2
            tp, t2p = as_int_term(T.fields["_phase"].get(k)), as_int_term(T2.fields["_phase"].get(k))
            hit = ret.filter["p"](k)
            rngk = [k >= 0, k < n]
            path.oblige(f"{lab}:post.one-candidate-per-qubit", ret.filter["N"] == n)
            goal = (hit == (tp != t2p)) if self.differs else (hit == (tp == t2p))
            path.oblige(f"{lab}:post.Z-on-qubit-i-iff-sign-of-generator-i-differs", goal, extra=rngk)
            mm = path.fresh("sk")
            path.oblige(f"{lab}:post.all-gates-are-Z", ret.name(mm) == GS.CODE["Z"], extra=[mm >= 0, mm < ret.length])
            path.oblige(f"{lab}:post.qubits-ascending-enumeration", ret.qubit(mm) == ret.filter["SEL"](mm), extra=[mm >= 0, mm < ret.length])
            # Z_k flips exactly generator k (X = I): after the correction every sign agrees
            xk = as_int_term(T.fields["_table"].get(i, k))
            path.oblige(f"{lab}:post.Z_k-flips-exactly-generator-k", xk == z3.If(i == k, 1, 0), extra=rngk + [i >= 0, i < n])
            path.oblige(f"{lab}:post.signs-agree-after-the-correction", (tp + z3.If(hit, 1, 0)) % 2 == t2p, extra=rngk)

        try:
            explore(eng, harness)
        except Undecided as u:
            eng.record(f"{lab}:supported-subset", "undecided", 0, f"{u}", None)
        for r in eng.results.values():
            r.witness, r.replayed = None, False
            if r.status == "refuted" and ("iff-sign-of-generator" in r.name or "signs-agree" in r.name or "all-gates-are-Z" in r.name):
                w = native_phase_rule(self.differs)
                if w is not None:
                    r.witness, r.replayed = w, True
        return eng


def native_phase_rule(differs=True):
    """REAL _phase_correction(tableau of a graph with signs s, tableau of the graph, []) for the path 0-1 and every s: the result
    must be the Z gates on exactly the qubits i with s[i] = 1 (differs) - X = I holds for these inputs"""
    import importlib
    import itertools

    import numpy as np

    mod = importlib.import_module(SRC)
    tabm = importlib.import_module(TAB)
    adj = np.array([[0, 1], [1, 0]])
    for s_ in itertools.product((0, 1), repeat=2):
        t1 = tabm.StabilizerTableau([np.eye(2, dtype=int), adj], np.array(s_))
        t2 = tabm.StabilizerTableau([np.eye(2, dtype=int), adj])
        try:
            got = [tuple(x) for x in mod._phase_correction(t1, t2, [])]
        except Exception as e:  # noqa: BLE001
            got = f"raises {type(e).__name__}: {e}"
        want = [("Z", i) for i in range(2) if (s_[i] == 1) == differs]
        if got != want:
            return {"function": PHASE, "args": {"tab1": {"x": [[1, 0], [0, 1]], "z": adj.tolist(), "signs": list(s_)},
                                                "tab2": {"x": [[1, 0], [0, 1]], "z": adj.tolist(), "signs": [0, 0]}, "gate_list": []},
                    "expected": [list(x) for x in want], "actual": got if isinstance(got, str) else [list(x) for x in got]}
    return None


def pc_tasks():
    return [PhaseTask()]


def pc_canaries():
    return [PhaseTask(label="canary._phase_correction.Z-where-the-signs-agree", differs=False)]


# ------------------------------------------------------------------------------------------ sla.hadamard_transform
def _ht_req(I, x, z, pos):
    if not (isinstance(x, NDArr) and isinstance(z, NDArr) and x.ndim == 2 and z.ndim == 2 and isinstance(pos, list)) or x.store is z.store:
        return False
    n = to_z3(x.shape[1])
    return z3.And(to_z3(z.shape[0]) == to_z3(x.shape[0]), to_z3(z.shape[1]) == n, *[z3.And(to_z3(p) >= 0, to_z3(p) < n) for p in pos])


def _ht_spec(I, x, z, pos):
    rx, rz = x.reader(), z.reader()
    hit = (lambda j: z3.Or(*[to_z3(j) == to_z3(p) for p in pos])) if pos else (lambda j: z3.BoolVal(False))
    x.assign_from(lambda i, j: z3.If(hit(j), as_int_term(rz(i, j)), as_int_term(rx(i, j))))
    z.assign_from(lambda i, j: z3.If(hit(j), as_int_term(rx(i, j)), as_int_term(rz(i, j))))
    return (x, z)


HT_CONTRACT = Contract(HADT, requires=_ht_req, spec=_ht_spec,
                       clause="hadamard_transform: the listed columns of X and Z are exchanged IN PLACE (H on those qubits, signs aside), every other "
                              "column is untouched; returns its two arguments")


def ht_tasks(spec_override=None, label=None):
    from pyvc.contract import Task

    r, n = z3.Int("rows"), z3.Int("n")
    T = []
    for k in (0, 1, 2):
        pos = S.ListOf("positions", [S.IntArg(f"p{m}", 0, n) for m in range(k)])
        T.append(Task(HADT, HT_CONTRACT, [S.Assume(z3.And(r >= 1, n >= 1)), S.Matrix("X", r, n, bits=True), S.Matrix("Z", r, n, bits=True), pos],
                      {HADT: HT_CONTRACT}, label=(label or "hadamard_transform") + f"[{k} position(s)]", spec_override=spec_override))
    return T


def ht_canaries():
    def bad(I, x, z, pos):  # only X receives the Z columns (Z keeps its own): not an exchange
        rx, rz = x.reader(), z.reader()
        hit = (lambda j: z3.Or(*[to_z3(j) == to_z3(p) for p in pos])) if pos else (lambda j: z3.BoolVal(False))
        x.assign_from(lambda i, j: z3.If(hit(j), as_int_term(rz(i, j)), as_int_term(rx(i, j))))
        return (x, z)

    return ht_tasks(spec_override=bad, label="canary.hadamard_transform.z-columns-kept")[1:2]


# ------------------------------------------------------------------------------------------ stabilizer_to_graph (dispatch)
STG = f"{SRC}:stabilizer_to_graph"
MSE = f"{SRC}:mixed_stabilizer_equivalency"
G2S = f"{SRC}:graph_to_stabilizer"


def _stg_recorders():
    R = {}
    R[GF] = recorder(GF, "_graph_finder", result=lambda I, x, z, *a: Opaque("graph", {"of": (x, z)}))
    R[G2S] = recorder(G2S, "graph_to_stabilizer", result=lambda I, gl: Token("stabilizers-of", gl))
    R[MSE] = recorder(MSE, "mixed_stabilizer_equivalency", result=lambda I, a, b: I.path.fresh("equivalent", "bool"))
    return R


def stg_tasks():
    """[P, trace] stabilizer_to_graph: one _graph_finder call per tableau, on the X and the Z part of THAT tableau (views of the caller's
    table - which is why _graph_finder's frame contract matters), results paired with the weights in order; validate=True: the
    certificate assert compares the INPUT with graph_to_stabilizer(result) (permitted abrupt exit; its strictness for
    non-canonical generating sets is the bounded finding C08-F1); any other input type: ValueError"""
    from pyvc.trace import TraceTask

    D = _stg_recorders()
    T = []
    clause = "one _graph_finder(x_matrix, z_matrix) per tableau, (weight, graph) pairs in order; validation compares the input with the result's tableaux"

    def parts_ok(I, lab, ev, tab):
        n = to_z3(tab.fields["n_qubits"])
        i, j = I.path.fresh("sk"), I.path.fresh("sk")
        gx, gz = ev["args"][0], ev["args"][1]
        ok = isinstance(gx, NDArr) and isinstance(gz, NDArr) and gx.ndim == 2 and gz.ndim == 2
        I.path.oblige(f"{lab}.matrices", z3.BoolVal(ok))
        if not ok:
            return
        t = tab.fields["_table"]
        rng = [i >= 0, i < n, j >= 0, j < n]
        I.path.oblige(f"{lab}.x-part", z3.And(to_z3(gx.shape[0]) == n, to_z3(gx.shape[1]) == n, as_int_term(gx.get(i, j)) == as_int_term(t.get(i, j))), extra=rng)
        I.path.oblige(f"{lab}.z-part", z3.And(to_z3(gz.shape[0]) == n, to_z3(gz.shape[1]) == n, as_int_term(gz.get(i, j)) == as_int_term(t.get(i, j + n))), extra=rng)
        I.path.oblige(f"{lab}.get_ops_data-not-requested", z3.BoolVal(len(ev["args"]) == 2 or ev["args"][2] is False))

    def mk_spec(kind, validate):
        def spec(I, cur, inp, *rest):
            tabs = [(1.0, inp)] if kind == "single" else list(inp)
            out = []
            for k, (p, tab) in enumerate(tabs):
                if cur.pos >= len(cur.trace):
                    cur.expect("_graph_finder", None, None)
                ev = cur.trace[cur.pos]
                parts_ok(I, f"{cur.label}:post._graph_finder[{k}]", ev, tab)
                g = cur.expect("_graph_finder", *ev["args"])
                out.append((p, g))
            if validate:
                if cur.pos < len(cur.trace) and cur.trace[cur.pos]["name"] == "graph_to_stabilizer":
                    gl = cur.trace[cur.pos]["args"][0]
                    ok = isinstance(gl, list) and len(gl) == len(out) and all(isinstance(e, tuple) and len(e) == 2 and e[1] is o[1] for e, o in zip(gl, out))
                    I.path.oblige(f"{cur.label}:post.validation-of-the-returned-list", z3.BoolVal(ok))
                    st = cur.expect("graph_to_stabilizer", gl)
                else:
                    st = cur.expect("graph_to_stabilizer", None)
                cur.expect("mixed_stabilizer_equivalency", inp, st)
            return out

        return spec

    def tsame(I, label, ret, exp):
        ok = isinstance(ret, list) and len(ret) == len(exp)
        I.path.oblige(f"{label}:post.return.len", z3.BoolVal(ok))
        if ok:
            for k, (r_, e_) in enumerate(zip(ret, exp)):
                okk = isinstance(r_, tuple) and len(r_) == 2 and r_[1] is e_[1]
                I.path.oblige(f"{label}:post.return[{k}].graph", z3.BoolVal(okk))
                if okk:
                    w = (to_z3(r_[0]) == to_z3(e_[0])) if (is_sym(r_[0]) or is_sym(e_[0])) else z3.BoolVal(r_[0] == e_[0])
                    I.path.oblige(f"{label}:post.return[{k}].weight", w)

    for validate in (True, False):
        for kind in ("single", "mixture of 2"):
            def mk(I, kind=kind, validate=validate):
                n = z3.Int("n")
                I.path.assume(n >= 1)
                if kind == "single":
                    return [mk_stabilizer(I, "S", n), validate]
                I.path.assume(z3.Int("m") >= 1)
                return [[(z3.Real("p0"), mk_stabilizer(I, "S0", n)), (z3.Real("p1"), mk_stabilizer(I, "S1", z3.Int("m")))], validate]

            sp = mk_spec(kind, validate)
            lab = f"stabilizer_to_graph[{kind}, validate={validate}]"
            t = TraceTask(STG, mk, sp, D, inline=set(TABLEAU_ACCESSORS), label=lab, clause=clause,
                          hooks={"permitted_asserts": lambda i, nm, node: True})
            T.append(_ReturnChecked(t, tsame))
    T.append(TraceTask(STG, lambda I: [mk_clifford(I, "T"), True], lambda I, cur, *a: None, D, inline=set(TABLEAU_ACCESSORS),
                       label="stabilizer_to_graph[CliffordTableau -> ValueError]", clause=clause, expect_raise=("ValueError",)))
    return T


class _ReturnChecked:
    """TraceTask whose returned list is compared with the list the trace specification computed (graph identities, weights)"""

    def __init__(self, task, check):
        self.task, self.check = task, check
        self.qual, self.label, self.contract = task.qual, task.label, task.contract

    def run(self):
        from pyvc.interp import Interp as _I

        t = self.task
        eng = Engine(t.timeout_ms)
        m, node, cls = source.find(t.qual)

        def harness(path):
            I = Interp(path, t.contracts, t.inline, dict(t.hooks))
            I.task_name = t.qual
            f = FuncRef(m.name, node, t.qual, None)
            I.stack.append(Frame(m.name, {}, t.label))
            args = t.mk_inputs(I)
            path.trace = []
            try:
                ret = I.call_function(f, list(args), {}, force_body=True)
            except RaiseEx as e:
                eng.record(f"{t.label}:no-raise", "refuted", 0, f"real body raises {e.exc_name}: {e.msg}", None)
                return
            eng.record(f"{t.label}:no-raise", "discharged", 0, "", None)
            from pyvc.trace import Cursor

            cur = Cursor(I, t.label, path.trace)
            exp = t.spec(I, cur, *args)
            cur.done()
            self.check(I, t.label, ret, exp)

        try:
            explore(eng, harness)
        except Undecided as u:
            eng.record(f"{t.label}:supported-subset", "undecided", 0, f"{u}", None)
        for r in eng.results.values():
            r.witness, r.replayed = None, False
        return eng


# ------------------------------------------------------------------------------------------ graph_to_density (dispatch)
G2D = f"{SRC}:graph_to_density"
G2DP = f"{SRC}:_graph_to_density_pure"


def g2d_tasks(mix_order=(0, 1), label_prefix=""):
    """[P, trace] graph_to_density: nx.Graph / adjacency ndarray -> _graph_to_density_pure(it); a mixture list -> sum_i p_i * pure(graph_i)
    accumulated in list order starting from 0; anything else -> TypeError"""
    from pyvc.trace import TraceTask
    from .rep_conv import token_binop

    D = {G2DP: recorder(G2DP, "pure", result=lambda I, g: Token("rho", g))}
    hooks = chain({"binop": token_binop}, NX.HOOKS)
    clause = "graph_to_density dispatch: graph / adjacency -> the pure-state matrix; mixture -> sum_i p_i rho_i; other input -> TypeError"
    n = z3.Int("n")
    T = []

    def one(kind):
        def mk(I):
            I.path.assume(n >= 1)
            return [NX.SimpleGraph("G", n).symbolic(I) if kind == "nx.Graph" else NX.SimpleAdj("A", n).symbolic(I)]

        return TraceTask(G2D, mk, lambda I, cur, g: cur.expect("pure", g), D, hooks=hooks, label=f"{label_prefix}graph_to_density[{kind}]", clause=clause)

    T += [one("nx.Graph"), one("adjacency")]

    def mk_mix(I):
        I.path.assume(n >= 1)
        return [[(z3.Real("p0"), NX.SimpleGraph("G0", n).symbolic(I)), (z3.Real("p1"), NX.SimpleAdj("A1", n).symbolic(I))]]

    def spec_mix(I, cur, lst):
        a, b = mix_order
        ra = cur.expect("pure", lst[a][1])
        rb = cur.expect("pure", lst[b][1])
        return Token("add", Token("add", 0, Token("scale", lst[a][0], ra)), Token("scale", lst[b][0], rb))

    T.append(TraceTask(G2D, mk_mix, spec_mix, D, hooks=hooks, label=f"{label_prefix}graph_to_density[mixture of 2]", clause=clause))
    if not label_prefix:
        T.append(TraceTask(G2D, lambda I: [mk_stabilizer(I, "S")], lambda I, cur, x: None, D, hooks=hooks,
                           label="graph_to_density[StabilizerTableau -> TypeError]", clause=clause, expect_raise=("TypeError",)))
    return T


def g2d_canaries():
    return g2d_tasks(mix_order=(1, 0), label_prefix="canary.")[2:3]


# ------------------------------------------------------------------------------------------ _position_finder  [F, exact]
POSF_OK = "_position_finder[echelon forms n<=3, column 0 is a pivot column]:returns-exactly-the-non-pivot-columns"
POSF_F3 = "_position_finder[echelon forms n<=3, column 0 is NOT a pivot column]:returns-exactly-the-non-pivot-columns"


def position_finder_obligations(max_n=3):
    """[F] complete finite domain, the REAL code evaluated exactly: every matrix sla.row_reduction produces from an n x n bit matrix,
    n <= max_n (all echelon forms of that size).  Contract (the standard construction behind _graph_finder: a Hadamard on every qubit
    whose column carries no pivot makes the X part of an independent generating set invertible): the list returned is exactly the
    increasing list of the NON-PIVOT columns.  The domain is split by "column 0 is a pivot column": the other class is the recorded
    finding C08-F3 (the walk starts at [0, 0] and never considers column 0) and is refuted on the unchanged tree."""
    import importlib
    import itertools
    import time

    import numpy as np
    from vf.core import Obl

    t0 = time.time()
    mod = importlib.import_module(SRC)
    la = importlib.import_module(LINALG)
    bad = {True: [], False: []}
    count = {True: 0, False: 0}
    for n in range(1, max_n + 1):
        seen = set()
        for bits in itertools.product((0, 1), repeat=n * n):
            x = np.array(bits).reshape(n, n)
            e = la.row_reduction(x.copy(), np.zeros((n, n), dtype=int))[0]
            key = tuple(int(v) for v in e.flatten())
            if key in seen:
                continue
            seen.add(key)
            piv = [int(np.nonzero(e[r])[0][0]) for r in range(n) if e[r].any()]
            want = [c for c in range(n) if c not in piv]
            try:
                got = [int(v) for v in mod._position_finder(e.copy())]
            except Exception as ex:  # noqa: BLE001
                got = f"raises {type(ex).__name__}: {ex}"
            cls = 0 in piv
            count[cls] += 1
            if got != want:
                bad[cls].append({"function": POSF, "args": {"x_matrix": e.tolist()}, "expected": want, "actual": got})
    ms = (time.time() - t0) * 1000
    clause = "H positions = exactly the non-pivot columns of the row-reduced X part (then X becomes invertible for independent generators)"
    out = []
    for cls, name in ((True, POSF_OK), (False, POSF_F3)):
        b = bad[cls]
        out.append(Obl(name=name, function=POSF, status="refuted" if b else "discharged", kind="F", backend="exact", ms=ms / 2,
                       detail=(f"{len(b)} of {count[cls]} echelon forms differ; smallest: {b[0]}" if b else f"all {count[cls]} echelon forms agree (exact)"),
                       witness=b[0] if b else None, replayed=bool(b), clause=clause))
    return out


# ------------------------------------------------------------------------------------------ all
def tasks():
    return gf_tasks() + s2g_tasks() + pc_tasks() + ht_tasks() + stg_tasks() + g2d_tasks()


def canary_tasks():
    return gf_canaries() + s2g_canaries() + pc_canaries() + ht_canaries() + g2d_canaries()


TRUSTED = [
    "[A-recorders] _graph_finder proof: sla.row_reduction / sla.hadamard_transform rewrite their two array arguments in place and return them, "
    "_position_finder returns some position list (its choice is NOT specified - known finding C08-F3), nx.from_numpy_array is a recorded call",
    "[N] np.linalg.det / np.linalg.inv as a GF(2) inverse (floating point): unspecified 0/1 matrix, products with it unspecified; np.allclose unspecified",
    "[A-recorders] state_to_graph proof: _graph_finder, get_stabilizer_tableau_from_graph, _phase_correction are recorded calls with abstract results "
    "(position lists / Z-gate list of symbolic length)",
    "[A] filtering comprehension over enumerate(L), L of symbolic length = increasing enumeration of the hits (lemma FILTER, lemmas/filters.py)",
]
