"""C01 - trace contracts for the density-matrix compiler's per-operation dispatch.

The matrices built by density_matrix/functions.py are abstract tokens here (Token(tag, args)); the dispatcher is proved
to hand the right tokens, in the right order, to the state representation:
  one-qubit op  -> apply_unitary(one_qubit_gate(n, idx, G))
  CNOT / CZ     -> apply_unitary(controlled_gate(n, idx_c, idx_t, X|Z))
  classical-controlled -> o = apply_measurement_controlled_gate(projectors_z(n, idx_c), one_qubit_gate(n, idx_t, X|Z), mode)
  measure-CNOT-reset   -> the same with X, and THEN apply_channel(reset_kraus(n, idx_c))
  MeasurementZ  -> o = apply_measurement(projectors_z(n, idx), mode)
and the outcome is written to the operation's classical register.  That the tokens denote the textbook matrices is the
contract of the builder functions (decided by the bounded stand-in, DESIGN C01 item 7: [B]).
"""
from __future__ import annotations

import z3

from pyvc.trace import recorder, TraceTask, Token
from pyvc.values import to_z3, as_int_term
from . import compile_stab as CS

DCOMP = "graphiq.backends.density_matrix.compiler"
DMF = "graphiq.backends.density_matrix.functions"
DSTATE = "graphiq.backends.density_matrix.state"

GATE_TOKEN = {"Hadamard": "hadamard", "Phase": "phase", "PhaseDagger": "phase_dag", "SigmaX": "sigmax", "SigmaY": "sigmay",
              "SigmaZ": "sigmaz", "CNOT": "sigmax", "CZ": "sigmaz", "ClassicalCNOT": "sigmax", "ClassicalCZ": "sigmaz",
              "MeasurementCNOTandReset": "sigmax"}


def contracts():
    C = {}
    for g in ("hadamard", "phase", "phase_dag", "sigmax", "sigmay", "sigmaz", "identity"):
        q = f"{DMF}:{g}"
        C[q] = recorder(q, g, result=(lambda gg: (lambda I, *a: Token(gg)))(g))
    C[f"{DMF}:get_one_qubit_gate"] = recorder(f"{DMF}:get_one_qubit_gate", "get_one_qubit_gate",
                                              result=lambda I, n, q, g: Token("one_qubit_gate", n, q, g))
    C[f"{DMF}:get_two_qubit_controlled_gate"] = recorder(f"{DMF}:get_two_qubit_controlled_gate", "get_two_qubit_controlled_gate",
                                                         result=lambda I, n, c, t, g: Token("controlled_gate", n, c, t, g))
    C[f"{DMF}:projectors_zbasis"] = recorder(f"{DMF}:projectors_zbasis", "projectors_zbasis",
                                             result=lambda I, n, q: Token("projectors_z", n, q))
    C[f"{DMF}:get_reset_qubit_kraus"] = recorder(f"{DMF}:get_reset_qubit_kraus", "get_reset_qubit_kraus",
                                                 result=lambda I, n, q: Token("reset_kraus", n, q))
    C[f"{DSTATE}:DensityMatrix.apply_unitary"] = recorder(f"{DSTATE}:DensityMatrix.apply_unitary")
    C[f"{DSTATE}:DensityMatrix.apply_channel"] = recorder(f"{DSTATE}:DensityMatrix.apply_channel")
    C[f"{DSTATE}:DensityMatrix.apply_measurement"] = recorder(f"{DSTATE}:DensityMatrix.apply_measurement", result=CS._outcome)
    C[f"{DSTATE}:DensityMatrix.apply_measurement_controlled_gate"] = recorder(
        f"{DSTATE}:DensityMatrix.apply_measurement_controlled_gate", result=CS._outcome)
    return C


BUILDERS = {"hadamard", "phase", "phase_dag", "sigmax", "sigmay", "sigmaz", "identity", "get_one_qubit_gate",
            "get_two_qubit_controlled_gate", "projectors_zbasis", "get_reset_qubit_kraus"}


def spec_factory(opname, rt, ct, tt, mode):
    def spec(I, cur, comp, state, op, n_quantum, q_index, cregs):
        s = I.path.ghost["syms"]
        cr0 = I.path.ghost["cr0"]
        n = s["n_p"] + s["n_e"]
        # builder calls are pure: only the state effects are compared, in order
        cur.trace[:] = [e for e in cur.trace if e["name"] not in BUILDERS]
        idx = CS.idx
        wrote = None
        if opname in ("Input", "Output", "Identity"):
            pass
        elif opname in CS.ONE:
            cur.expect("apply_unitary", Token("one_qubit_gate", n, idx(s, s["r"], rt), Token(GATE_TOKEN[opname])))
        elif opname in CS.TWO:
            cur.expect("apply_unitary", Token("controlled_gate", n, idx(s, s["c"], ct), idx(s, s["t"], tt), Token(GATE_TOKEN[opname])))
        elif opname in CS.CLASSICAL:
            wrote = cur.expect("apply_measurement_controlled_gate", Token("projectors_z", n, idx(s, s["c"], ct)),
                               Token("one_qubit_gate", n, idx(s, s["t"], tt), Token(GATE_TOKEN[opname])), mode)
            if opname == "MeasurementCNOTandReset":
                cur.expect("apply_channel", Token("reset_kraus", n, idx(s, s["c"], ct)))
        elif opname == "MeasurementZ":
            wrote = cur.expect("apply_measurement", Token("projectors_z", n, idx(s, s["r"], rt)), mode)
        k = I.path.fresh("crk")
        rng = [k >= 0, k < s["n_c"]]
        if wrote is None:
            I.path.oblige(f"{cur.label}:classical-record.unchanged", as_int_term(cregs.get(k)) == cr0(k), extra=rng)
        else:
            I.path.oblige(f"{cur.label}:classical-record.holds-the-outcome",
                          as_int_term(cregs.get(k)) == z3.If(k == s["creg"], to_z3(wrote), cr0(k)), extra=rng)
        return None

    return spec


INLINE = set(CS.INLINE)


def tasks(C, modes=("probabilistic", 0, 1)):
    T = []
    for opname in CS.ALL_OPS:
        if opname in CS.TWO or opname in CS.CLASSICAL:
            combos = [(None, ct, tt) for ct in "ep" for tt in "ep"]
        else:
            combos = [(rt, None, None) for rt in "ep"]
        measuring = opname in CS.CLASSICAL or opname == "MeasurementZ"
        for rt, ct, tt in combos:
            for mode in (modes if measuring else (0,)):
                lab = f"DensityMatrixCompiler.compile_one_gate[{opname},{rt or ct + tt},{mode}]"
                T.append(TraceTask(f"{DCOMP}:DensityMatrixCompiler.compile_one_gate",
                                   CS.mk_inputs_factory(opname, rt, ct, tt, mode, False, compiler_cls=(DCOMP, "DensityMatrixCompiler"),
                                                        rep=(DSTATE, "DensityMatrix")),
                                   spec_factory(opname, rt, ct, tt, mode), C, inline=INLINE, label=lab,
                                   requires=CS.requires_factory(opname, rt, ct, tt), hooks=CS.HOOKS,
                                   clause=f"dm dispatch of {opname}: effect trace equals the textbook operation; classical record"))
    return T
