"""C19 - EvolutionarySolver.population_initialization: every population member is its OWN circuit object.

Contract (from the property: "each entry's stored score equals the metric re-evaluated on its stored circuit" - which the solver can
only maintain if no two population members share a circuit object, since moves edit circuits in place): the returned list and
the effect trace of circuit-producing calls correspond one to one, in order -
   start circuit given : item k = (inf, result of the k-th self.circuit.copy() call)
   no start circuit    : item k = (inf, result of the k-th self.initialization(...) call)
each call returns a fresh object (recorder contracts), so the members are pairwise distinct objects and the caller's start
circuit itself is never a member.  The loop over range(n_pop) has a symbolic trip count and is handled by the lockstep rule of
pyvc/invloop.py (induction; an arbitrary iteration appends exactly one item and makes exactly one producing call)."""
from __future__ import annotations

import math

import z3

from pyvc import source
from pyvc.contract import Contract
from pyvc.interp import Interp, Engine, explore, RaiseEx, Undecided, Frame
from pyvc.invloop import InvLoop, make_hook, check_lockstep
from pyvc.trace import Token, recorder
from pyvc.values import Obj, FuncRef

EVO = "graphiq.solvers.evolutionary_solver"
DAG = "graphiq.circuit.circuit_dag"
QUAL = f"{EVO}:EvolutionarySolver.population_initialization"
_n = [0]


def _fresh(tag):
    def mk(I, *a):
        _n[0] += 1
        return Token(tag, _n[0])

    return mk


def contracts():
    return {
        f"graphiq.circuit.circuit_base:CircuitBase.copy": recorder("graphiq.circuit.circuit_base:CircuitBase.copy", name="copy", result=_fresh("circuit-copy"),
                                           clause="[A] CircuitDAG.copy returns a new circuit object (frame of copy: C13)"),
        f"{EVO}:EvolutionarySolver.initialization": recorder(f"{EVO}:EvolutionarySolver.initialization", name="initialization",
                                                             result=_fresh("initial-circuit"),
                                                             clause="[A] initialization builds a new circuit (C04 bounded)"),
        f"{EVO}:EvolutionarySolver.get_emission_assignment": Contract(
            f"{EVO}:EvolutionarySolver.get_emission_assignment", spec=lambda I, *a: Token("emission-assignment"),
            clause="pure: no circuit is produced"),
        f"{EVO}:EvolutionarySolver.get_measurement_assignment": Contract(
            f"{EVO}:EvolutionarySolver.get_measurement_assignment", spec=lambda I, *a: Token("measurement-assignment"),
            clause="pure: no circuit is produced"),
    }


def match(I, item, ev):
    if not (isinstance(item, tuple) and len(item) == 2):
        return False
    score, circ = item
    if not (isinstance(score, float) and math.isinf(score) and score > 0):
        return False
    want = I.path.ghost["popinit"]
    if ev["name"] != want["producer"]:
        return False
    if want["producer"] == "copy" and ev["self"] is not want["start"]:
        return False
    return circ is ev["ret"]


LOOPS = [InvLoop("population_initialization", "j", None, modifies=set(), havoc=lambda I, env: [],
                 locals={"emission_assignment", "measurement_assignment", "circuit"}, lockstep=("population", match))]


class PopInitTask:
    def __init__(self, with_start, timeout_ms=5000):
        self.qual = QUAL
        self.with_start = with_start
        self.label = f"population_initialization[{'start circuit given' if with_start else 'no start circuit'}]"
        self.contract = Contract(QUAL, clause="every population member is the result of its own copy()/initialization() call "
                                              "(pairwise distinct circuit objects), stored with score inf")
        self.timeout_ms = timeout_ms

    def run(self):
        eng = Engine(self.timeout_ms)
        m, node, cls = source.find(self.qual)

        def harness(path):
            I = Interp(path, contracts(), set(), {"loop": make_hook(LOOPS)})
            I.task_name = self.qual
            f = FuncRef(m.name, node, self.qual, None)
            I.stack.append(Frame(m.name, {}, self.label))
            me = Obj(I.get_class(EVO, "EvolutionarySolver"))
            start = Obj(I.get_class(DAG, "CircuitDAG")) if self.with_start else None
            setting = Obj(I.get_class(EVO, "EvolutionarySolverSetting"))
            npop = z3.Int("n_pop")
            path.assume(npop >= 0)
            setting.fields["_n_pop"] = npop
            setting.fields["n_pop"] = npop
            me.fields.update(dict(circuit=start, setting=setting, n_photon=z3.Int("n_photon"), n_emitter=z3.Int("n_emitter"),
                                  noise_model_mapping=Token("noise-map")))
            path.ghost["popinit"] = dict(producer="copy" if self.with_start else "initialization", start=start)
            path.trace = []
            try:
                ret = I.call_function(f, [me], {}, force_body=True)
            except RaiseEx as e:
                eng.record(f"{self.label}:no-raise", "refuted", 0, f"real body raises {e.exc_name}", None)
                return
            eng.record(f"{self.label}:no-raise", "discharged", 0, "", None)
            ok = isinstance(ret, list)
            eng.record(f"{self.label}:post.returns-a-list", "discharged" if ok else "refuted", 0, "" if ok else repr(ret), None)
            if not ok:
                return
            producers = [e for e in path.trace if e["name"] in ("copy", "initialization", "loop")]
            check_lockstep(I, self.label + ":post", list(ret), producers, match)
            if start is not None:
                leaked = any(isinstance(it, tuple) and len(it) == 2 and it[1] is start for it in ret)
                eng.record(f"{self.label}:post.start-circuit-is-not-a-member", "refuted" if leaked else "discharged", 0,
                           "the caller's circuit object itself is put into the population" if leaked else "", None)

        try:
            explore(eng, harness)
        except Undecided as u:
            eng.record(f"{self.label}:supported-subset", "undecided", 0, f"{u}", None)
        for r in eng.results.values():
            r.witness, r.replayed = None, False
        return eng


def tasks():
    return [PopInitTask(True), PopInitTask(False)]
