"""Sidecar contracts for graphiq/backends/lc_equivalence_check.py (C09, deductive part).

Under contract here
  local_comp_graph(G, v)   [P]  adj'[j,k] = adj[j,k] xor (adj[j,v] and adj[v,k]) for j != k, diagonal 0  - "toggles precisely
                                the edges among the neighbours of v"; involution LC_v(LC_v(G)) = G as a corollary obligation of
                                the contract (not of the code: the code is tied to the contract by the task).
                                The two matrix products are collapsed with the L2 lemma SUM_SUPPORT2 (lemmas/matsum.py): gamma
                                has the single entry (v,v), the right factor gamma@adj + adj[v,v]*gamma + I has column
                                support {v,k}; the premises are obligations `local_comp_graph:matmul.support#1/#2`.
                                networkx <-> numpy conversions are [A] (contracts/nxmodel.py); the graph handed to
                                nx.to_networkx_graph is proved square, 0/1, symmetric, zero-diagonal.
  _is_valid_clifford(vec)  [P]  returns True iff for all i<n: a_i d_i + b_i c_i is odd (a,b,c,d = entries 4i..4i+3);
                                symbolic n by a loop invariant over `checklist` (a list of symbolic length, summarised by
                                the ghost predicate ALL_k = "all of the first k determinants are odd").
  _coeff_maker(z1, z2)     [P]  row n*j+k of the (n^2 x 4n) matrix encodes equation (j,k) of S^T Q^T P S' = 0:
                                coefficient of a_m = [m=k] z1[j,k], of b_m = [m=k=j], of c_m = z1[m,j] z2[m,k], of d_m = [m=j] z2[j,k]
                                (all mod 2); three nested loops with symbolic bounds, three nested invariants.
  local_clifford_ops       [F]  name <-> matrix table over all 6 invertible 2x2 matrices over GF(2), against the symplectic
                                action of the textbook H and P (lemma L3.symplectic, exact integer arithmetic).
Not under contract (stated in props/C09.py): is_lc_equivalent (completeness is a theorem about the search; float GF(2)
inverse in _solution_basis_finder), lc_graph_operations/_R_matrix/_apply_f/_singles/_doubles (algorithmic theorem of
Van den Nest et al.), local_cliff_equi_check.py.  Graph.local_complementation: contracts/graph_lc.py.
"""
from __future__ import annotations

import z3

from pyvc.contract import Contract
from pyvc.loops import SeqLoop
from pyvc.values import NDArr, new_array, as_int_term, to_z3, concrete_int
from . import nxmodel as NX

LC = "graphiq.backends.lc_equivalence_check"
C = {}


def contract(qual, **kw):
    def deco(spec):
        C[qual] = Contract(qual, spec=spec, **kw)
        return spec

    return deco


def _and(*xs):
    return z3.And(*[to_z3(x) if not isinstance(x, bool) else z3.BoolVal(x) for x in xs])


class Loop(SeqLoop):
    """SeqLoop matched by function and loop variable only (the iterable's text is not part of the key, so an edit of the
    bounds is judged by the obligations instead of leaving the engine's accepted subset)"""

    def matches(self, interp, node):
        import ast

        return (interp.stack[-1].func_name.split(".")[-1] == self.func.split(".")[-1]
                and ast.unparse(node.target) == self.target)


# ------------------------------------------------------------------------------------------ local_comp_graph
LCG = f"{LC}:local_comp_graph"


def lc_rule(adj, v):
    """the property's rule: complement the subgraph induced by the neighbours of v"""
    v = to_z3(v)

    def f(j, k):
        j, k = to_z3(j), to_z3(k)
        return z3.If(j == k, z3.IntVal(0), (as_int_term(adj(j, k)) + as_int_term(adj(j, v)) * as_int_term(adj(v, k))) % 2)

    return f


def _lcg_requires(I, input_graph, node_id):
    if not NX.is_graph(input_graph):
        return False
    return _and(to_z3(node_id) >= 0, to_z3(node_id) < to_z3(input_graph.payload["n"]))


@contract(LCG, requires=_lcg_requires,
          clause="local complementation toggles precisely the edges among the neighbours of the chosen vertex: "
                 "adj'[j,k] = adj[j,k] xor (adj[j,v] and adj[v,k]) for j != k, diagonal 0; a new graph is returned, the input is not changed")
def _local_comp_graph(I, input_graph, node_id):
    n, adj = input_graph.payload["n"], input_graph.payload["adj"]
    return NX.mk_graph(n, lc_rule(adj, node_id), "lc")


def _lcg_loop_state(I, k, entry):
    rd = entry.rd("new_adj_matrix")
    return {entry["new_adj_matrix"]: lambda i, j: z3.If(z3.And(i == j, i < k), z3.IntVal(0), as_int_term(rd(i, j)))}


LCG_LOOPS = [Loop("local_comp_graph", "j", "range(n_nodes)", state=_lcg_loop_state)]


def lcg_support_hook(interp, a, b):
    """support hints for the two products in local_comp_graph (the inner one is evaluated first):
         (gamma @ adj)[i,k] = sum_j gamma[i,j] adj[j,k]             -> only j = v   (gamma has the single entry (v,v))
         (adj @ M)[i,k],  M = gamma@adj + adj[v,v]*gamma + I        -> only j in {v, k}"""
    fr = interp.stack[-1]
    if fr.func_name != "local_comp_graph":
        return None
    v = to_z3(fr.env["node_id"])
    c = interp.path.counter.get("lcg.matmul", 0)
    interp.path.counter["lcg.matmul"] = c + 1
    if c % 2 == 0:
        return lambda i, k: [v]
    return lambda i, k: [v, k]


# ------------------------------------------------------------------------------------------ _is_valid_clifford
IVC = f"{LC}:_is_valid_clifford"


def _vec_reader(vector):
    rd = vector.reader()
    return rd if vector.ndim == 1 else (lambda i: rd(i, z3.IntVal(0)))


def det_odd(v, i):
    """a_i d_i + b_i c_i (mod 2), with (a,b,c,d) = entries 4i .. 4i+3 (row-major 2x2 block Q^(i))"""
    i = to_z3(i)
    return (as_int_term(v(4 * i)) * as_int_term(v(4 * i + 3)) + as_int_term(v(4 * i + 1)) * as_int_term(v(4 * i + 2))) % 2


def _ivc_requires(I, vector):
    if not isinstance(vector, NDArr) or vector.ndim not in (1, 2):
        return False
    ok = [to_z3(vector.shape[0]) % 4 == 0]
    if vector.ndim == 2:
        ok.append(to_z3(vector.shape[1]) == 1)
    return _and(*ok)


def _ivc_extract(I, ret):
    if I is None:
        return dict(ret=bool(ret), witness=None)
    calls = I.path.ghost.get("all_calls")
    return dict(ret=ret, witness=calls[-1]["witness"] if calls and calls[-1]["result"] is ret else None)


def _ivc_spec(I, vector):
    """returns r with  r  <=>  every 2x2 block has odd determinant  (r -> forall, not r -> a witness block)"""
    v = _vec_reader(vector)
    n = z3.simplify(to_z3(vector.shape[0]) / 4)
    path = I.path
    if I.choice is not None:
        r, w = I.choice["ret"], I.choice["witness"]
    else:
        r, w = path.fresh("valid", "bool"), path.fresh("vw")
    rt = to_z3(r)
    I.claim_forall("true-only-if-every-block-invertible", 0, n, lambda k: z3.Implies(rt, det_odd(v, k) == 1))
    nc = concrete_int(n)
    if w is None:
        if nc is None:
            w = path.fresh("vw")
            ex = z3.And(w >= 0, w < n, det_odd(v, w) != 1)
        else:
            ex = z3.Or(*[det_odd(v, z3.IntVal(k)) != 1 for k in range(nc)]) if nc else z3.BoolVal(False)
    else:
        ex = z3.And(w >= 0, w < n, det_odd(v, w) != 1)
    I.claim("false-only-if-some-block-singular", z3.Implies(z3.Not(rt), ex))
    return r


C[IVC] = Contract(IVC, requires=_ivc_requires, spec=_ivc_spec, extract=_ivc_extract,
                  clause="_is_valid_clifford(v) is True exactly when a_i d_i + b_i c_i = 1 (mod 2) for every qubit i")


def _ivc_loop_state(I, k, entry):
    from pyvc.symlist import SymList

    v = _vec_reader(entry["vector"])
    return {"checklist": SymList(k, lambda m: det_odd(v, m), "checklist")}


IVC_LOOPS = [Loop("_is_valid_clifford", "i", "range(n)", state=_ivc_loop_state, locals=("determinant_of_clifford",))]


# ------------------------------------------------------------------------------------------ _coeff_maker
CM = f"{LC}:_coeff_maker"


def coeff_entry(z1, z2, n, r, c):
    """coefficient (before the final mod 2) of unknown number c in equation number r:
       r = n*j + k encodes equation (j,k) of S^T Q^T P S' = 0  (j = r div n, k = r mod n - z3's built-in Euclidean division),
       c = 4*m + t encodes unknown t in (a,b,c,d) of qubit m:
           a_m: [m=k] z1[j,k]      b_m: [m=k and j=k]      c_m: z1[m,j] z2[m,k]      d_m: [m=j] z2[j,k]"""
    n, r, c = to_z3(n), to_z3(r), to_z3(c)
    j, k, m, t = r / n, r % n, c / 4, c % 4
    one, zero = z3.IntVal(1), z3.IntVal(0)
    return z3.If(t == 0, z3.If(m == k, as_int_term(z1(j, k)), zero),
                 z3.If(t == 1, z3.If(z3.And(m == k, j == k), one, zero),
                       z3.If(t == 2, as_int_term(z1(m, j)) * as_int_term(z2(m, k)),
                             z3.If(m == j, as_int_term(z2(j, k)), zero))))


def _cm_requires(I, z1, z2):
    if not (isinstance(z1, NDArr) and isinstance(z2, NDArr) and z1.ndim == 2 and z2.ndim == 2):
        return False
    n = to_z3(z1.shape[0])
    return _and(to_z3(z1.shape[1]) == n, to_z3(z2.shape[0]) == n, to_z3(z2.shape[1]) == n)


@contract(CM, requires=_cm_requires,
          clause="row n*j+k of the fresh (n^2 x 4n) matrix holds, mod 2, the coefficients of equation (j,k): a_k <- z1[j,k], "
                 "b_k <- [j=k], c_m <- z1[m,j] z2[m,k] for every m, d_j <- z2[j,k]; every other entry is 0; inputs not written")
def _coeff_maker(I, z1_matrix, z2_matrix):
    n = z1_matrix.shape[0]
    z1, z2 = z1_matrix.reader(), z2_matrix.reader()
    nn = to_z3(n) * to_z3(n)
    return new_array((nn, 4 * to_z3(n)), lambda r, c: coeff_entry(z1, z2, n, r, c) % 2, "coeff")


def _cm_parts(entry):
    n = to_z3(entry["n_nodes"])
    z1, z2 = entry.rd("z1_matrix"), entry.rd("z2_matrix")
    return n, (lambda r, c: coeff_entry(z1, z2, n, r, c))


def _cm_outer(I, J, entry):
    n, E = _cm_parts(entry)
    return {entry["coeff_matrix"]: lambda r, c: z3.If(r / n < J, E(r, c), z3.IntVal(0))}


def _cm_done(n, j, K):
    return lambda r: z3.Or(r / n < j, z3.And(r / n == j, r % n < K))


def _cm_middle(I, K, entry):
    n, E = _cm_parts(entry)
    done = _cm_done(n, to_z3(entry["j"]), K)
    return {entry["coeff_matrix"]: lambda r, c: z3.If(done(r), E(r, c), z3.IntVal(0))}


def _cm_inner(I, Mi, entry):
    n, E = _cm_parts(entry)
    j, k = to_z3(entry["j"]), to_z3(entry["k"])
    done = _cm_done(n, j, k)
    return {entry["coeff_matrix"]: lambda r, c: z3.If(done(r), E(r, c),
                                                      z3.If(z3.And(r / n == j, r % n == k, c / 4 < Mi), E(r, c), z3.IntVal(0)))}


CM_LOOPS = [Loop("_coeff_maker", "j", None, state=_cm_outer, locals=("k", "m", "row")),
            Loop("_coeff_maker", "k", None, state=_cm_middle, locals=("m", "row")),
            Loop("_coeff_maker", "m", None, state=_cm_inner, locals=("row",))]


# ------------------------------------------------------------------------------------------ corollaries / tasks
class LemmaTask:
    """obligations about the CONTRACTS themselves (corollaries the property states), proved for symbolic inputs"""

    def __init__(self, qual, label, fn, clause=""):
        self.qual, self.label, self.fn = qual, label, fn
        self.contract = Contract(qual, clause=clause)

    def run(self):
        from pyvc.interp import Engine, Path, Interp, Frame

        eng = Engine(10000)
        path = Path(eng, [])
        I = Interp(path, C, set(), {})
        I.stack.append(Frame(self.qual.split(":")[0], {}, self.label))
        self.fn(I)
        for r in eng.results.values():
            r.witness, r.replayed = None, False
        return eng


def _involution(I):
    """LC_v(LC_v(G)) = G for every simple graph G and vertex v (two applications of the contract of local_comp_graph)"""
    n, v = z3.Int("n"), z3.Int("v")
    I.path.assume(z3.And(n >= 1, v >= 0, v < n))
    g = NX.mk_graph(n, NX.simple_adj("G"), "G")
    g2 = C[LCG].apply(I, [C[LCG].apply(I, [g, v], {}), v], {})
    j, k = I.path.fresh("sk"), I.path.fresh("sk")
    rng = [j >= 0, j < n, k >= 0, k < n]
    I.path.oblige("local_comp_graph.involution:post.adjacency", g2.payload["adj"](j, k) == g.payload["adj"](j, k), extra=rng)
    # "toggles precisely the edges among the neighbours": an entry changes iff j != k and both are neighbours of v
    g1 = C[LCG].spec(I, g, v)
    a, a1 = g.payload["adj"], g1.payload["adj"]
    I.path.oblige("local_comp_graph.toggles-exactly-neighbour-pairs:post",
                  (a1(j, k) != a(j, k)) == z3.And(j != k, a(j, v) == 1, a(v, k) == 1), extra=rng)
    I.path.oblige("local_comp_graph.result-is-simple-graph:post",
                  z3.And(a1(j, k) == a1(k, j), a1(j, j) == 0, z3.Or(a1(j, k) == 0, a1(j, k) == 1)), extra=rng)


def tasks():
    from pyvc.contract import Task
    from pyvc import schema as S, loops

    n = z3.Int("n")
    T = []
    hooks = dict(NX.HOOKS)
    hooks.update({"loop": loops.make_hook(LCG_LOOPS), "matmul_support": lcg_support_hook})
    T.append(Task(LCG, C[LCG], [S.Assume(n >= 1), NX.SimpleGraph("G", n), S.IntArg("node_id")], C, hooks=hooks))
    m = z3.Int("m")
    T.append(Task(IVC, C[IVC], [S.Assume(m >= 0), S.Matrix("V", 4 * m, 1)], C, hooks={"loop": loops.make_hook(IVC_LOOPS)}))
    T.append(Task(IVC, C[IVC], [S.Assume(m >= 0), S.Matrix("V", 4 * m)], C, hooks={"loop": loops.make_hook(IVC_LOOPS)},
                  label="_is_valid_clifford[1-D]"))
    T.append(Task(CM, C[CM], [S.Assume(n >= 0), S.Matrix("Z1", n, n), S.Matrix("Z2", n, n)], C,
                  hooks={"loop": loops.make_hook(CM_LOOPS)}, timeout_ms=20000))
    T.append(LemmaTask(LCG, "local_comp_graph.corollaries", _involution,
                       clause="local complementation is an involution and toggles exactly the pairs of distinct neighbours of v"))
    return T


def canary_tasks():
    from pyvc.contract import Task
    from pyvc import schema as S, loops

    n, m = z3.Int("n"), z3.Int("m")
    hooks = dict(NX.HOOKS)
    hooks.update({"loop": loops.make_hook(LCG_LOOPS), "matmul_support": lcg_support_hook})

    def bad_lcg(I, input_graph, node_id):  # complements the closed neighbourhood (also toggles the edges at v itself)
        nn, adj = input_graph.payload["n"], input_graph.payload["adj"]
        v = to_z3(node_id)
        return NX.mk_graph(nn, lambda j, k: z3.If(j == k, z3.IntVal(0),
                                                  (adj(j, k) + adj(j, v) * adj(v, k) + z3.If(z3.Or(j == v, k == v), 1, 0)) % 2), "bad")

    def bad_ivc(I, vector):  # determinant without the b*c term
        v = _vec_reader(vector)
        r = I.choice["ret"] if I.choice is not None else I.path.fresh("valid", "bool")
        nq = z3.simplify(to_z3(vector.shape[0]) / 4)
        I.claim_forall("true-only-if-a*d-odd", 0, nq, lambda k: z3.Implies(to_z3(r), (as_int_term(v(4 * k)) * as_int_term(v(4 * k + 3))) % 2 == 1))
        return r

    def bad_cm(I, z1_matrix, z2_matrix):  # b_k gets a coefficient in EVERY equation (j,k), not only on the diagonal j = k
        nn = z1_matrix.shape[0]
        z1, z2 = z1_matrix.reader(), z2_matrix.reader()

        def e(r, c):
            r, c, n_ = to_z3(r), to_z3(c), to_z3(nn)
            return z3.If(c % 4 == 1, z3.If(c / 4 == r % n_, z3.IntVal(1), z3.IntVal(0)), coeff_entry(z1, z2, nn, r, c)) % 2

        return new_array((to_z3(nn) * to_z3(nn), 4 * to_z3(nn)), e, "coeff")

    return [
        Task(LCG, C[LCG], [S.Assume(n >= 1), NX.SimpleGraph("G", n), S.IntArg("node_id")], C, hooks=hooks,
             label="canary.local_comp_graph.closed-neighbourhood", spec_override=bad_lcg),
        Task(IVC, C[IVC], [S.Assume(m >= 0), S.Matrix("V", 4 * m, 1)], C, hooks={"loop": loops.make_hook(IVC_LOOPS)},
             label="canary._is_valid_clifford.determinant-without-bc", spec_override=bad_ivc),
        Task(CM, C[CM], [S.Assume(n >= 0), S.Matrix("Z1", n, n), S.Matrix("Z2", n, n)], C,
             hooks={"loop": loops.make_hook(CM_LOOPS)}, timeout_ms=20000, label="canary._coeff_maker.b-in-every-equation",
             spec_override=bad_cm),
    ]
