"""C01 - trace contracts for the stabilizer compiler's per-operation dispatch and the register->qubit index map.

Specification (from the property statement): photons are indexed before emitters; each operation class denotes the
textbook operation; measuring operations write the outcome they drew into their classical register; measure-CNOT-reset
measures the control, applies X on the target iff the outcome is 1, and resets the control to |0>.
"""
from __future__ import annotations

import z3

from pyvc.trace import recorder, TraceTask, Token, same
from pyvc.values import Obj, NDArr, FuncRef, new_array, to_z3, as_int_term
from pyvc import source
from .common import int_vector

SCOMP = "graphiq.backends.stabilizer.compiler"
SSTATE = "graphiq.backends.stabilizer.state"
CBASE = "graphiq.backends.compiler_base"
OPS = "graphiq.circuit.ops"
STATE = "graphiq.state"
NM = "graphiq.noise.noise_models"

ONE = {"Hadamard": "apply_hadamard", "Phase": "apply_phase", "PhaseDagger": "apply_phase_dagger", "SigmaX": "apply_sigmax",
       "SigmaY": "apply_sigmay", "SigmaZ": "apply_sigmaz"}
TWO = {"CNOT": "apply_cnot", "CZ": "apply_cz"}
CLASSICAL = {"ClassicalCNOT": "x", "ClassicalCZ": "z", "MeasurementCNOTandReset": "x"}
ALL_OPS = ["Input", "Output", "Identity"] + list(ONE) + list(TWO) + list(CLASSICAL) + ["MeasurementZ"]


def _outcome(I, *a):
    o = I.path.fresh("outcome")
    I.path.assume(z3.And(o >= 0, o <= 1))
    return o


def recorder_contracts():
    C = {}
    for cls in ("Stabilizer", "MixedStabilizer"):
        for m in list(ONE.values()) + list(TWO.values()) + ["reset_qubit"]:
            q = f"{SSTATE}:{cls}.{m}"
            C[q] = recorder(q, m)
        q = f"{SSTATE}:{cls}.apply_measurement"
        if cls == "Stabilizer":
            C[q] = recorder(q, "apply_measurement", result=_outcome)
        else:
            C[q] = recorder(q, "apply_measurement", result=lambda I, *a: Token("outcomes", I.path.fresh("mix")))
    q = f"{SSTATE}:MixedStabilizer.apply_conditioned_gate"
    C[q] = recorder(q, "apply_conditioned_gate")
    return C


INLINE = {
    f"{STATE}:QuantumState.rep_data", f"{CBASE}:CompilerBase.measurement_determinism", f"{CBASE}:CompilerBase.reg_to_index_func",
    f"{OPS}:*",
}


def no_noise(I):
    return Obj(I.get_class(NM, "NoNoise"))


def make_op(I, name, syms):
    """instantiate the REAL operation class through its real constructor chain, with symbolic register numbers"""
    cls = I.get_class(OPS, name)
    nn = no_noise(I)
    if name in ("Input", "Output"):
        return I.instantiate(cls, [], {"register": syms["r"], "reg_type": syms["rt"]})
    if name in ONE or name == "Identity":
        return I.instantiate(cls, [], {"register": syms["r"], "reg_type": syms["rt"], "noise": nn})
    if name in TWO:
        return I.instantiate(cls, [], {"control": syms["c"], "control_type": syms["ct"], "target": syms["t"],
                                       "target_type": syms["tt"], "noise": nn})
    if name in CLASSICAL:
        return I.instantiate(cls, [], {"control": syms["c"], "control_type": syms["ct"], "target": syms["t"],
                                       "target_type": syms["tt"], "c_register": syms["creg"], "noise": nn})
    if name == "MeasurementZ":
        return I.instantiate(cls, [], {"register": syms["r"], "reg_type": syms["rt"], "c_register": syms["creg"], "noise": nn})
    raise KeyError(name)


def idx(syms, reg, typ):
    return to_z3(reg) if typ == "p" else to_z3(reg) + syms["n_p"]


def reg_ok(syms, reg, typ):
    lim = syms["n_p"] if typ == "p" else syms["n_e"]
    return z3.And(to_z3(reg) >= 0, to_z3(reg) < lim)


def mk_inputs_factory(opname, rt, ct, tt, mode, mixed, compiler_cls=(SCOMP, "StabilizerCompiler"), rep=(SSTATE, None)):
    def mk(I):
        n_p, n_e, n_c = z3.Int("n_p"), z3.Int("n_e"), z3.Int("n_c")
        syms = dict(n_p=n_p, n_e=n_e, n_c=n_c, r=z3.Int("reg"), rt=rt, c=z3.Int("ctrl"), ct=ct, t=z3.Int("targ"), tt=tt,
                    creg=z3.Int("creg"))
        I.path.assume(z3.And(n_p >= 0, n_e >= 0, n_c >= 0))
        comp = Obj(I.get_class(*compiler_cls))
        comp.fields.update(_measurement_determinism=mode, _noise_simulation=False, _monte_carlo=False)
        state = Obj(I.get_class(STATE, "QuantumState"))
        repcls = rep[1] or ("MixedStabilizer" if mixed else "Stabilizer")
        state.fields["_rep_data"] = Obj(I.get_class(rep[0], repcls))
        op = make_op(I, opname, syms)
        qual = f"{CBASE}:CompilerBase.reg_to_index_func"
        q_index = I.call_function(FuncRef(CBASE, source.find(qual)[1], qual), [n_p], {}, force_body=True)
        creg_arr = int_vector(I, "CR", n_c)
        I.path.ghost["syms"] = syms
        I.path.ghost["cr0"] = creg_arr.reader()
        return [comp, state, op, n_p + n_e, q_index, creg_arr]

    return mk


def requires_factory(opname, rt, ct, tt):
    def req(I, comp, state, op, n_quantum, q_index, cregs):
        s = I.path.ghost["syms"]
        parts = []
        if opname in ONE or opname in ("Identity", "Input", "Output", "MeasurementZ"):
            parts.append(reg_ok(s, s["r"], rt))
        if opname in TWO or opname in CLASSICAL:
            parts += [reg_ok(s, s["c"], ct), reg_ok(s, s["t"], tt)]
            if ct == tt:
                parts.append(s["c"] != s["t"])
        if opname in CLASSICAL or opname == "MeasurementZ":
            parts.append(z3.And(s["creg"] >= 0, s["creg"] < s["n_c"]))
        return z3.And(*parts) if parts else True

    return req


def spec_factory(opname, rt, ct, tt, mode, mixed):
    """textbook semantics of one operation as an expected effect trace on the state representation"""

    def spec(I, cur, comp, state, op, n_quantum, q_index, cregs):
        s = I.path.ghost["syms"]
        cr0 = I.path.ghost["cr0"]
        wrote = None
        if opname in ("Input", "Output", "Identity"):
            pass
        elif opname in ONE:
            cur.expect(ONE[opname], idx(s, s["r"], rt))
        elif opname in TWO:
            cur.expect(TWO[opname], idx(s, s["c"], ct), idx(s, s["t"], tt))
        elif opname in CLASSICAL:
            o = cur.expect("apply_measurement", idx(s, s["c"], ct), mode)
            if mixed:
                cur.expect("apply_conditioned_gate", idx(s, s["t"], tt), o, CLASSICAL[opname])
            else:
                if I.path.decide(to_z3(o) == 1):
                    cur.expect("apply_sigmax" if CLASSICAL[opname] == "x" else "apply_sigmaz", idx(s, s["t"], tt))
            if opname == "MeasurementCNOTandReset":
                cur.expect("reset_qubit", idx(s, s["c"], ct), mode)
            wrote = o
        elif opname == "MeasurementZ":
            wrote = cur.expect("apply_measurement", idx(s, s["r"], rt), mode)
        # classical record: the outcome drawn is stored in the op's classical register, nothing else changes
        k = I.path.fresh("crk")
        rng = [k >= 0, k < s["n_c"]]
        if wrote is None or mixed:
            if not mixed or wrote is None:
                I.path.oblige(f"{cur.label}:classical-record.unchanged", as_int_term(cregs.get(k)) == cr0(k), extra=rng)
        else:
            I.path.oblige(f"{cur.label}:classical-record.holds-the-outcome",
                          as_int_term(cregs.get(k)) == z3.If(k == s["creg"], to_z3(wrote), cr0(k)), extra=rng)
        return None

    return spec


def abstract_noise_instantiate(I, cls, args, kwargs):
    """noise-model objects are abstract instances of their real class (isinstance works; constructors are not run)"""
    if cls.module == NM:
        o = Obj(cls)
        return o
    return NotImplemented


HOOKS = {"instantiate": abstract_noise_instantiate}


def tasks(C, modes=("probabilistic", 0, 1)):
    T = []
    for opname in ALL_OPS:
        if opname in TWO or opname in CLASSICAL:
            combos = [(None, ct, tt) for ct in "ep" for tt in "ep"]
        else:
            combos = [(rt, None, None) for rt in "ep"]
        measuring = opname in CLASSICAL or opname == "MeasurementZ"
        for rt, ct, tt in combos:
            for mixed in ((False,) if measuring else (False, True)):
                for mode in (modes if measuring else (0,)):
                    lab = f"StabilizerCompiler.compile_one_gate[{opname},{rt or ct + tt},{'Mixed' if mixed else 'Pure'},{mode}]"
                    T.append(TraceTask(f"{SCOMP}:StabilizerCompiler.compile_one_gate",
                                       mk_inputs_factory(opname, rt, ct, tt, mode, mixed),
                                       spec_factory(opname, rt, ct, tt, mode, mixed), C, inline=INLINE, label=lab,
                                       requires=requires_factory(opname, rt, ct, tt), hooks=HOOKS,
                                       clause=f"dispatch of {opname}: effect trace on the state equals the textbook operation; classical record"))
    return T
