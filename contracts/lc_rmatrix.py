"""C09 - `_R_matrix` (first step of lc_graph_operations): R = C*theta + D, a NEW matrix; the caller's adjacency matrix and the
solution array are not modified (frame).  Checked for int- and float-dtype adjacency inputs: numpy's np.asarray / in-place
arithmetic alias differently for the two, and a result that is right while the argument is silently overwritten breaks every later
use of the caller's graph (C09: "the local-complementation sequence it returns transforms the first graph into the second" - the
first graph being the one the caller still holds)."""
from __future__ import annotations

import z3

from pyvc.contract import Contract, Task
from pyvc.loops import SeqLoop
from pyvc import schema as S, loops
from pyvc.values import new_array, to_z3

LC = "graphiq.backends.lc_equivalence_check"
RM = f"{LC}:_R_matrix"
C = {}


def _req(I, adj, sol):
    n = to_z3(adj.shape[0])
    return z3.And(adj.ndim == 2, sol.ndim == 3, to_z3(adj.shape[1]) == n, to_z3(sol.shape[0]) == n, to_z3(sol.shape[1]) == 2,
                  to_z3(sol.shape[2]) == 2) if adj.ndim == 2 and sol.ndim == 3 else z3.BoolVal(False)


def _closed(ra, rs):
    return lambda i, j: z3.If(i == j, rs(i, 1, 1), rs(i, 1, 0) * ra(i, j))


def _spec(I, adj, sol):
    return new_array((adj.shape[0], adj.shape[1]), _closed(adj.reader(), sol.reader()), "R")


C[RM] = Contract(RM, requires=_req, spec=_spec,
                 clause="R[i,j] = C_i * theta[i,j] for j != i, R[i,i] = D_i; a new matrix - the arguments are not modified")


def _state(I, k, entry):
    ra, rs = entry.rd("adj_matrix"), entry.rd("solution")
    f = _closed(ra, rs)
    r0 = entry.rd("r_matrix")
    return {entry["r_matrix"]: lambda i, j: z3.If(i < k, f(i, j), r0(i, j))}


LOOPS = [SeqLoop("_R_matrix", "i", "range(n_nodes)", state=_state)]


def tasks():
    n = z3.Int("n")
    T = []
    for dt in ("int", "float"):
        T.append(Task(RM, C[RM], [S.Assume(n >= 1), S.NDInput("adj", (n, n), dtype=dt), S.NDInput("sol", (n, 2, 2), dtype="int")], C,
                      hooks={"loop": loops.make_hook(LOOPS)}, label=f"_R_matrix[{dt} adjacency]"))
    return T
