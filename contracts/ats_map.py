"""C10 - the relabel map and the result-assembly region of AlternateTargetSolver.solve (direction of the map, argument order).

(1) relabel_module.get_relabel_map(g1, g2), BOTH branches, with networkx's GraphMatcher as an [A] abstract:
      [A-GM]  GM = isomorphism.GraphMatcher(a, b);  GM.is_isomorphic() = nx.is_isomorphic(a, b) (one uninterpreted predicate of the two
              graph values, in this argument order);  once it returned True, GM.mapping = M with
                  0 <= M(u) < n_b,   M injective,   adj_b[M(u), M(v)] == adj_a[u, v]      for all nodes u, v of a    (n_a == n_b)
              i.e. an isomorphism FROM THE FIRST constructor argument TO THE SECOND.  Reading GM.mapping without the test having
              held is an obligation of the caller (`GraphMatcher.mapping-read-only-after-is_isomorphic-held`).
    contract (the statement of C10/C16 "rmap is an isomorphism target -> iso_graph"): the returned map m satisfies
                  adj_g2[m[u], m[v]] == adj_g1[u, v]   for all nodes u, v of g1,   m[u] a node of g2,   m injective on the nodes
    proved at a SKOLEM pair (u, v); direction matters: the inverse of an isomorphism satisfies adj_g1[m[u], m[v]] == adj_g2[u, v]
    instead, which does not imply the contract (counter-model: any pair on which the map is not an involution).  On the identity
    branch m additionally carries the sentinel key -1: 'self' (contracts/relabel.py proves that shape; here only the relation).
    Sizes: n = 2..5 concrete (the identity branch builds a Python dict from G.nodes()); the [A-GM] axiom is instantiated at all
    n^2 pairs (quantifier free).

(2) the RESULT-ASSEMBLY region of AlternateTargetSolver.solve: the statements of the body of `for iso_graph in iso_graphs:` from
    `lc_circ_list = []` to its end (mechanically extracted; the `lc_method` dispatch in front of it is (3); the rest of solve() is
    dropped - the de-duplication region is contracts/ats.py).  Callees are recorders (their own contracts live in C16 / C09 / C02 /
    C12); proved for an arbitrary iso_graph, k = 0..3 LC graphs, an arbitrary earlier results_list, conversion lists of length 2:
       - exactly one call get_relabel_map(self.target_graph, iso_graph) - ARGUMENT ORDER - and every new entry's 'map' is its result;
       - entry i is (circuit_i, {'g','score','map'}) with 'g' = lc_graphs[i] (the i-th element, the SAME object) and circuit_i the
         circuit graph_to_circ returned FOR lc_graphs[i] (after assign_noise of that very circuit when noise is simulated);
       - lc_check was called as (lc_graphs[i], iso_graph, validate=True) - it certifies gates that take GS(lc_graph) to GS(iso_graph) -
         its success flag is asserted (failure = the documented UserWarning exit), and the operations added to circuit_i are exactly
         str_to_op(the gates of THAT lc_check call), in order, or none when `lc_graph.adj == iso_graph.adj`;
       - earlier entries of results_list are untouched and the new ones are appended in the order of lc_graphs.
    With the callee contracts: Sem(circuit_i)|0> = GS(iso_graph) = GS(relabel(target, entry.map)) and entry.g is in the LC orbit.
(3) the `lc_method` dispatch at the head of that loop body [F over the 8 accepted values + an invalid one] (LcDispatchTask): one orbit
    explorer, run ON iso_graph, at most n_lc graphs requested, lc_orbit_finder flags as the method name says, ValueError otherwise.
    What stays [B-only]: the composition with the callee contracts (refsem), the Monte-Carlo branch (noise_simulation and monte_carlo),
    iso_finder and the statements of solve() in front of the loop.
"""
from __future__ import annotations

import ast
import hashlib
import itertools

import z3

from pyvc import source, models
from pyvc.interp import Interp, Engine, explore, RaiseEx, Undecided, Frame
from pyvc.values import FuncRef, Opaque, Builtin, to_z3, as_int_term, concrete_int
from pyvc.contract import Contract
from pyvc.trace import recorder
from . import nxmodel as NX

RELABEL = "graphiq.utils.relabel_module"
GRM = f"{RELABEL}:get_relabel_map"
ATS = "graphiq.solvers.alternate_target_solver"
QSOLVE = f"{ATS}:AlternateTargetSolver.solve"
SLC = "graphiq.backends.stabilizer.functions.local_cliff_equi_check"


# ------------------------------------------------------------------------------------------ [A-GM] GraphMatcher
def MAPFN():
    return z3.Function("nx_GM_mapping", z3.IntSort(), z3.IntSort(), z3.IntSort(), z3.IntSort())


def _adj(g):
    return lambda u, v: as_int_term(g.payload["adj"](to_z3(u), to_z3(v)))


def iso_axioms(ga, gb, M):
    """instances / quantified form of 'M is an isomorphism ga -> gb'"""
    na, nb = to_z3(ga.payload["n"]), to_z3(gb.payload["n"])
    A, B = _adj(ga), _adj(gb)
    out = [na == nb]
    c = concrete_int(ga.payload["n"])
    if c is not None:
        for u in range(c):
            out.append(z3.And(M(u) >= 0, M(u) < nb))
        for u in range(c):
            for v in range(c):
                out.append(B(M(u), M(v)) == A(u, v))
                if u < v:
                    out.append(M(u) != M(v))
    else:
        u, v = z3.Int("gm_u"), z3.Int("gm_v")
        rng = z3.And(u >= 0, u < na, v >= 0, v < na)
        out.append(z3.ForAll([u], z3.Implies(z3.And(u >= 0, u < na), z3.And(M(u) >= 0, M(u) < nb))))
        out.append(z3.ForAll([u, v], z3.Implies(rng, B(M(u), M(v)) == A(u, v))))
        out.append(z3.ForAll([u, v], z3.Implies(z3.And(rng, u != v), M(u) != M(v))))
    return out


def _graph_matcher(interp, g1, g2, *a, **k):
    if not (NX.is_graph(g1) and NX.is_graph(g2)) or a or k:
        raise Undecided("GraphMatcher on something that is not a pair of abstract graphs / with options")
    models.used("[A-GM] isomorphism.GraphMatcher(a,b): is_isomorphic() = nx.is_isomorphic(a,b); afterwards .mapping is an isomorphism "
                "FROM a TO b: adj_b[M(u),M(v)] == adj_a[u,v], M injective, into the nodes of b")
    return Opaque("nx.GraphMatcher", (g1, g2))


def external(interp, name, attr):
    if name == "networkx.algorithms.isomorphism" and attr == "GraphMatcher":
        return Builtin("GraphMatcher", _graph_matcher)
    return NX.external(interp, name, attr)


def getattr_hook(interp, obj, attr):
    if isinstance(obj, Opaque) and obj.tag == "nx.GraphMatcher":
        ga, gb = obj.payload
        ida, idb = ga.payload["id"], gb.payload["id"]
        if attr == "is_isomorphic":
            return Builtin("is_isomorphic", lambda i: NX.ISO()(ida, idb))
        if attr == "mapping":
            path = interp.path
            path.oblige(interp.ob_name("GraphMatcher.mapping-read-only-after-is_isomorphic-held"), NX.ISO()(ida, idb))

            def M(u, _f=MAPFN()):
                return _f(ida, idb, to_z3(u))

            for ax in iso_axioms(ga, gb, M):
                path.assume(ax)
            return Opaque("nx.mapping", dict(src=ga, dst=gb, fn=M))
        raise Undecided(f"GraphMatcher.{attr} has no [A] model")
    return NX.getattr_hook(interp, obj, attr)


def _permit_iso_assert(interp, name, node):
    return ast.unparse(node.test) == "GM.is_isomorphic()"


def grm_hooks():
    h = dict(NX.HOOKS)
    h["external"] = external
    h["getattr"] = getattr_hook
    h["permitted_asserts"] = _permit_iso_assert
    return h


# ------------------------------------------------------------------------------------------ (1) get_relabel_map
def relation_forward(g1, g2, m, u, v):
    """the contract: adj_g2[m[u], m[v]] == adj_g1[u, v]"""
    return _adj(g2)(m(u), m(v)) == _adj(g1)(u, v)


def relation_inverse(g1, g2, m, u, v):
    """WRONG (canary): what the inverse of a valid map satisfies"""
    return _adj(g1)(m(u), m(v)) == _adj(g2)(u, v)


class RelabelMapTask:
    def __init__(self, n, relation=relation_forward, label=None, arrays=False):
        self.n = n
        self.qual = GRM
        self.relation = relation
        self.arrays = arrays
        self.label = label or f"get_relabel_map.map-direction[n={n}{',ndarray' if arrays else ''}]"
        self.contract = Contract(GRM, clause="the returned map m is an isomorphism FROM g1 TO g2: adj_g2[m[u], m[v]] == adj_g1[u, v] for all "
                                              "nodes u, v of g1; m[u] is a node of g2; m is injective ([A-GM] for the matcher branch)")

    def run(self):
        eng = Engine(10000)
        m, node, _ = source.find(GRM)
        n = self.n
        L = self.label

        def harness(path):
            I = Interp(path, {}, set(), grm_hooks())
            I.task_name = GRM
            path.ghost["task"] = GRM
            I.stack.append(Frame(m.name, {}, L))
            g1, g2 = NX.SimpleGraph("G1", n).symbolic(I), NX.SimpleGraph("G2", n).symbolic(I)
            a1 = NX.SimpleAdj("G1", n).symbolic(I) if self.arrays else g1
            try:
                ret = I.call_function(FuncRef(m.name, node, GRM, None), [a1, g2], {}, force_body=True)
            except RaiseEx as e:
                eng.record(f"{L}:no-raise", "refuted", 0, f"raises {e.exc_name}: {e.msg}", None)
                return
            eng.record(f"{L}:no-raise", "discharged", 0, "", None)
            if isinstance(ret, dict):
                keys_ok = set(k for k in ret if k != -1) == set(range(n)) and all(isinstance(k, int) for k in ret)
                eng.record(f"{L}:post.map-defined-on-every-node-of-g1", "discharged" if keys_ok else "refuted", 0,
                           "" if keys_ok else f"keys {sorted(map(repr, ret))}", None)
                if not keys_ok:
                    return

                def mp(u):
                    t = z3.IntVal(-7)
                    for k in range(n):
                        t = z3.If(to_z3(u) == k, to_z3(ret[k]), t)
                    return t
            elif isinstance(ret, Opaque) and ret.tag == "nx.mapping":
                mp = ret.payload["fn"]
                eng.record(f"{L}:post.map-defined-on-every-node-of-g1", "discharged", 0, "", None)
            else:
                eng.record(f"{L}:post.returns-a-map", "refuted", 0, f"returned {ret!r}", None)
                return
            u, v = path.fresh("sk_u"), path.fresh("sk_v")
            rng = [u >= 0, u < n, v >= 0, v < n]
            path.oblige(f"{L}:post.map-is-an-isomorphism-from-g1-to-g2", self.relation(g1, g2, mp, u, v), extra=rng)
            path.oblige(f"{L}:post.map-values-are-nodes-of-g2", z3.And(mp(u) >= 0, mp(u) < n), extra=rng)
            path.oblige(f"{L}:post.map-injective", mp(u) != mp(v), extra=rng + [u != v])

        try:
            explore(eng, harness)
        except Undecided as un:
            eng.record(f"{L}:supported-subset", "undecided", 0, f"{un}", None)
        for r in eng.results.values():
            r.witness, r.replayed = None, False
        if any(r.status == "refuted" for r in eng.results.values()):
            w = native_search(self.relation, n)
            for r in eng.results.values():
                if r.status == "refuted" and w is not None:
                    r.witness, r.replayed = w, True
        return eng


def native_search(relation, n, tries=300):
    """a refuted obligation is confirmed on the REAL get_relabel_map: look for a pair of isomorphic graphs on n nodes on which the
    returned map violates `relation` (relation evaluated concretely)"""
    import numpy as np
    import networkx as nx
    from pyvc import schema

    fn = schema.real_callable(GRM)
    rng = np.random.default_rng(0)
    for _ in range(tries):
        a = np.triu(rng.integers(0, 2, size=(n, n)), 1)
        a = a + a.T
        p = rng.permutation(n)
        b = np.zeros_like(a)
        for u in range(n):
            for v in range(n):
                b[p[u], p[v]] = a[u, v]
        try:
            mp = fn(nx.from_numpy_array(a), nx.from_numpy_array(b))
        except Exception as e:  # noqa: BLE001
            return {"function": GRM, "args": {"g1": a.tolist(), "g2": b.tolist()}, "actual": f"raises {type(e).__name__}: {e}"}
        for u in range(n):
            for v in range(n):
                try:
                    if relation is relation_inverse:
                        ok = a[mp[u], mp[v]] == b[u, v]
                    else:
                        ok = b[mp[u], mp[v]] == a[u, v]
                except Exception:  # noqa: BLE001
                    ok = False
                if not ok:
                    return {"function": GRM, "args": {"g1": a.tolist(), "g2": b.tolist()},
                            "actual": {str(k): (int(x) if not isinstance(x, str) else x) for k, x in mp.items()},
                            "difference": f"relation violated at (u, v) = ({u}, {v})"}
    return None


# ------------------------------------------------------------------------------------------ (2) result assembly of solve()
def assembly_region():
    """-> (Module, FunctionDef, sha): body of `for iso_graph in iso_graphs:` from `lc_circ_list = ` to its end"""
    m, node, cls = source.find(QSOLVE)
    loops = [s for s in node.body if isinstance(s, ast.For) and ast.unparse(s.target) == "iso_graph"]
    if len(loops) != 1:
        raise Undecided("solve() no longer has exactly one top-level `for iso_graph in ...` loop")
    body = loops[0].body
    texts = [ast.unparse(s) for s in body]
    i0 = next((i for i, t in enumerate(texts) if t.startswith("lc_circ_list = ")), None)
    if i0 is None:
        raise Undecided("the iso_graph loop no longer has a statement `lc_circ_list = ...`")
    stmts = body[i0:]
    params = ["self", "setting", "iso_graph", "lc_graphs", "results_list", "mc_list"]
    fn = ast.FunctionDef(name="solve__assembly", args=ast.arguments(posonlyargs=[], args=[ast.arg(arg=p) for p in params], kwonlyargs=[],
                                                                    kw_defaults=[], defaults=[]), body=list(stmts), decorator_list=[],
                         type_params=[])
    ast.fix_missing_locations(fn)
    return m, fn, hashlib.sha256("\n".join(ast.dump(s) for s in stmts).encode()).hexdigest()


class AssemblyTask:
    def __init__(self, k, noise=False, prior=1, label=None, wrong=None):
        self.k, self.noise, self.prior, self.wrong = k, noise, prior, wrong
        self.qual = QSOLVE
        self.label = label or f"AlternateTargetSolver.solve.assembly-region[lc_graphs={k},noise={noise}]"
        self.contract = Contract(QSOLVE, clause="each new entry is (circuit for lc_graphs[i] + the conversion gates lc_check(lc_graphs[i], iso_graph) "
                                                 "certified, {'g': lc_graphs[i], 'map': get_relabel_map(self.target_graph, iso_graph)}) - "
                                                 "argument orders as stated; earlier entries untouched")

    def run(self):
        eng = Engine(10000)
        L = self.label
        try:
            m, fn, sha = assembly_region()
        except Undecided as un:
            eng.record(f"{L}:supported-subset", "undecided", 0, f"{un}", None)
            return eng
        k = self.k

        def harness(path):
            n = z3.Int("n")
            path.assume(n >= 1)
            target = NX.SimpleGraph("TARGET", n).symbolic(path)
            iso = NX.SimpleGraph("ISO", n).symbolic(path)
            lcs = [NX.SimpleGraph(f"LC{i}", n).symbolic(path) for i in range(k)]
            self_obj = Opaque("ats.self", {})
            trace = path.trace = []

            def rec(name, args, ret):
                trace.append({"name": name, "args": list(args), "ret": ret})
                return ret

            def h_getattr(interp, obj, attr):
                if isinstance(obj, Opaque) and obj.tag == "ats.self":
                    if attr == "target_graph":
                        return target
                    if attr == "noise_simulation":
                        return self.noise
                    if attr == "monte_carlo":
                        return False
                    if attr == "noise_model_mapping":
                        return Opaque("noise_model_mapping")
                    if attr == "noise_score":
                        return Builtin("noise_score", lambda i, c, mp: rec("noise_score", [c, mp], Opaque("score", (c, mp))))
                    raise Undecided(f"self.{attr} is not part of the assembly harness")
                if isinstance(obj, Opaque) and obj.tag == "circuit":
                    if attr == "add":
                        def add(i, op):
                            obj.payload["added"].append(op)
                            rec("circuit.add", [obj, op], None)
                        return Builtin("add", add)
                    if attr == "assign_noise":
                        def assign_noise(i, mapping):
                            c2 = Opaque("circuit", {"g": obj.payload["g"], "added": list(obj.payload["added"]), "noisy_copy_of": obj,
                                                    "gates_of": obj.payload.get("gates_of")})
                            return rec("assign_noise", [obj, mapping], c2)
                        return Builtin("assign_noise", assign_noise)
                    raise Undecided(f"circuit.{attr} is not part of the assembly harness")
                if NX.is_graph(obj) and attr == "adj":
                    return Opaque("nx.adjview", obj)
                return NX.getattr_hook(interp, obj, attr)

            def h_compare(interp, op, a, b):
                if isinstance(a, Opaque) and isinstance(b, Opaque) and a.tag == b.tag == "nx.adjview" and isinstance(op, (ast.Eq, ast.NotEq)):
                    e = path.fresh("adjview_equal", "bool")
                    rec("adj==", [a.payload, b.payload], e)
                    return e if isinstance(op, ast.Eq) else z3.Not(e)
                return NotImplemented

            def c_grm(I, g1, g2):
                return rec("get_relabel_map", [g1, g2], Opaque("relabel-map", (g1, g2)))

            def c_g2c(I, graph, *a):
                return rec("graph_to_circ", [graph], Opaque("circuit", {"g": graph, "added": []}))

            def c_lcc(I, g1, g2, validate=True):
                ok = path.fresh("lc_success", "bool")
                return rec("lc_check", [g1, g2, validate], (ok, Opaque("gates", (g1, g2))))

            def c_scc(I, g1, g2, validate=True):
                return rec("state_converter_circuit", [g1, g2, validate], Opaque("conv-circuit"))

            def c_s2o(I, gates):
                return rec("str_to_op", [gates], [Opaque("op", (gates, 0)), Opaque("op", (gates, 1))])

            contracts = {
                GRM: Contract(GRM, spec=c_grm), f"{ATS}:graph_to_circ": Contract(f"{ATS}:graph_to_circ", spec=c_g2c),
                f"{SLC}:lc_check": Contract(f"{SLC}:lc_check", spec=c_lcc),
                f"{SLC}:state_converter_circuit": Contract(f"{SLC}:state_converter_circuit", spec=c_scc),
                f"{SLC}:str_to_op": Contract(f"{SLC}:str_to_op", spec=c_s2o),
            }
            hooks = dict(NX.HOOKS)
            hooks["getattr"] = h_getattr
            hooks["compare"] = h_compare
            hooks["permitted_asserts"] = lambda interp, name, node: ast.unparse(node.test) == "success"
            I = Interp(path, contracts, set(), hooks)
            I.task_name = QSOLVE + "#assembly"
            I.stack.append(Frame(m.name, {}, L))
            prior = [(Opaque("circuit", {"g": None, "added": []}), {"g": Opaque("prior-g", j), "score": 0.0, "map": Opaque("prior-map", j)})
                     for j in range(self.prior)]
            results = list(prior)
            try:
                I.call_function(FuncRef(m.name, fn, QSOLVE + "#assembly"), [self_obj, Opaque("setting"), iso, list(lcs), results, []], {},
                                force_body=True)
            except RaiseEx as e:
                ok = e.exc_name == "UserWarning" and any(ev["name"] == "lc_check" for ev in trace)
                eng.record(f"{L}:no-raise", "discharged" if ok else "refuted", 0,
                           "" if ok else f"raises {e.exc_name}: {e.msg}", None)
                return
            eng.record(f"{L}:no-raise", "discharged", 0, "", None)

            def ob(name, ok, detail=""):
                eng.record(f"{L}:post.{name}", "discharged" if ok else "refuted", 0, "" if ok else detail, None)
                return ok

            if not ob("earlier-entries-untouched-and-k-new-entries-appended",
                      len(results) == self.prior + k and all(a is b for a, b in zip(results, prior)),
                      f"{len(results)} entries, {self.prior} before, {k} LC graphs"):
                return
            grm = [ev for ev in trace if ev["name"] == "get_relabel_map"]
            first, second = (target, iso) if self.wrong != "map-args" else (iso, target)
            ob("exactly-one-get_relabel_map-call-with-(self.target_graph, iso_graph)",
               len(grm) == 1 and grm[0]["args"][0] is first and grm[0]["args"][1] is second,
               "get_relabel_map called with " + "; ".join(repr([_nm(a, target, iso, lcs) for a in ev["args"]]) for ev in grm))
            if len(grm) != 1:
                return
            rmap = grm[0]["ret"]
            for i in range(k):
                ent = results[self.prior + i]
                shape = isinstance(ent, tuple) and len(ent) == 2 and isinstance(ent[1], dict) and set(ent[1]) == {"g", "score", "map"}
                if not ob(f"entry{i}.is-(circuit,{{g,score,map}})", shape, repr(ent)):
                    continue
                circ, info = ent
                ob(f"entry{i}.map-is-the-relabel-map-of-(target,iso_graph)", info["map"] is rmap, repr(info["map"]))
                want_g = lcs[i] if self.wrong != "g" else iso
                ob(f"entry{i}.g-is-lc_graphs[{i}]", info["g"] is want_g, _nm(info["g"], target, iso, lcs))
                base = circ
                if isinstance(circ, Opaque) and circ.tag == "circuit" and circ.payload.get("noisy_copy_of") is not None:
                    base = circ.payload["noisy_copy_of"]
                g2c = [ev for ev in trace if ev["name"] == "graph_to_circ" and ev["ret"] is base]
                ob(f"entry{i}.circuit-was-solved-for-lc_graphs[{i}]", len(g2c) == 1 and g2c[0]["args"][0] is lcs[i],
                   f"circuit of {[_nm(ev['args'][0], target, iso, lcs) for ev in g2c]}")
                if self.noise:
                    ob(f"entry{i}.noisy-circuit-is-assign_noise-of-that-circuit", base is not circ, "")
                chk = [ev for ev in trace if ev["name"] == "lc_check" and ev["args"][0] is lcs[i]]
                a0, a1 = (lcs[i], iso) if self.wrong != "lc_check-args" else (iso, lcs[i])
                good = len(chk) == 1 and chk[0]["args"][0] is a0 and chk[0]["args"][1] is a1 and chk[0]["args"][2] is True
                all_chk = [ev for ev in trace if ev["name"] == "lc_check"]
                ob(f"entry{i}.lc_check(lc_graphs[{i}], iso_graph, validate=True)", good and len(all_chk) == k,
                   "lc_check calls: " + "; ".join(repr([_nm(a, target, iso, lcs) for a in ev["args"]]) for ev in all_chk))
                if not good:
                    continue
                success, gates = chk[0]["ret"]
                path.oblige(f"{L}:post.entry{i}.lc_check-success-was-asserted", success)
                eqs = [ev for ev in trace if ev["name"] == "adj==" and lcs[i] in ev["args"] and iso in ev["args"]]
                added = base.payload["added"] if isinstance(base, Opaque) and base.tag == "circuit" else None
                if not ob(f"entry{i}.one-adjacency-test-of-(lc_graphs[{i}], iso_graph)", len(eqs) == 1 and added is not None, f"{len(eqs)} tests"):
                    continue
                same_adj = eqs[0]["ret"]
                if path.decide(same_adj):
                    ob(f"entry{i}.no-conversion-gates-when-the-adjacencies-are-equal", added == [], repr(added))
                else:
                    want = [Opaque("op", (gates, 0)), Opaque("op", (gates, 1))]
                    ok_ = len(added) == 2 and all(isinstance(o, Opaque) and o.tag == "op" and o.payload[0] is gates and o.payload[1] == j
                                                  for j, o in enumerate(added))
                    ob(f"entry{i}.added-operations-are-str_to_op(gates-of-that-lc_check)-in-order", ok_, repr([getattr(o, 'payload', o) for o in added]))

        try:
            explore(eng, harness)
        except Undecided as un:
            eng.record(f"{L}:supported-subset", "undecided", 0, f"{un}", None)
        for r in eng.results.values():
            r.witness, r.replayed = None, False
        return eng


# ------------------------------------------------------------------------------------------ (3) the lc_method dispatch of solve()
LC_TABLE = {
    # lc_method -> (explorer, truncated by [:n_lc]?, keyword flags of lc_orbit_finder that must be True)
    "rgs": ("rgs_orbit_finder", True, ()), "linear": ("linear_partial_orbit", True, ()), "depth_first": ("depth_first_orbit", True, ()),
    "lc_with_iso": ("lc_orbit_finder", False, ("with_iso",)), "random": ("lc_orbit_finder", False, ("rand",)),
    "random_with_iso": ("lc_orbit_finder", False, ("with_iso", "rand")),
    "random_with_rep": ("lc_orbit_finder", False, ("with_iso", "rand", "rep_allowed")), None: ("lc_orbit_finder", False, ()),
}
EXPLORERS = ["rgs_orbit_finder", "linear_partial_orbit", "depth_first_orbit", "lc_orbit_finder"]


class LcDispatchTask:
    """the `if setting.lc_method == ...` chain at the head of the iso_graph loop body [F over the 8 accepted values + an invalid one]:
    exactly one orbit explorer runs, ON iso_graph (the isomorph whose relabel map the entries record - not the target, not an earlier
    LC graph); at most n_lc graphs are requested (the scripted explorers' result is cut to [:n_lc], lc_orbit_finder gets
    orbit_size_thresh=n_lc and comp_depth=setting.lc_orbit_depth); the lc_orbit_finder flags are exactly the ones the method name says;
    `lc_graphs` is that result; an unknown value raises ValueError before anything is explored."""

    def __init__(self, method, label=None, wrong=None):
        self.method, self.wrong = method, wrong
        self.qual = QSOLVE
        self.label = label or f"AlternateTargetSolver.solve.lc_method-dispatch[{method!r}]"
        self.contract = Contract(QSOLVE, clause="one orbit explorer on iso_graph, at most n_lc graphs, flags as the method name says; lc_graphs is its "
                                                 "result; invalid method: ValueError")

    def run(self):
        eng = Engine(10000)
        L = self.label
        m, node, cls = source.find(QSOLVE)
        loops = [s for s in node.body if isinstance(s, ast.For) and ast.unparse(s.target) == "iso_graph"]
        chain = loops[0].body[0] if len(loops) == 1 and loops[0].body and isinstance(loops[0].body[0], ast.If) else None
        if chain is None or "setting.lc_method" not in ast.unparse(chain.test):
            eng.record(f"{L}:supported-subset", "undecided", 0, "the iso_graph loop no longer starts with the lc_method if-chain", None)
            return eng
        fn = ast.FunctionDef(name="solve__lc_dispatch", args=ast.arguments(posonlyargs=[], args=[ast.arg(arg=p) for p in ("self", "setting", "iso_graph", "n_lc")],
                                                                           kwonlyargs=[], kw_defaults=[], defaults=[]),
                             body=[chain, ast.Return(value=ast.Name(id="lc_graphs", ctx=ast.Load()))], decorator_list=[], type_params=[])
        ast.fix_missing_locations(fn)

        def harness(path):
            n = z3.Int("n")
            # the slice bound of `explorer(iso_graph)[:n_lc]` must be concrete for the interpreter (a symbolic bound would be dropped):
            # n_lc = 2 for the scripted explorers, symbolic for the lc_orbit_finder branches
            n_lc = 2 if LC_TABLE.get(self.method, ("", False))[1] else z3.Int("n_lc")
            depth = path.fresh("lc_orbit_depth")
            path.assume(n >= 1)
            if not isinstance(n_lc, int):
                path.assume(n_lc >= 1)
            target = NX.SimpleGraph("TARGET", n).symbolic(path)
            iso = NX.SimpleGraph("ISO", n).symbolic(path)
            log = []

            def h_getattr(interp, obj, attr):
                if isinstance(obj, Opaque) and obj.tag == "ats.setting":
                    if attr == "lc_method":
                        return self.method
                    if attr == "lc_orbit_depth":
                        return depth
                    raise Undecided(f"setting.{attr} is not part of the dispatch harness")
                if isinstance(obj, Opaque) and obj.tag == "ats.self":
                    if attr == "target_graph":
                        return target
                    raise Undecided(f"self.{attr} is not part of the dispatch harness")
                return NX.getattr_hook(interp, obj, attr)

            def h_slice(interp, obj, lo, hi, st):
                return None

            def explorer(name):
                def spec(I, graph, *a, **kw):
                    sig = source.find(f"{RELABEL}:{name}")[1].args
                    names = [p.arg for p in sig.args][1:]
                    bound = dict(zip(names, a))
                    bound.update(kw)
                    r = Opaque("orbit", (name, len(log)))
                    log.append((name, graph, bound, r))
                    return r
                return Contract(f"{RELABEL}:{name}", spec=spec)

            contracts = {f"{RELABEL}:{e}": explorer(e) for e in EXPLORERS}
            hooks = dict(NX.HOOKS)
            hooks["getattr"] = h_getattr

            def getitem_slice(interp, obj, lo, hi, st):
                if isinstance(obj, Opaque) and obj.tag == "orbit":
                    return Opaque("orbit-prefix", (obj, lo, hi, st))
                return None

            hooks["getslice"] = getitem_slice
            I = Interp(path, contracts, set(), hooks)
            I.task_name = QSOLVE + "#lc_dispatch"
            I.stack.append(Frame(m.name, {}, L))
            raised = None
            ret = None
            try:
                ret = I.call_function(FuncRef(m.name, fn, QSOLVE + "#lc_dispatch"), [Opaque("ats.self"), Opaque("ats.setting"), iso, n_lc], {},
                                      force_body=True)
            except RaiseEx as e:
                raised = e

            def ob(name, ok, detail=""):
                eng.record(f"{L}:post.{name}", "discharged" if ok else "refuted", 0, "" if ok else detail, None)
                return ok

            if self.method not in LC_TABLE:
                ob("invalid-method-raises-ValueError-before-exploring", raised is not None and raised.exc_name == "ValueError" and not log,
                   f"raised {raised.exc_name if raised else None}, calls {[e[0] for e in log]}")
                return
            if not ob("no-raise", raised is None, f"raises {raised.exc_name if raised else ''}"):
                return
            want, cut, flags = LC_TABLE[self.method]
            if not ob("exactly-one-orbit-explorer-runs", len(log) == 1 and log[0][0] == want, repr([e[0] for e in log])):
                return
            name, graph, bound, res = log[0]
            ob("explorer-runs-on-iso_graph", graph is (iso if self.wrong != "on-target" else target), _nm(graph, target, iso, []))
            if cut:
                is_prefix = isinstance(ret, Opaque) and ret.tag == "orbit-prefix" and ret.payload[0] is res and ret.payload[1:] == (None, 2, None)
                ob("lc_graphs-is-the-explorer's-result-cut-to-[:n_lc]", is_prefix, repr(getattr(ret, "payload", ret)))
            else:
                ob("lc_graphs-is-the-explorer's-result", ret is res, repr(ret))
                thr = bound.get("orbit_size_thresh")
                path.oblige(f"{L}:post.at-most-n_lc-graphs-requested", (to_z3(thr) == to_z3(n_lc)) if thr is not None else z3.BoolVal(False))
                dp = bound.get("comp_depth")
                path.oblige(f"{L}:post.depth-is-setting.lc_orbit_depth", (to_z3(dp) == depth) if dp is not None and not isinstance(dp, bool) else z3.BoolVal(False))
                on = tuple(sorted(k for k in ("with_iso", "rand", "rep_allowed") if bound.get(k) is True))
                ob("flags-are-the-ones-the-method-name-says", on == tuple(sorted(flags)) and all(bound.get(k) in (None, False, True) for k in ("with_iso", "rand", "rep_allowed")),
                   f"flags on: {on}, expected {tuple(sorted(flags))}")

        try:
            explore(eng, harness)
        except Undecided as un:
            eng.record(f"{L}:supported-subset", "undecided", 0, f"{un}", None)
        for r in eng.results.values():
            r.witness, r.replayed = None, False
        return eng


def _nm(v, target, iso, lcs):
    if v is target:
        return "self.target_graph"
    if v is iso:
        return "iso_graph"
    for i, g in enumerate(lcs):
        if v is g:
            return f"lc_graphs[{i}]"
    return repr(v)


# ------------------------------------------------------------------------------------------ task lists
def tasks(tier="quick"):
    T = [RelabelMapTask(n) for n in ((2, 3, 4) if tier == "quick" else (2, 3, 4, 5))]
    T.append(RelabelMapTask(3, arrays=True))
    for k in (0, 1, 2, 3):
        T.append(AssemblyTask(k, noise=False))
    T.append(AssemblyTask(2, noise=True))
    for mth in list(LC_TABLE) + ["max edge"]:
        T.append(LcDispatchTask(mth))
    return T


def canary_tasks():
    """deliberately wrong contracts that must be refuted (the first one with a native counterexample on the real function)"""
    return [
        RelabelMapTask(3, relation=relation_inverse, label="canary.get_relabel_map.inverse-direction"),
        AssemblyTask(2, label="canary.solve.assembly.map-arguments-swapped", wrong="map-args"),
        AssemblyTask(2, label="canary.solve.assembly.g-is-the-iso-graph", wrong="g"),
        AssemblyTask(1, label="canary.solve.assembly.lc_check-arguments-swapped", wrong="lc_check-args"),
        LcDispatchTask("linear", label="canary.solve.lc_method-dispatch.explores-the-target", wrong="on-target"),
    ]


# ------------------------------------------------------------------------------------------ wiring (props/C10.py)
def extend_deductive(d, tier="quick"):
    """run the tasks and canaries of this module and merge them into the Deductive `d` of props/C10.py"""
    from pyvc.driver import run_tasks, merge
    from contracts.tasks_stab import canary_summary

    d2 = run_tasks(tasks(tier))
    can = run_tasks(canary_tasks())
    out = merge(d, d2)
    out.errors.extend(can.errors)
    out.canaries = list(out.canaries) + canary_summary(can)
    for c in out.canaries:
        if c["name"].startswith("canary.solve.") and c["refuted"] and not c["replayed"]:
            out.notes.append(f"canary {c['name']} refuted (call-order / object-identity contract: no input-dependent counter-model to replay)")
    out.dropped = [t for t in out.dropped if not t.startswith("AlternateTargetSolver.solve: only the de-duplication region")] + [
        "AlternateTargetSolver.solve: the de-duplication region (statements `adj_list = ...` .. `for index in redundant_indices[::-1]`) is "
        "extracted by contracts/ats.py",
        "AlternateTargetSolver.solve: the body of `for iso_graph in iso_graphs` is verified in two extracted pieces (the lc_method if-chain; "
        "the statements from `lc_circ_list = []` to the end of the body); the Monte-Carlo noise branch and the statements of solve() in "
        "front of the loop (iso_finder call, repeater-graph test) are not under contract"]
    out.trusted_base = [t for t in out.trusted_base if not t.startswith("[B-only] composition inside solve()")] + [
        "[A-GM] networkx GraphMatcher(a, b): is_isomorphic() = nx.is_isomorphic(a, b); afterwards .mapping is an isomorphism FROM a TO b "
        "(adj_b[M(u), M(v)] == adj_a[u, v], injective, into the nodes of b); reading .mapping before the test held is an obligation",
        "[P] get_relabel_map(g1, g2) returns an isomorphism g1 -> g2 (n = 2..4, quick; ..5 thorough; both branches); solve() calls it as "
        "(self.target_graph, iso_graph) and stores that very map; 'g' is the LC graph the circuit was solved for; the conversion gates "
        "are those lc_check(lc_graph, iso_graph) certified (argument orders proved on the extracted assembly region)",
        "[B-only] composition with the callee contracts (C16 relabel, C09 lc_check certificate, C02 graph_to_circ, C12 add): "
        "Sem(circuit)|0> = GS(relabel(target, map)) and 'g' in the LC orbit - judged by refsem in the bounded part",
    ]
    return out
