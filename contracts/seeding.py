"""C19 - SolverBase.seed: reproducibility starts here.  Contract (from the property: "with a fixed seed the solvers are
reproducible" - for EVERY seed value, 0 included): for an integer seed both generators the solvers draw from are seeded with
exactly that value - one call np.random.seed(seed) and one call random.seed(seed), in any order, nothing else - and the value is
recorded in SolverBase.last_seed.  The seed is a symbolic integer; the path forks on any test the body makes on it."""
from __future__ import annotations

import z3

from pyvc import source
from pyvc.contract import Contract
from pyvc.interp import Interp, Engine, explore, RaiseEx, Undecided, Frame
from pyvc.values import Builtin, FuncRef, ModRef

QUAL = "graphiq.solvers.solver_base:SolverBase.seed"


class SeedTask:
    def __init__(self, timeout_ms=3000):
        self.qual = QUAL
        self.label = "SolverBase.seed[any integer seed]"
        self.contract = Contract(QUAL, clause="np.random.seed(seed) and random.seed(seed) are both called with the given value, for "
                                              "every integer seed (0 included); last_seed records it")
        self.timeout_ms = timeout_ms

    def run(self):
        eng = Engine(self.timeout_ms)
        m, node, cls = source.find(self.qual)

        def harness(path):
            calls = []

            def external(interp, name, attr):
                if name == "numpy.random" and attr == "seed":
                    return Builtin("np.random.seed", lambda i, *a, **k: calls.append(("numpy", a, k)))
                if name == "random" and attr == "seed":
                    return Builtin("random.seed", lambda i, *a, **k: calls.append(("random", a, k)))
                return NotImplemented

            written = {}

            def setattr_hook(interp, obj, attr, v):  # class attribute write SolverBase.last_seed = ...
                if getattr(obj, "name", None) == "SolverBase":
                    written[attr] = v
                    return True
                return False

            I = Interp(path, {}, set(), {"external": external, "setattr": setattr_hook})
            I.task_name = self.qual
            f = FuncRef(m.name, node, self.qual, I.get_class(m.name, "SolverBase"))
            I.stack.append(Frame(m.name, {}, self.label))
            s = z3.Int("seed")
            try:
                I.call_function(f, [s], {}, force_body=True)
            except RaiseEx as e:
                eng.record(f"{self.label}:no-raise", "refuted", 0, f"real body raises {e.exc_name}", None)
                return
            eng.record(f"{self.label}:no-raise", "discharged", 0, "", None)
            for gen in ("numpy", "random"):
                mine = [c for c in calls if c[0] == gen]
                ok = len(mine) == 1 and len(mine[0][1]) == 1 and not mine[0][2]
                eng.record(f"{self.label}:post.{gen}-generator-seeded-exactly-once", "discharged" if ok else "refuted", 0,
                           "" if ok else f"{len(mine)} call(s) of {gen} seed on a feasible path (path condition: {path.pc!r})", None)
                if ok:
                    path.oblige(f"{self.label}:post.{gen}-generator-seeded-with-the-given-value", mine[0][1][0] == s)
            got = written.get("last_seed")
            if got is None:
                eng.record(f"{self.label}:post.last_seed-records-the-seed", "refuted", 0, "SolverBase.last_seed is not assigned", None)
            else:
                path.oblige(f"{self.label}:post.last_seed-records-the-seed", got == s if isinstance(got, z3.ExprRef) else z3.BoolVal(False))

        try:
            explore(eng, harness)
        except Undecided as u:
            eng.record(f"{self.label}:supported-subset", "undecided", 0, f"{u}", None)
        for r in eng.results.values():
            r.witness, r.replayed = None, False
        return eng


def tasks():
    return [SeedTask()]
