"""C09 - gate-list assembly of local_cliff_equi_check.py: lc_check, converter_gate_list, state_converter_circuit.

What the property needs ("the single-qubit Clifford gates it returns transform the first graph state exactly into the second"):
lc_check reduces state i to a graph state by a gate list R_i (state_to_graph), converts graph 1 into graph 2 by C
(converter_gate_list) and must return        R_1 ; C ; R_2^{-1}
where the inverse of a circuit is the REVERSED sequence with every gate inverted (H->H, Z->Z, X->X, I->I, P_dag<->P).

  lc_check [P, symbolic list lengths]   (LcCheckTask; gate lists = pyvc/gateseq.GateSeq, arbitrary length, names from the whole
        six-letter alphabet of str_to_op, arbitrary qubits; the loop over gates2 by the MAP rule of pyvc/gateseq.py - complete case
        split over the alphabet on an arbitrary element, induction over the length, no unrolling)
      post.calls            state_to_graph(state1), state_to_graph(state2), converter_gate_list(graph1, graph2) - in this order,
                            graphs in this order
      post.total.len/.gate-name/.qubit     returned list == gates1 + conv + reverse(map(inverse, gates2)) at a skolem position:
                            ANY re-ordering (sort, missing reversal, map without reversal), a wrong inverse table or a dropped
                            segment fails here; counter-models are replayed on the REAL lc_check with state_to_graph /
                            converter_gate_list replaced by stubs that hand out the model's lists
      post.no-equivalence   converter_gate_list raises  =>  (False, [])
      validate=True         the list that is validated (run_circuit on a COPY of tab1, canonical forms of both sides, tableau ==)
                            is the list that is returned; normal return only when the comparison is true, otherwise Warning
  converter_gate_list [trace]   is_lc_equivalent(adj(g1), adj(g2)) in this order; for every qubit i ascending the word lc_ops[i] in
      REVERSED word order (matrix product order -> time order), all on qubit i; then _phase_correction(tableau(g1), tableau(g2),
      <exactly that list>) appended.
        ConvTask    [F over the 6 x 6 local-Clifford words x 4 possible corrections, n = 2]: fully concrete lists, exact comparison;
                    refutations are replayed on the REAL function with its four callees stubbed
        ConvSymTask [P, symbolic n] FLAT-MAP rule: the loop body is run for an ARBITRARY qubit i and every one of the six words
                    (complete case split) and must append exactly the reversed word on qubit i; the list after the loop is a
                    fresh gate sequence standing for "segment 0, segment 1, ..." (induction on n), everything after it (the call
                    of _phase_correction, `+=`, return) is checked extensionally on it
  str_to_op [F over the six names; tuple and list input]: textbook operation class, register = the tuple's qubit, reg_type "p".
  state_converter_circuit [P, trace; validate=False]: the circuit is built from lc_check(state1, state2)'s list, one str_to_op per
      gate added in list order to ONE CircuitDAG(n_photon = number of qubits) which is returned; AssertionError iff lc_check says no
      (FOREACH rule: arbitrary element, all six names); validate=True: the RETURNED circuit is compiled starting from the Clifford tableau of
      state 1 and the Infidelity metric built around the Clifford tableau of state 2 is evaluated on the compiled state (recorded calls;
      the final np.isclose assert is a certificate).

Known findings these contracts do NOT speak about (and must not "prove"): KF-C09-1 (is_lc_equivalent's false "no" for disconnected
graphs - here converter_gate_list raising is simply an accepted outcome of the recorded call, answered by (False, [])) and
KF-C09-node-order (converter_gate_list reads each networkx graph through nx.to_numpy_array in the graph's OWN node-insertion order:
the recorded value adj(g) is whatever that call returns; no obligation says the two matrices list the vertices in the same order).
NOT here: that C itself maps graph 1 to graph 2 (is_lc_equivalent's solution + local_clifford_ops table: props/C09.py [F] table,
[B-only] search) and that R_i reduces state i (contracts/graph_finder.py: bookkeeping only; float GF(2) inverse [N]).
Recorder contracts ([A-recorders]): state_to_graph returns (graph, tableau, gate list), converter_gate_list a gate list or raises,
canonical_form / run_circuit return their (first) argument, is_lc_equivalent / local_clifford_ops / _phase_correction abstract results.
"""
from __future__ import annotations

import z3

from pyvc import source
from pyvc import gateseq as GS
from pyvc.contract import Contract
from pyvc.interp import Interp, Engine, explore, RaiseEx, Undecided, PathEnd, Frame
from pyvc.trace import recorder, Token
from pyvc.values import Obj, Opaque, FuncRef, to_z3, as_int_term, concrete_int
from .common import STABF, TRANS, TAB, TABLEAU_ACCESSORS, mk_stabilizer

LCC = "graphiq.backends.stabilizer.functions.local_cliff_equi_check"
SRC = "graphiq.backends.state_rep_conversion"
LCE = "graphiq.backends.lc_equivalence_check"
RC = "graphiq.backends.stabilizer.functions.rep_conversion"
LC_CHECK = f"{LCC}:lc_check"
CONV = f"{LCC}:converter_gate_list"
SCC = f"{LCC}:state_converter_circuit"
S2G = f"{SRC}:state_to_graph"
PHASE = f"{SRC}:_phase_correction"
WORDS = ("I", "H", "P", "P H", "H P_dag", "P H P")  # every string local_clifford_ops can emit (its ops_list_str)


# ------------------------------------------------------------------------------------------ recorders for lc_check
def _lc_recorders(names2=GS.NAMES):
    R = {}

    def s2g_result(I, state):
        k = sum(1 for e in I.path.trace if e["name"] == "state_to_graph")  # this call is already in the trace
        g = Opaque("graph", f"graph{k}")
        t = mk_stabilizer(I, f"S{k}")
        gates = GS.fresh_gates(I, f"gates{k}", GS.NAMES if k == 1 else names2)
        I.path.ghost.setdefault("s2g", []).append(dict(graph=g, tab=t, gates=gates.copy(), handed_out=gates))
        return (g, t, gates)

    R[S2G] = recorder(S2G, "state_to_graph", result=s2g_result)

    def conv_spec(I, g1, g2):
        I.path.trace.append({"name": "converter_gate_list", "args": [g1, g2], "self": None, "ret": None})
        b = I.path.fresh("not_lc_equivalent", "bool")
        if I.path.decide(b):
            I.path.ghost["conv_raised"] = True
            raise RaiseEx("AssertionError", "the two graphs are not LC equivalent")
        gates = GS.fresh_gates(I, "conv")
        I.path.ghost["conv"] = dict(gates=gates.copy(), handed_out=gates)
        I.path.trace[-1]["ret"] = gates
        return gates

    R[CONV] = Contract(CONV, spec=conv_spec, clause="recorded: gate list converting graph 1 into graph 2, or AssertionError")
    q = f"{STABF}:canonical_form"
    R[q] = recorder(q, "canonical_form", result=lambda I, T: T)
    q = f"{TRANS}:run_circuit"
    R[q] = recorder(q, "run_circuit", result=lambda I, tab, circ, reverse=False: tab)
    return R


def _tableau_eq_hook(interp, op, a, b):
    import ast

    if isinstance(a, Obj) and isinstance(b, Obj) and a.cls.name == "StabilizerTableau" and b.cls.name == "StabilizerTableau" \
            and isinstance(op, (ast.Eq, ast.NotEq)):
        r = interp.path.fresh("tableaux_equal", "bool")
        interp.path.trace.append({"name": "tableau_eq", "args": [a, b], "self": None, "ret": r})
        return r if isinstance(op, ast.Eq) else z3.Not(r)
    return NotImplemented


def _same_contents(I, label, got, want):
    """`got` is another StabilizerTableau object with the contents of `want`"""
    ok = isinstance(got, Obj) and got.cls.name == "StabilizerTableau" and got is not want
    I.path.engine.record(f"{label}.is-a-copy", "discharged" if ok else "refuted", 0,
                         "" if ok else "the working tableau is the caller-visible tableau itself (or not a tableau)", None)
    if not ok:
        return
    n = to_z3(want.fields["n_qubits"])
    i, j = I.path.fresh("sk"), I.path.fresh("sk")
    I.path.oblige(f"{label}.table", as_int_term(got.fields["_table"].get(i, j)) == as_int_term(want.fields["_table"].get(i, j)),
                  extra=[i >= 0, i < n, j >= 0, j < 2 * n])
    I.path.oblige(f"{label}.phase", as_int_term(got.fields["_phase"].get(i)) == as_int_term(want.fields["_phase"].get(i)),
                  extra=[i >= 0, i < n])


class LcCheckTask:
    """runs the REAL lc_check under the recorders and checks the assembled list against R_1 ; C ; R_2^{-1}"""

    def __init__(self, validate, label=None, expected=None, timeout_ms=10000, names2=GS.NAMES):
        self.qual = LC_CHECK
        self.validate = validate
        self.label = label or f"lc_check[validate={validate}]"
        self.contract = Contract(LC_CHECK, clause="returned gates = gates1 + converter gates + inverse(gates2), inverse = reversed order "
                                                  "with every gate inverted; (False, []) when the graphs are not LC equivalent; the validated "
                                                  "list is the returned list")
        self.timeout_ms = timeout_ms
        self.expected = expected or (lambda g1, c, g2: GS.concat(GS.concat(g1, c), GS.inverse_of(g2)))
        self.contracts = _lc_recorders(names2)
        self.inline = set(TABLEAU_ACCESSORS) | {f"{TAB}:StabilizerTableau.copy"}
        self.hooks = dict(GS.HOOKS)
        self.hooks["loop"] = GS.loop_hook()
        self.hooks["compare"] = _tableau_eq_hook

    def run(self):
        eng = Engine(self.timeout_ms)
        m, node, cls = source.find(self.qual)
        lab = self.label

        def rec(name, ok, detail=""):
            eng.record(f"{lab}:{name}", "discharged" if ok else "refuted", 0, "" if ok else detail, None)
            return ok

        def harness(path):
            I = Interp(path, self.contracts, self.inline, dict(self.hooks))
            I.task_name = self.qual
            path.ghost["task"] = self.qual
            f = FuncRef(m.name, node, self.qual, None)
            I.stack.append(Frame(m.name, {}, lab))
            s1, s2 = Opaque("state", "state1"), Opaque("state", "state2")
            path.trace = []
            raised = None
            try:
                ret = I.call_function(f, [s1, s2, self.validate], {}, force_body=True)
            except RaiseEx as e:
                raised, ret = e, None
            tr = list(path.trace)
            names = [e["name"] for e in tr]
            # ---- the three producing calls, in order, on the right arguments
            ok = names[:2] == ["state_to_graph", "state_to_graph"] and tr[0]["args"][0] is s1 and tr[1]["args"][0] is s2
            if not rec("post.calls.state_to_graph(state1)-then-(state2)", ok, f"recorded calls: {names[:3]}"):
                return
            A, B = path.ghost["s2g"][0], path.ghost["s2g"][1]
            ok = len(names) >= 3 and names[2] == "converter_gate_list" and tr[2]["args"][0] is A["graph"] and tr[2]["args"][1] is B["graph"]
            if not rec("post.calls.converter_gate_list(graph1,graph2)", ok,
                       f"third recorded call: {names[2:3]} on {tr[2]['args'] if len(tr) > 2 else None}"):
                return
            if path.ghost.get("conv_raised"):
                ok = raised is None and isinstance(ret, tuple) and len(ret) == 2 and ret[0] is False and ret[1] == []
                rec("post.no-equivalence-gives-(False,[])", ok, f"converter_gate_list raised; lc_check returns {ret!r} / raises {raised and raised.exc_name}")
                return
            rest = tr[3:]
            if raised is not None:
                # the only permitted abrupt exit: validate=True and the recorded tableau comparison came out false
                eqs = [e for e in rest if e["name"] == "tableau_eq"]
                ok = self.validate is True and raised.exc_name == "Warning" and len(eqs) == 1
                if ok:
                    path.oblige(f"{lab}:post.raises-only-when-the-validation-fails", z3.Not(eqs[0]["ret"]))
                else:
                    rec("no-raise", False, f"real body raises {raised.exc_name}: {raised.msg}")
                return
            rec("no-raise", True)
            ok = isinstance(ret, tuple) and len(ret) == 2 and ret[0] is True
            if not rec("post.returns-(True,list)", ok, repr(ret)):
                return
            total = ret[1]
            want = self.expected(A["gates"], path.ghost["conv"]["gates"], B["gates"])
            GS.seq_equal(I, f"{lab}:post.total", total, want)
            if not self.validate:
                rec("post.no-further-calls", not rest, f"unexpected calls {[e['name'] for e in rest]}")
                return
            # ---- validate=True: canonical_form(copy of tab2), run_circuit(copy of tab1, the returned list), canonical_form(result), ==
            runs = [e for e in rest if e["name"] == "run_circuit"]
            eqs = [e for e in rest if e["name"] == "tableau_eq"]
            canon = [e for e in rest if e["name"] == "canonical_form"]
            ok = len(runs) == 1 and len(eqs) == 1 and len(canon) == 2 and rest[-1] is eqs[0]
            if not rec("post.validate.calls", ok, f"recorded calls after the assembly: {[e['name'] for e in rest]}"):
                return
            run = runs[0]
            _same_contents(I, f"{lab}:post.validate.run_circuit-on-a-copy-of-tab1", run["args"][0], A["tab"])
            lst = run["args"][1]
            if lst is total:
                rec("post.validate.validated-list-is-the-returned-list", True)
            else:  # another list object: it must hold the same gates
                GS.seq_equal(I, f"{lab}:post.validate.validated-list-is-the-returned-list", lst, total)
            rev = run["args"][2] if len(run["args"]) > 2 else False
            rec("post.validate.run-forward", rev is False, f"reverse={rev!r}")
            c_of = [e["args"][0] for e in canon]
            final = [c for c in c_of if c is run["ret"]]
            other = [c for c in c_of if c is not run["ret"]]
            ok = len(final) == 1 and len(other) == 1
            if rec("post.validate.canonical-forms-of-both-sides", ok, "canonical_form is not applied once to the circuit's result and once to the target"):
                _same_contents(I, f"{lab}:post.validate.target-is-a-copy-of-tab2", other[0], B["tab"])
                pair = {id(eqs[0]["args"][0]), id(eqs[0]["args"][1])}
                rec("post.validate.compares-result-with-target", pair == {id(final[0]), id(other[0])},
                    "the tableau comparison is not between canonical(result) and canonical(target)")
            path.oblige(f"{lab}:post.validate.returns-only-when-equal", eqs[0]["ret"])
            # frame: the caller-visible tableaux of state_to_graph are not handed to in-place functions
            touched = [e["args"][0] for e in rest if e["name"] in ("canonical_form", "run_circuit")]
            rec("post.validate.tab1-tab2-not-modified", all(t is not A["tab"] and t is not B["tab"] for t in touched),
                "canonical_form / run_circuit (in place) is applied to a tableau returned by state_to_graph")

        try:
            explore(eng, harness)
        except Undecided as u:
            eng.record(f"{lab}:supported-subset", "undecided", 0, f"{u}", None)
        for r in eng.results.values():
            r.witness, r.replayed = None, False
            if r.status == "refuted" and ":post.total." in r.name:
                w = None
                if r.model is not None:
                    try:
                        w = self.replay_model(r.model)
                    except Exception:  # noqa: BLE001
                        w = None
                if w is None:
                    w = self.search()
                if w is not None:
                    r.witness, r.replayed = w, True
        return eng

    # ---- replay on the real code
    def _symbols(self):
        """the z3 symbols the recorders create are determined by their creation order: gates1 -> !0, gates2 -> !1, conv -> !2"""
        out = []
        for tag, c in (("gates1", 0), ("gates2", 1), ("conv", 2)):
            L = z3.Int(f"len_{tag}!{c}")
            NM = z3.Function(f"name_{tag}!{c}", z3.IntSort(), z3.IntSort())
            QB = z3.Function(f"qubit_{tag}!{c}", z3.IntSort(), z3.IntSort())
            out.append((L, NM, QB))
        return out

    def replay_model(self, model):
        lists = []
        for (L, NM, QB) in self._symbols():
            n = model.eval(L, model_completion=True).as_long()
            if n > 6:
                return None
            cur = []
            for k in range(n):
                c = model.eval(NM(k), model_completion=True).as_long()
                cur.append((GS.NAMES[c] if 0 <= c < len(GS.NAMES) else GS.NAMES[0], model.eval(QB(k), model_completion=True).as_long()))
            lists.append(cur)
        return self.replay_lists(lists[0], lists[2], lists[1])

    def search(self, tries=300, seed=0):
        import numpy as np

        rng = np.random.default_rng(seed)
        for _ in range(tries):
            ls = [[(GS.NAMES[int(rng.integers(0, 6))], int(rng.integers(0, 3))) for _ in range(int(rng.integers(0, 4)))] for _ in range(3)]
            w = self.replay_lists(*ls)
            if w is not None:
                w["found_by"] = "random search over small gate lists after the obligation failed"
                return w
        return None

    def replay_lists(self, g1, conv, g2):
        """REAL lc_check(validate=False) with state_to_graph / converter_gate_list stubbed to hand out these lists"""
        import importlib

        mod = importlib.import_module(LCC)
        saved = (mod.state_to_graph, mod.converter_gate_list)
        calls = []

        def stub_s2g(state):
            calls.append(state)
            return (f"graph-of-{state}", None, list(g1) if state == "state1" else list(g2))

        try:
            mod.state_to_graph = stub_s2g
            mod.converter_gate_list = lambda a, b: list(conv)
            try:
                got = mod.lc_check("state1", "state2", validate=False)
            except Exception as e:  # noqa: BLE001
                got = f"raises {type(e).__name__}: {e}"
        finally:
            mod.state_to_graph, mod.converter_gate_list = saved
        want = (True, list(g1) + list(conv) + [(GS.INVERSE[n], q) for (n, q) in reversed(g2)])
        if isinstance(got, tuple) and len(got) == 2 and got[0] is True and [tuple(x) for x in got[1]] == want[1]:
            return None
        return {"function": LC_CHECK, "args": {"gates of state_to_graph(state1)": [list(x) for x in g1], "gates of converter_gate_list": [list(x) for x in conv],
                                               "gates of state_to_graph(state2)": [list(x) for x in g2], "validate": False},
                "expected": [True, [list(x) for x in want[1]]], "actual": got if isinstance(got, str) else [got[0], [list(x) for x in got[1]]],
                "how": "real lc_check with state_to_graph / converter_gate_list replaced by stubs returning these lists"}


def lc_check_tasks():
    return [LcCheckTask(False), LcCheckTask(True)]


def lc_check_canaries():
    """wrong order contracts that must be refuted (and whose counter-model replays as a difference to the REAL result)"""
    no_reverse = lambda g1, c, g2: GS.concat(GS.concat(g1, c), GS.map_names(g2, GS.INVERSE))
    no_invert = lambda g1, c, g2: GS.concat(GS.concat(g1, c), GS.reverse(g2))
    T = [LcCheckTask(False, label="canary.lc_check.inverse-without-reversal", expected=no_reverse),
         LcCheckTask(False, label="canary.lc_check.reversal-without-inverting-P_dag", expected=no_invert)]
    for t in T:
        t.replay_lists = _canary_replay(t)
    return T


def _canary_replay(task):
    """a canary's counter-model replays when the REAL result differs from the canary's (wrong) expectation"""

    def rep(g1, conv, g2):
        import importlib

        mod = importlib.import_module(LCC)
        saved = (mod.state_to_graph, mod.converter_gate_list)
        try:
            mod.state_to_graph = lambda state: (state, None, list(g1) if state == "state1" else list(g2))
            mod.converter_gate_list = lambda a, b: list(conv)
            got = mod.lc_check("state1", "state2", validate=False)
        finally:
            mod.state_to_graph, mod.converter_gate_list = saved
        if "without-reversal" in task.label:
            wrong = list(g1) + list(conv) + [(GS.INVERSE[n], q) for (n, q) in g2]
        else:
            wrong = list(g1) + list(conv) + list(reversed(g2))
        if [tuple(x) for x in got[1]] == wrong:
            return None
        return {"function": LC_CHECK, "args": {"gates1": [list(x) for x in g1], "conv": [list(x) for x in conv], "gates2": [list(x) for x in g2]},
                "canary_expected": [list(x) for x in wrong], "actual": [list(x) for x in got[1]]}

    return rep


# ------------------------------------------------------------------------------------------ converter_gate_list (n = 2)
def _conv_recorders():
    R = {}
    q = f"{LCE}:is_lc_equivalent"
    R[q] = recorder(q, "is_lc_equivalent", result=lambda I, a, b, *r: (True, Token("solution", a, b)))

    def words(I, sol):
        out = []
        for k in range(2):
            w = I.path.fresh("word")
            I.path.assume(z3.And(w >= 0, w < len(WORDS)))
            pick = WORDS[-1]
            for c, s in enumerate(WORDS[:-1]):
                if I.path.decide(w == c):
                    pick = s
                    break
            out.append(pick)
        I.path.ghost["words"] = list(out)
        return out

    q = f"{LCE}:local_clifford_ops"
    R[q] = recorder(q, "local_clifford_ops", result=words)
    q = f"{RC}:get_stabilizer_tableau_from_graph"
    R[q] = recorder(q, "get_stabilizer_tableau_from_graph", result=lambda I, g: Token("tableau", g))

    def pc(I, t1, t2, gl):
        # n = 2: the correction is one of the four ascending Z lists on qubits {0, 1} (post of _phase_correction: ascending
        # enumeration of the qubits whose generator sign differs) - a CONCRETE Python list, so that `gate_list += ...` is exact
        z0, z1 = I.path.fresh("z_on_0", "bool"), I.path.fresh("z_on_1", "bool")
        out = ([("Z", 0)] if I.path.decide(z0) else []) + ([("Z", 1)] if I.path.decide(z1) else [])
        I.path.ghost["pc"] = dict(gates=list(out), arg=list(gl) if isinstance(gl, list) else gl)
        return out

    R[PHASE] = recorder(PHASE, "_phase_correction", result=pc)
    return R


def _nx_external(interp, name, attr):
    if name in ("networkx", "nx") and attr == "to_numpy_array":
        from pyvc.values import Builtin

        def f(i, g, *a, **k):
            i.path.trace.append({"name": "to_numpy_array", "args": [g], "self": None, "ret": Token("adj", g)})
            return Token("adj", g)

        return Builtin("to_numpy_array", f)
    return NotImplemented


class ConvTask:
    def __init__(self, label="converter_gate_list[n=2, all 36 word pairs x 4 corrections]", word_order=lambda w: list(reversed(w.split())), timeout_ms=10000):
        self.qual = CONV
        self.label = label
        self.word_order = word_order
        self.contract = Contract(CONV, clause="gates = for qubit 0, 1: the local-Clifford word of that qubit in reversed word order (time order), "
                                              "then _phase_correction(tableau(g1), tableau(g2), exactly that list); is_lc_equivalent(adj(g1), adj(g2))")
        self.timeout_ms = timeout_ms
        self.contracts = _conv_recorders()
        self.inline = set()
        self.hooks = dict(GS.HOOKS)
        self.hooks["external"] = _nx_external

    def run(self):
        from pyvc.trace import same

        eng = Engine(self.timeout_ms)
        m, node, cls = source.find(self.qual)
        lab = self.label

        def rec(name, ok, detail=""):
            eng.record(f"{lab}:{name}", "discharged" if ok else "refuted", 0, "" if ok else detail, None)
            return ok

        def harness(path):
            I = Interp(path, self.contracts, self.inline, dict(self.hooks))
            I.task_name = self.qual
            f = FuncRef(m.name, node, self.qual, None)
            I.stack.append(Frame(m.name, {}, lab))
            g1, g2 = Opaque("graph", "g1"), Opaque("graph", "g2")
            path.trace = []
            try:
                ret = I.call_function(f, [g1, g2], {}, force_body=True)
            except RaiseEx as e:
                rec("no-raise", False, f"real body raises {e.exc_name}: {e.msg}")
                return
            rec("no-raise", True)
            tr = [e for e in path.trace if e["name"] != "to_numpy_array"]
            names = [e["name"] for e in tr]
            want_names = ["is_lc_equivalent", "local_clifford_ops", "get_stabilizer_tableau_from_graph", "get_stabilizer_tableau_from_graph",
                          "_phase_correction"]
            if not rec("post.calls", names == want_names, f"recorded calls {names}"):
                return
            a = tr[0]["args"]
            ok = len(a) >= 2 and same(a[0], Token("adj", g1)) is True and same(a[1], Token("adj", g2)) is True
            rec("post.is_lc_equivalent(adj(g1),adj(g2))", ok, f"called on {a!r}")
            rec("post.local_clifford_ops(solution)", tr[1]["args"][0] is tr[0]["ret"][1], "not the solution is_lc_equivalent returned")
            words = path.ghost["words"]
            seg = [(w, i) for i, word in enumerate(words) for w in self.word_order(word)]
            pcev = tr[4]
            ok = same(pcev["args"][0], Token("tableau", g1)) is True and same(pcev["args"][1], Token("tableau", g2)) is True
            rec("post._phase_correction(tableau(g1),tableau(g2),..)", ok, f"called on {pcev['args'][:2]!r}")
            arg = path.ghost["pc"]["arg"]
            ok = isinstance(arg, list) and arg == seg
            rec("post.phase-correction-sees-exactly-the-local-Clifford-gates", ok, f"words {words}: _phase_correction got {arg!r}, expected {seg!r}")
            want_ret = seg + path.ghost["pc"]["gates"]
            rec("post.return-is-local-Clifford-gates-then-phase-correction", isinstance(ret, list) and ret == want_ret,
                f"words {words}: returns {ret!r}, expected {want_ret!r}")

        try:
            explore(eng, harness)
        except Undecided as u:
            eng.record(f"{lab}:supported-subset", "undecided", 0, f"{u}", None)
        wit = None
        for r in eng.results.values():
            r.witness, r.replayed = None, False
            if r.status == "refuted" and ":post." in r.name:
                if wit is None:
                    wit = self.native_witness() or False
                if wit:
                    r.witness, r.replayed = wit, True
        return eng

    def native_witness(self):
        """REAL converter_gate_list with is_lc_equivalent / local_clifford_ops / tableau / _phase_correction stubbed: first word pair on
        which the list handed to _phase_correction or the returned list differs from this task's expectation"""
        import importlib
        import itertools

        import networkx as nx

        mod = importlib.import_module(LCC)
        names = ("is_lc_equivalent", "local_clifford_ops", "get_stabilizer_tableau_from_graph", "_phase_correction")
        saved = {k: getattr(mod, k) for k in names}
        try:
            for words in itertools.product(WORDS, repeat=2):
                seen = {}
                mod.is_lc_equivalent = lambda a, b, *r, **k: (True, "solution")
                mod.local_clifford_ops = lambda sol, _w=words: list(_w)
                mod.get_stabilizer_tableau_from_graph = lambda g: ("tableau", id(g))

                def pc(t1, t2, gl, _s=seen):
                    _s["arg"] = [tuple(x) for x in gl]
                    return [("Z", 1)]

                mod._phase_correction = pc
                try:
                    got = mod.converter_gate_list(nx.empty_graph(2), nx.empty_graph(2))
                except Exception as e:  # noqa: BLE001
                    got = f"raises {type(e).__name__}: {e}"
                seg = [(w, i) for i, word in enumerate(words) for w in self.word_order(word)]
                want = seg + [("Z", 1)]
                if seen.get("arg") != seg or not isinstance(got, list) or [tuple(x) for x in got] != want:
                    return {"function": CONV, "args": {"local_clifford_ops(solution)": list(words), "_phase_correction(...)": [["Z", 1]]},
                            "expected": {"list seen by _phase_correction": [list(x) for x in seg], "return": [list(x) for x in want]},
                            "actual": {"list seen by _phase_correction": [list(x) for x in seen.get("arg", [])],
                                       "return": got if isinstance(got, str) else [list(x) for x in got]},
                            "how": "real converter_gate_list with its four callees replaced by stubs"}
        finally:
            for k, v in saved.items():
                setattr(mod, k, v)
        return None


def conv_tasks():
    return [ConvTask(), ConvSymTask()]


def conv_canaries():
    return [ConvTask(label="canary.converter_gate_list.word-order-kept", word_order=lambda w: w.split()),
            ConvSymTask(label="canary.converter_gate_list[symbolic n].word-order-kept", word_order=lambda w: w.split())]


# ------------------------------------------------------------------------------------------ converter_gate_list, symbolic n
class WordSeq(Opaque):
    """the list local_clifford_ops returns: n strings, each one of WORDS (n symbolic)"""

    def __init__(self, length):
        super().__init__("wordseq", {})
        self.length = to_z3(length)

    def __iter__(self):
        raise Undecided("Python-level iteration over the local-Clifford word list of symbolic length")

    def __bool__(self):
        raise Undecided("Python-level truth value of the local-Clifford word list of symbolic length")


def word_loop_hook(word_order):
    """FLAT-MAP rule for `for i, ops in enumerate(<WordSeq>): ... gate_list.append(..) ...`: the body, run for an ARBITRARY index i and
    EVERY word local_clifford_ops can emit (complete finite case split), must append exactly the segment [(w, i) for w in
    word_order(word)] to the one list it appends to and have no other effect; by induction on n the loop appends, for i = 0..n-1 in
    order, the segment of word i.  The list after the loop is represented by a fresh gate sequence (`flat`, ghost `conv_flat`)."""
    import ast

    from pyvc.invloop import snapshot, changed
    from pyvc.loops import assigned_names

    def hook(interp, node, it):
        if not (isinstance(it, Opaque) and it.tag == "enumerate-words"):
            return False
        ws = it.payload
        path, fr = interp.path, interp.stack[-1]
        tag = f"{fr.func_name}:word-loop({ast.unparse(node.target)} in {ast.unparse(node.iter)})"
        tnames = {n.id for n in ast.walk(node.target) if isinstance(n, ast.Name)}
        inner_targets = {n.id for st in ast.walk(ast.Module(body=list(node.body), type_ignores=[])) if isinstance(st, ast.For)
                         for n in ast.walk(st.target) if isinstance(n, ast.Name)}
        extra = assigned_names(node.body) - tnames - inner_targets
        path.engine.record(f"{tag}.frame.vars", "discharged" if not extra else "refuted", 0,
                           "" if not extra else f"loop body assigns {sorted(extra)}: state carried across iterations is not covered by the rule", None)
        if extra:
            raise PathEnd()
        outs = GS._appended_lists(node.body)
        if len(outs) != 1:
            raise Undecided(f"flat-map rule needs exactly one list that the body appends to, found {sorted(outs)}")
        out = next(iter(outs))
        out0 = fr.env.get(out)
        if not isinstance(out0, (list, GS.GateSeq)) or sum(1 for v in fr.env.values() if v is out0) != 1:
            raise Undecided(f"`{out}` is not an un-aliased list")
        saved_pc, saved_env, saved_trace = len(path.pc), dict(fr.env), path.trace
        i = path.fresh("it")
        path.assume(z3.And(i >= 0, i < ws.length))
        pc_iter = len(path.pc)
        for word in WORDS:
            del path.pc[pc_iter:]
            local = []
            fr.env.clear()
            fr.env.update(saved_env)
            fr.env[out] = local
            path.trace = []
            snap = snapshot([v for kk, v in fr.env.items() if kk != "__parent__"], exclude=[local])
            d0 = len(path.decisions)
            interp.assign(node.target, (i, word))
            interp.exec_block(node.body)
            if len(path.decisions) != d0:
                raise Undecided("the body of the word loop branches on a symbolic value")
            clean = not changed(snap) and not path.trace and fr.env.get(out) is local
            path.engine.record(f"{tag}.frame.heap[{word}]", "discharged" if clean else "refuted", 0, "" if clean else "effects other than appending", None)
            want = [(w, i) for w in word_order(word)]
            ok = len(local) == len(want) and all(isinstance(g, tuple) and len(g) == 2 and g[0] == w[0] and g[1] is i for g, w in zip(local, want))
            path.engine.record(f"{tag}.segment-of-word[{word}]", "discharged" if ok else "refuted", 0,
                               "" if ok else f"for the word {word!r} on qubit i the body appends {local!r}, expected {want!r}", None)
            if not clean or not ok:
                raise PathEnd()
        del path.pc[saved_pc:]
        fr.env.clear()
        fr.env.update(saved_env)
        path.trace = saved_trace
        for nm_ in tnames | inner_targets:
            fr.env[nm_] = Opaque("stale-after-loop", nm_)
        flat = GS.fresh_gates(interp, "flat")
        path.ghost["conv_flat"] = dict(gates=flat.copy(), words=ws, prefix_empty=isinstance(out0, list) and not out0)
        fr.env[out] = GS.concat(out0, flat)
        return True

    return hook


def _enumerate_words_hook(interp, x, start):
    """hook `enumerate`: enumerate(<WordSeq>) is the iterable of the flat-map rule"""
    if isinstance(x, WordSeq) and start == 0:
        return Opaque("enumerate-words", x)
    return None


class ConvSymTask:
    """converter_gate_list for graphs on n vertices, n symbolic"""

    def __init__(self, label="converter_gate_list[symbolic n]", word_order=lambda w: list(reversed(w.split())), timeout_ms=10000):
        self.qual = CONV
        self.label = label
        self.word_order = word_order
        self.contract = Contract(CONV, clause="for every qubit i in ascending order the local-Clifford word of qubit i in reversed word order, all on qubit i "
                                              "(flat-map rule: arbitrary i, all six words); then _phase_correction(tableau(g1), tableau(g2), exactly that "
                                              "list) appended")
        self.timeout_ms = timeout_ms
        R = _conv_recorders()
        q = f"{LCE}:local_clifford_ops"

        def words(I, sol):
            n = I.path.fresh("n_qubits")
            I.path.assume(n >= 0)
            ws = WordSeq(n)
            I.path.ghost["wordseq"] = ws
            return ws

        R[q] = recorder(q, "local_clifford_ops", result=words)

        def pc(I, t1, t2, gl):
            s_ = GS.fresh_gates(I, "phase_correction", ("Z",))
            I.path.ghost["pc"] = dict(gates=s_.copy(), arg=gl.copy() if isinstance(gl, GS.GateSeq) else gl)
            return s_

        R[PHASE] = recorder(PHASE, "_phase_correction", result=pc)
        self.contracts = R
        self.hooks = dict(GS.HOOKS)
        self.hooks["external"] = _nx_external
        self.hooks["loop"] = word_loop_hook(word_order)
        self.hooks["enumerate"] = _enumerate_words_hook

    def run(self):
        from pyvc.trace import same

        eng = Engine(self.timeout_ms)
        m, node, cls = source.find(self.qual)
        lab = self.label

        def rec(name, ok, detail=""):
            eng.record(f"{lab}:{name}", "discharged" if ok else "refuted", 0, "" if ok else detail, None)
            return ok

        def harness(path):
            I = Interp(path, self.contracts, set(), dict(self.hooks))
            I.task_name = self.qual
            f = FuncRef(m.name, node, self.qual, None)
            I.stack.append(Frame(m.name, {}, lab))
            g1, g2 = Opaque("graph", "g1"), Opaque("graph", "g2")
            path.trace = []
            try:
                ret = I.call_function(f, [g1, g2], {}, force_body=True)
            except RaiseEx as e:
                rec("no-raise", False, f"real body raises {e.exc_name}: {e.msg}")
                return
            rec("no-raise", True)
            tr = [e for e in path.trace if e["name"] != "to_numpy_array"]
            names = [e["name"] for e in tr]
            want_names = ["is_lc_equivalent", "local_clifford_ops", "get_stabilizer_tableau_from_graph", "get_stabilizer_tableau_from_graph", "_phase_correction"]
            if not rec("post.calls", names == want_names, f"recorded calls {names}"):
                return
            a = tr[0]["args"]
            rec("post.is_lc_equivalent(adj(g1),adj(g2))", len(a) >= 2 and same(a[0], Token("adj", g1)) is True and same(a[1], Token("adj", g2)) is True, f"called on {a!r}")
            rec("post.local_clifford_ops(solution)", tr[1]["args"][0] is tr[0]["ret"][1], "not the solution is_lc_equivalent returned")
            fl = path.ghost.get("conv_flat")
            if not rec("post.one-loop-over-the-words", fl is not None and fl["words"] is path.ghost["wordseq"] and fl["prefix_empty"],
                       "the gate list is not built by one loop over enumerate(local_clifford_ops(solution)) starting from the empty list"):
                return
            pcev = tr[4]
            rec("post._phase_correction(tableau(g1),tableau(g2),..)", same(pcev["args"][0], Token("tableau", g1)) is True and same(pcev["args"][1], Token("tableau", g2)) is True,
                f"called on {pcev['args'][:2]!r}")
            GS.seq_equal(I, f"{lab}:post.phase-correction-sees-exactly-the-local-Clifford-gates", path.ghost["pc"]["arg"], fl["gates"])
            GS.seq_equal(I, f"{lab}:post.return-is-local-Clifford-gates-then-phase-correction", ret, GS.concat(fl["gates"], path.ghost["pc"]["gates"]))

        try:
            explore(eng, harness)
        except Undecided as u:
            eng.record(f"{lab}:supported-subset", "undecided", 0, f"{u}", None)
        wit = None
        for r in eng.results.values():
            r.witness, r.replayed = None, False
            if r.status == "refuted" and (":post." in r.name or "segment-of-word" in r.name):
                if wit is None:
                    t = ConvTask(word_order=self.word_order)
                    wit = t.native_witness() or False
                if wit:
                    r.witness, r.replayed = wit, True
        return eng


# ------------------------------------------------------------------------------------------ str_to_op, state_converter_circuit
STR2OP = f"{LCC}:str_to_op"
OPS = "graphiq.circuit.ops"
OP_CLASS = {"I": "Identity", "H": "Hadamard", "X": "SigmaX", "P": "Phase", "P_dag": "PhaseDagger", "Z": "SigmaZ"}  # textbook names
CFS = f"{RC}:clifford_from_stabilizer"
DAGQ = "graphiq.circuit.circuit_dag"


def _op_instantiate(I, cls, args, kwargs):
    """hook `instantiate`: an operation class of graphiq.circuit.ops is instantiated -> recorded, abstract operation token"""
    if cls.module == OPS:
        ev = {"name": "op", "args": [cls.name, list(args), dict(kwargs)], "self": None, "ret": Token("op", cls.name, tuple(args), tuple(sorted(kwargs.items(), key=lambda kv: kv[0])))}
        I.path.trace.append(ev)
        return ev["ret"]
    if cls.module == DAGQ and cls.name == "CircuitDAG":
        o = Obj(cls)
        I.path.trace.append({"name": "CircuitDAG", "args": [list(args), dict(kwargs)], "self": None, "ret": o})
        return o
    return NotImplemented


class StrToOpTask:
    """[F over the six gate names] str_to_op((name, q)) = the textbook operation class of that name on photon register q;
    a list of tuples -> the list of those operations in order"""

    def __init__(self, label="str_to_op[6 names; tuple and list input]", table=None):
        self.qual = STR2OP
        self.label = label
        self.table = table or OP_CLASS
        self.contract = Contract(STR2OP, clause="name -> operation class: I Identity, H Hadamard, X SigmaX, P Phase, P_dag PhaseDagger, Z SigmaZ; "
                                                "register = the tuple's qubit, reg_type 'p'; list input: element-wise in order")
        self.timeout_ms = 5000

    def run(self):
        eng = Engine(self.timeout_ms)
        m, node, cls = source.find(self.qual)
        lab = self.label

        def rec(name, ok, detail=""):
            eng.record(f"{lab}:{name}", "discharged" if ok else "refuted", 0, "" if ok else detail, None)
            return ok

        def ok_op(tok, name, q):
            if not (isinstance(tok, Token) and tok.tag == "op" and tok.args[0] == self.table[name]):
                return False
            kw = dict(tok.args[2])
            pos = list(tok.args[1])
            reg = kw.get("register", pos[0] if pos else None)
            typ = kw.get("reg_type", pos[1] if len(pos) > 1 else None)
            return reg is q and typ == "p"

        for name in GS.NAMES:
            def harness(path, name=name):
                I = Interp(path, {}, set(), {"instantiate": _op_instantiate})
                I.task_name = self.qual
                f = FuncRef(m.name, node, self.qual, None)
                I.stack.append(Frame(m.name, {}, lab))
                q, q2 = z3.Int("q"), z3.Int("q2")
                path.trace = []
                ret = I.call_function(f, [(name, q)], {}, force_body=True)
                rec(f"post.tuple[{name}]", ok_op(ret, name, q), f"({name!r}, q) -> {ret!r}")
                other = GS.NAMES[(GS.CODE[name] + 1) % len(GS.NAMES)]
                ret = I.call_function(f, [[(name, q), (other, q2)]], {}, force_body=True)
                ok = isinstance(ret, list) and len(ret) == 2 and ok_op(ret[0], name, q) and ok_op(ret[1], other, q2)
                rec(f"post.list[{name},{other}]", ok, f"-> {ret!r}")

            try:
                explore(eng, harness)
            except Undecided as u:
                eng.record(f"{lab}:supported-subset", "undecided", 0, f"{u}", None)
            except RaiseEx as e:
                rec(f"no-raise[{name}]", False, f"raises {e.exc_name}: {e.msg}")
        for r in eng.results.values():
            r.witness, r.replayed = None, False
            if r.status == "refuted" and ":post." in r.name:
                w = self.native_witness()
                if w is not None:
                    r.witness, r.replayed = w, True
        return eng

    def native_witness(self):
        """REAL str_to_op on every name: first one whose operation class / register / register type differs from this task's table"""
        import importlib

        mod = importlib.import_module(LCC)
        for name in GS.NAMES:
            try:
                op = mod.str_to_op((name, 3))
                got = (type(op).__name__, getattr(op, "register", None), getattr(op, "reg_type", None))
            except Exception as e:  # noqa: BLE001
                got = (f"raises {type(e).__name__}", None, None)
            want = (self.table[name], 3, "p")
            if got != want:
                return {"function": STR2OP, "args": {"gate_tuples": [name, 3]}, "expected": list(want), "actual": list(got)}
        return None


def _scc_recorders():
    R = {}

    def s2g_result(I, state):
        k = sum(1 for e in I.path.trace if e["name"] == "state_to_graph")
        n = z3.Int("n")
        return (Opaque("graph", f"graph{k}"), mk_stabilizer(I, f"S{k}", n), GS.fresh_gates(I, f"gates{k}"))

    R[S2G] = recorder(S2G, "state_to_graph", result=s2g_result)

    def cfs(I, tab):
        from .common import mk_clifford

        return mk_clifford(I, "C" + str(sum(1 for e in I.path.trace if e["name"] == "clifford_from_stabilizer")), tab.fields["n_qubits"])

    R[CFS] = recorder(CFS, "clifford_from_stabilizer", result=cfs)

    def lcc(I, s1, s2, validate=True):
        b = I.path.fresh("lc_equivalent", "bool")
        if I.path.decide(b):
            g = GS.fresh_gates(I, "lc_gates")
            I.path.ghost["lc_gates"] = g.copy()
            return (True, g)
        return (False, [])

    R[LC_CHECK] = recorder(LC_CHECK, "lc_check", result=lcc)
    R[STR2OP] = recorder(STR2OP, "str_to_op", result=lambda I, g: Token("operation-of", g[0], g[1]) if isinstance(g, tuple) else Token("operations-of", g))
    q = f"{DAGQ}:CircuitDAG.add"
    R[q] = recorder(q, "add")
    return R


def gate_foreach_hook(interp, node, it):
    """`for g in <GateSeq>: <recorded calls only>`: the body, run for an arbitrary element and EVERY gate name, must record exactly
    str_to_op((name, q)) and <circuit>.add(<that operation>) and carry nothing else over; the loop as a whole is the marker event
    `foreach-gate` (induction on the length, no unrolling)"""
    import ast

    from pyvc.loops import assigned_names

    if not isinstance(it, GS.GateSeq):
        return False
    path, fr = interp.path, interp.stack[-1]
    tag = f"{fr.func_name}:gate-foreach({ast.unparse(node.target)} in {ast.unparse(node.iter)})"
    tnames = {n.id for n in ast.walk(node.target) if isinstance(n, ast.Name)}
    local = assigned_names(node.body) - tnames
    saved_pc, saved_env, saved_trace = len(path.pc), dict(fr.env), path.trace
    k = path.fresh("it")
    path.assume(z3.And(k >= 0, k < it.length))
    qk = it.qubit(k)
    circ = None
    pc_iter = len(path.pc)
    for letter in GS.NAMES:
        del path.pc[pc_iter:]
        fr.env.clear()
        fr.env.update(saved_env)
        path.trace = []
        d0 = len(path.decisions)
        interp.assign(node.target, (letter, qk))
        interp.exec_block(node.body)
        if len(path.decisions) != d0:
            raise Undecided("the body of a loop over a gate list branches on a symbolic value")
        tr = path.trace
        ok = len(tr) == 2 and tr[0]["name"] == "str_to_op" and isinstance(tr[0]["args"][0], tuple) and tr[0]["args"][0][0] == letter \
            and tr[0]["args"][0][1] is qk and tr[1]["name"] == "add" and tr[1]["args"][0] is tr[0]["ret"]
        path.engine.record(f"{tag}.each-gate-becomes-one-added-operation[{letter}]", "discharged" if ok else "refuted", 0,
                           "" if ok else f"recorded calls for a gate named {letter!r}: {[(e['name'], e['args']) for e in tr]!r}", None)
        if not ok:
            raise PathEnd()
        same_c = circ is None or tr[1]["self"] is circ
        circ = tr[1]["self"]
        path.engine.record(f"{tag}.same-circuit-for-every-gate", "discharged" if same_c else "refuted", 0, "", None)
    del path.pc[saved_pc:]
    fr.env.clear()
    fr.env.update(saved_env)
    for nm_ in tnames | local:
        fr.env[nm_] = Opaque("stale-after-loop", nm_)
    path.trace = saved_trace
    path.trace.append({"name": "foreach-gate", "args": [it.copy()], "self": circ, "ret": None})
    return True


def _assert_lc(interp, name, node):
    """`assert lc, ...` is the documented abrupt exit of state_converter_circuit: a concretely false test raises; the final
    `assert np.isclose(final_score, 0)` of the validation is a certificate (permitted exit)"""
    import ast

    if ast.unparse(node.test) == "lc" and interp.stack[-1].env.get("lc") is False:
        raise RaiseEx("AssertionError", "the two graphs are not LC equivalent!")
    return "isclose" in ast.unparse(node.test)


VALIDATION_CLASSES = {("graphiq.state", "QuantumState"), ("graphiq.metrics", "Infidelity"), ("graphiq.backends.stabilizer.compiler", "StabilizerCompiler")}


def _scc_instantiate(I, cls, args, kwargs):
    r = _op_instantiate(I, cls, args, kwargs)
    if r is not NotImplemented:
        return r
    if (cls.module, cls.name) in VALIDATION_CLASSES:
        o = Obj(cls)
        I.path.trace.append({"name": cls.name, "args": [list(args), dict(kwargs)], "self": None, "ret": o})
        return o
    return NotImplemented


def _scc_uncontracted(I, f, args, kwargs):
    """methods of the recorded validation objects (StabilizerCompiler.compile, Infidelity.evaluate): recorded calls"""
    short = f.qual.split(":")[1]
    if short in ("StabilizerCompiler.compile", "CompilerBase.compile"):
        ev = {"name": "compile", "args": [list(args[1:]), dict(kwargs)], "self": args[0], "ret": Opaque("final-state", {})}
    elif short in ("Infidelity.evaluate",):
        ev = {"name": "evaluate", "args": [list(args[1:]), dict(kwargs)], "self": args[0], "ret": I.path.fresh("score", "real")}
    else:
        return NotImplemented
    I.path.trace.append(ev)
    return ev["ret"]


def _np_isclose(interp, a, b, *r, **k):
    from pyvc import models as _m

    _m.used("np.isclose = unspecified Bool (floating-point tolerance test: no claim)")
    return interp.path.fresh("isclose", "bool")


from pyvc import models as _models_mod

_models_mod.NUMPY.setdefault("isclose", _np_isclose)


class SccTask:
    def __init__(self, label=None, validate=False):
        self.validate = validate
        label = label or f"state_converter_circuit[validate={validate}]"
        self.qual = SCC
        self.label = label
        self.contract = Contract(SCC, clause="the circuit holds, in list order, one operation per gate of lc_check(state1, state2); n_photon = number of "
                                             "qubits of state 1; AssertionError when lc_check says no")
        self.timeout_ms = 10000
        self.contracts = _scc_recorders()
        self.hooks = dict(GS.HOOKS)
        self.hooks.update({"instantiate": _scc_instantiate, "loop": gate_foreach_hook, "permitted_asserts": _assert_lc,
                           "uncontracted_call": _scc_uncontracted})

    def run(self):
        eng = Engine(self.timeout_ms)
        m, node, cls = source.find(self.qual)
        lab = self.label

        def rec(name, ok, detail=""):
            eng.record(f"{lab}:{name}", "discharged" if ok else "refuted", 0, "" if ok else detail, None)
            return ok

        def harness(path):
            I = Interp(path, self.contracts, set(TABLEAU_ACCESSORS), dict(self.hooks))
            I.task_name = self.qual
            f = FuncRef(m.name, node, self.qual, None)
            I.stack.append(Frame(m.name, {}, lab))
            s1, s2 = Opaque("state", "state1"), Opaque("state", "state2")
            path.assume(z3.Int("n") >= 1)
            path.trace = []
            try:
                ret = I.call_function(f, [s1, s2, self.validate], {}, force_body=True)
            except RaiseEx as e:
                lcs = [e_ for e_ in path.trace if e_["name"] == "lc_check"]
                ok = e.exc_name == "AssertionError" and len(lcs) == 1 and lcs[0]["ret"][0] is False
                rec("post.AssertionError-only-when-lc_check-says-no", ok, f"real body raises {e.exc_name}: {e.msg}")
                return
            rec("no-raise", True)
            tr = list(path.trace)
            names = [e["name"] for e in tr]
            lcs = [e for e in tr if e["name"] == "lc_check"]
            ok = len(lcs) == 1 and lcs[0]["args"][0] is s1 and lcs[0]["args"][1] is s2
            if not rec("post.lc_check(state1,state2)", ok, f"recorded calls {names}"):
                return
            rec("post.returns-only-when-lc-equivalent", lcs[0]["ret"][0] is True, "returns a circuit although lc_check answered no")
            dags = [e for e in tr if e["name"] == "CircuitDAG"]
            loops_ = [e for e in tr if e["name"] == "foreach-gate"]
            ok = len(dags) == 1 and len(loops_) == 1 and tr.index(dags[0]) < tr.index(loops_[0]) and not [e for e in tr if e["name"] in ("add", "str_to_op")]
            if not rec("post.one-circuit-filled-by-one-loop", ok, f"recorded calls {names}"):
                return
            rec("post.return-is-that-circuit", ret is dags[0]["ret"] and loops_[0]["self"] is ret, "the returned circuit is not the one the gates were added to")
            GS.seq_equal(I, f"{lab}:post.gates-added-are-lc_check's-list-in-order", loops_[0]["args"][0], path.ghost["lc_gates"])
            kw = dags[0]["args"][1]
            npho = kw.get("n_photon", dags[0]["args"][0][0] if dags[0]["args"][0] else None)
            path.oblige(f"{lab}:post.n_photon-is-the-number-of-qubits", to_z3(npho) == z3.Int("n") if npho is not None else z3.BoolVal(False))
            val = [e for e in tr if e["name"] in ("QuantumState", "Infidelity", "StabilizerCompiler", "compile", "evaluate")]
            if not self.validate:
                rec("post.no-validation-run", not val, f"{[e['name'] for e in val]}")
                return
            # ---- validate=True: compile the built circuit from state 1, Infidelity against state 2 evaluated on the result
            cfs = [e for e in tr if e["name"] == "clifford_from_stabilizer"]
            s2g = [e for e in tr if e["name"] == "state_to_graph"]
            qs = [e for e in val if e["name"] == "QuantumState"]
            inf = [e for e in val if e["name"] == "Infidelity"]
            comp = [e for e in val if e["name"] == "compile"]
            evl = [e for e in val if e["name"] == "evaluate"]
            ok = len(cfs) == 2 and len(s2g) == 2 and len(qs) == 2 and len(inf) == 1 and len(comp) == 1 and len(evl) == 1 \
                and cfs[0]["args"][0] is s2g[0]["ret"][1] and cfs[1]["args"][0] is s2g[1]["ret"][1]
            if not rec("post.validate.calls", ok, f"{[e['name'] for e in val]}"):
                return

            def payload(e):
                a, k = e["args"]
                return a[0] if a else k.get("data")

            def state_of(e):  # which of the two QuantumState objects a value is
                return next((q for q in qs if q["ret"] is e), None)

            tgt = inf[0]["args"][0][0] if inf[0]["args"][0] else inf[0]["args"][1].get("target")
            q_t = state_of(tgt)
            rec("post.validate.metric-is-the-infidelity-to-state2", q_t is not None and payload(q_t) is cfs[1]["ret"],
                "Infidelity is not built around the Clifford tableau of state 2")
            ca, ck = comp[0]["args"]
            init = ck.get("initial_state", ca[1] if len(ca) > 1 else None)
            q_i = state_of(init)
            rec("post.validate.compiled-from-state1", q_i is not None and payload(q_i) is cfs[0]["ret"], "the circuit is not compiled starting from state 1")
            rec("post.validate.compiles-the-returned-circuit", (ca[0] if ca else ck.get("circuit")) is ret, "another circuit is compiled")
            ea, ek = evl[0]["args"]
            rec("post.validate.evaluates-the-compiled-state", evl[0]["self"] is inf[0]["ret"] and (ea[0] if ea else None) is comp[0]["ret"],
                "the metric is not evaluated on the state the compiler returned")

        try:
            explore(eng, harness)
        except Undecided as u:
            eng.record(f"{lab}:supported-subset", "undecided", 0, f"{u}", None)
        for r in eng.results.values():
            r.witness, r.replayed = None, False
        return eng


def scc_tasks():
    return [StrToOpTask(), SccTask(validate=False), SccTask(validate=True)]


def scc_canaries():
    bad = dict(OP_CLASS)
    bad["P"], bad["P_dag"] = "PhaseDagger", "Phase"
    return [StrToOpTask(label="canary.str_to_op.P-and-P_dag-exchanged", table=bad)]


# ------------------------------------------------------------------------------------------ Graph.lc_equivalent (dispatch)
GSTATE = "graphiq.backends.graph.state"
GLCEQ = f"{GSTATE}:Graph.lc_equivalent"


class LcEquivalentTask:
    """[P, trace; symbolic n] Graph.lc_equivalent(other, mode): is_lc_equivalent(adjacency(self), adjacency(other), mode=mode) with BOTH
    adjacency matrices in the sorted node order of self (nodes 0..n-1), this graph first; its answer is returned unchanged"""

    def __init__(self, label="Graph.lc_equivalent[dispatch]", swapped=False):
        self.qual = GLCEQ
        self.label = label
        self.swapped = swapped
        self.contract = Contract(GLCEQ, clause="is_lc_equivalent(adj(self), adj(other), mode) - both matrices in sorted node order, self first - and its "
                                               "result returned as is")
        self.timeout_ms = 10000

    def run(self):
        from . import nxmodel as NX
        from .graph_lc import GraphRep

        eng = Engine(self.timeout_ms)
        m, node, cls = source.find(self.qual)
        lab = self.label

        def rec(name, ok, detail=""):
            eng.record(f"{lab}:{name}", "discharged" if ok else "refuted", 0, "" if ok else detail, None)
            return ok

        q = f"{LCE}:is_lc_equivalent"
        R = {q: recorder(q, "is_lc_equivalent", result=lambda I, a, b, mode="deterministic", *r: (I.path.fresh("lc", "bool"), Token("solution", a, b)))}

        def node_view(interp, obj, attr):
            """`G.nodes` used as a PROPERTY (node view): [A] the labels 0..n-1, already increasing (contracts/nxmodel.py models the call form)"""
            if NX.is_graph(obj) and attr == "nodes" and concrete_int(obj.payload["n"]) is None:
                from pyvc.symlist import SymList
                from pyvc import models as _m

                _m.used("nx.Graph.nodes (view) on n symbolic nodes = the labels 0..n-1 (used only through sorted())")
                lst = SymList(obj.payload["n"], lambda kk: to_z3(kk), "G.nodes")
                lst.sorted_nodes_of = obj
                lst.increasing = True
                return lst
            return NX.getattr_hook(interp, obj, attr)

        hooks = dict(NX.HOOKS)
        hooks["getattr"] = node_view

        def harness(path):
            I = Interp(path, R, {f"graphiq.backends.state_base:StateRepresentationBase.data"}, dict(hooks))
            I.task_name = self.qual
            f = FuncRef(m.name, node, self.qual, I.get_class(m.name, cls.name))
            I.stack.append(Frame(m.name, {}, lab))
            n = z3.Int("n")
            path.assume(n >= 1)
            me, other = GraphRep("G", n).symbolic(I), GraphRep("H", n).symbolic(I)
            mode = Opaque("mode", "mode")
            path.trace = []
            try:
                ret = I.call_function(f, [me, other, mode], {}, force_body=True)
            except RaiseEx as e:
                rec("no-raise", False, f"real body raises {e.exc_name}: {e.msg}")
                return
            rec("no-raise", True)
            tr = list(path.trace)
            if not rec("post.one-call-of-is_lc_equivalent", len(tr) == 1 and tr[0]["name"] == "is_lc_equivalent", f"{[e['name'] for e in tr]}"):
                return
            a = tr[0]["args"]
            from pyvc.values import NDArr

            ok = len(a) >= 3 and isinstance(a[0], NDArr) and isinstance(a[1], NDArr) and a[2] is mode
            if not rec("post.arguments-(matrix,matrix,mode)", ok, repr(a)):
                return
            i, j = path.fresh("sk"), path.fresh("sk")
            rng = [i >= 0, i < n, j >= 0, j < n]
            first, second = (other, me) if self.swapped else (me, other)
            for k, (arr, g) in enumerate(((a[0], first), (a[1], second))):
                adj = g.fields["_data"].payload["adj"]
                path.oblige(f"{lab}:post.argument{k}-is-the-adjacency-in-node-order", z3.And(to_z3(arr.shape[0]) == n, to_z3(arr.shape[1]) == n,
                                                                                           as_int_term(arr.get(i, j)) == as_int_term(adj(i, j))), extra=rng)
            rec("post.result-forwarded", ret is tr[0]["ret"], "the answer of is_lc_equivalent is not returned as is")

        try:
            explore(eng, harness)
        except Undecided as u:
            eng.record(f"{lab}:supported-subset", "undecided", 0, f"{u}", None)
        for r in eng.results.values():
            r.witness, r.replayed = None, False
            if r.status == "refuted" and ":post." in r.name:
                w = self.native_witness()
                if w is not None:
                    r.witness, r.replayed = w, True
        return eng

    def native_witness(self):
        """REAL Graph(path 0-1).lc_equivalent(Graph(empty on 2 nodes), mode) with is_lc_equivalent replaced by a spy"""
        import importlib

        import networkx as nx
        import numpy as np

        gm = importlib.import_module(GSTATE)
        saved = gm.is_lc_equivalent
        seen = {}

        def spy(a, b, mode="deterministic", **k):
            seen["args"] = (np.asarray(a).tolist(), np.asarray(b).tolist(), mode)
            return ("answer", "solution")

        try:
            gm.is_lc_equivalent = spy
            try:
                got = gm.Graph(nx.path_graph(2)).lc_equivalent(gm.Graph(nx.empty_graph(2)), mode="random")
            except Exception as e:  # noqa: BLE001
                got = f"raises {type(e).__name__}: {e}"
        finally:
            gm.is_lc_equivalent = saved
        me, other = [[0, 1], [1, 0]], [[0, 0], [0, 0]]
        want = ((other, me) if self.swapped else (me, other)) + ("random",)
        if seen.get("args") == tuple(want) and got == ("answer", "solution"):
            return None
        return {"function": GLCEQ, "args": {"self": "path 0-1", "other": "empty graph on 2 nodes", "mode": "random"},
                "expected": {"is_lc_equivalent called on": list(want), "returns": "its answer"},
                "actual": {"is_lc_equivalent called on": list(seen.get("args", [])), "returns": repr(got)}}


def lceq_tasks():
    return [LcEquivalentTask()]


def lceq_canaries():
    return [LcEquivalentTask(label="canary.Graph.lc_equivalent.other-graph-first", swapped=True)]


# ------------------------------------------------------------------------------------------ all
def tasks():
    return lc_check_tasks() + conv_tasks() + scc_tasks() + lceq_tasks()


def canary_tasks():
    return lc_check_canaries() + conv_canaries() + scc_canaries() + lceq_canaries()


TRUSTED = [
    "[A-recorders] lc_check / converter_gate_list proofs: state_to_graph, converter_gate_list, canonical_form, run_circuit, StabilizerTableau.__eq__, "
    "is_lc_equivalent, local_clifford_ops, get_stabilizer_tableau_from_graph, _phase_correction, nx.to_numpy_array are recorded calls with abstract results",
    "[A] Python list semantics on gate lists of symbolic length (pyvc/gateseq.py): + = concatenation, [::-1] = reversal, append, "
    "for-loop visits elements in order (MAP rule: complete case split over the six gate names, induction over the length)",
]
