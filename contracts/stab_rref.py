"""C03 - FRAME contracts of stabilizer.rref and its helpers one_step_rref / _process_one_pauli / _process_two_pauli.

Proved (for every n, every bit tableau, every pivot in range): each function returns its argument tableau object, which
still is an n x 2n bit table with n sign bits; every tab_row_swap / tab_row_sum / pauli_type_finder call meets its
precondition and every list / array access is in bounds; the pivot advances as stated
      _process_one_pauli -> [p0+1, p1+1]     _process_two_pauli -> [p0+2, p1+1] (and p0+2 <= n)
      one_step_rref      -> [p0', p1+1] with p0 <= p0' <= min(p0+2, n)
the internal assert "row operations failed" of _process_two_pauli NEVER fires (proved from the finder contract: after the
two swaps the first listed rows of the two Pauli kinds are p0 and p0+1); rref's only abrupt exit is its final rank assert.
The while loop of rref is handled by havoc + invariant (pyvc/invloop.InvWhile): partial correctness, termination not claimed.

NOT proved here ([B-only], DESIGN C03): the output generates the same group (ghost move list), the echelon shape, and
gauge independence of the height function.
"""
from __future__ import annotations

import z3

from pyvc.contract import Contract, Task
from pyvc.invloop import InvLoop, InvWhile, make_hook, make_while_hook
from pyvc.symlist import SymList
from pyvc.values import Obj, NDArr, to_z3, as_int_term
from .common import STABF, TABLEAU_ACCESSORS, idx_in, mk_stabilizer
from .stab_gates import _and, _tab_parts
from .stab_inverse import havoc_tableau, tableau_inv, _is_bit
from .stab_tableau import KINDS

P1 = f"{STABF}:_process_one_pauli"
P2 = f"{STABF}:_process_two_pauli"
STEP = f"{STABF}:one_step_rref"
RREF = f"{STABF}:rref"
C = {}


def _shape_ok(I, T):
    tab, ph, n = _tab_parts(T)
    i, j = I.path.fresh("rq"), I.path.fresh("rq")
    n_ = to_z3(n)
    return z3.And(n_ >= 1, to_z3(tab.shape[0]) == n_, to_z3(tab.shape[1]) == 2 * n_, to_z3(ph.shape[0]) == n_,
                  z3.Implies(z3.And(i >= 0, i < n_, j >= 0, j < 2 * n_), _is_bit(as_int_term(tab.get(i, j)))))


def _pivot_ok(pivot, n_):
    if not (isinstance(pivot, list) and len(pivot) == 2):
        return False
    return z3.And(to_z3(pivot[0]) >= 0, to_z3(pivot[0]) < n_, to_z3(pivot[1]) >= 0, to_z3(pivot[1]) < n_)


def _kind_at(T, row, col, kind):
    tab, ph, n = _tab_parts(T)
    a, b = KINDS[kind]
    n_ = to_z3(n)
    return z3.And(as_int_term(tab.get(to_z3(row), to_z3(col))) == a, as_int_term(tab.get(to_z3(row), n_ + to_z3(col))) == b)


# ------------------------------------------------------------------------------------------ _process_one_pauli
def _p1_req(I, T, pivot, lst):
    n_ = to_z3(T.fields["n_qubits"])
    if not isinstance(lst, SymList):
        return False
    pv = _pivot_ok(pivot, n_)
    if pv is False:
        return False
    m = I.path.fresh("rq")
    L = to_z3(lst.length)
    return z3.And(_shape_ok(I, T), pv, L >= 1,
                  z3.Implies(z3.And(m >= 0, m < L), z3.And(to_z3(lst.get(m)) >= to_z3(pivot[0]), to_z3(lst.get(m)) < n_)))


def _p1_spec(I, T, pivot, lst):
    havoc_tableau(I, T)
    return (T, [to_z3(pivot[0]) + 1, to_z3(pivot[1]) + 1])


C[P1] = Contract(P1, requires=_p1_req, spec=_p1_spec,
                 clause="frame: returns (its argument tableau, [p0+1, p1+1]); swap and row sums within bounds")


# ------------------------------------------------------------------------------------------ _process_two_pauli
def _p2_req(I, T, pivot, d, t1, t2):
    n_ = to_z3(T.fields["n_qubits"])
    if not (isinstance(d, dict) and set(d) == {"x", "y", "z"} and all(isinstance(v, SymList) for v in d.values())
            and t1 in KINDS and t2 in KINDS and t1 != t2):
        return False
    pv = _pivot_ok(pivot, n_)
    if pv is False:
        return False
    a, b = d[t1], d[t2]
    a0, b0 = to_z3(a.get(z3.IntVal(0))), to_z3(b.get(z3.IntVal(0)))
    p0, p1 = to_z3(pivot[0]), to_z3(pivot[1])
    return z3.And(_shape_ok(I, T), pv, to_z3(a.length) >= 1, to_z3(b.length) >= 1,
                  a0 >= p0, a0 < n_, b0 >= p0, b0 < n_, _kind_at(T, a0, p1, t1), _kind_at(T, b0, p1, t2))


def _havoc_list(I, tag):
    k = I.path.counter.get("hvl", 0)
    I.path.counter["hvl"] = k + 1
    F = z3.Function(f"hvl{k}_{tag}", z3.IntSort(), z3.IntSort())
    s = SymList(z3.Int(f"hvl{k}_{tag}_len"), lambda m: F(to_z3(m)), f"havoc-{tag}")
    s.havoc = True
    return s


def _p2_spec(I, T, pivot, d, t1, t2):
    n_ = to_z3(T.fields["n_qubits"])
    havoc_tableau(I, T)
    for k in "xyz":
        d[k] = _havoc_list(I, k)  # the caller's dict is overwritten with the recomputed (and truncated) lists
    p0 = to_z3(pivot[0])
    I.claim("two-rows-available", p0 + 2 <= n_)
    return (T, [p0 + 2, to_z3(pivot[1]) + 1])


C[P2] = Contract(P2, requires=_p2_req, spec=_p2_spec,
                 clause="frame: returns (its argument tableau, [p0+2, p1+1]) with p0+2 <= n; the assert 'row operations failed' "
                        "cannot fire; swaps / row sums within bounds; the caller's dict of lists is overwritten")


# ------------------------------------------------------------------------------------------ one_step_rref
def _step_req(I, T, pivot):
    n_ = to_z3(T.fields["n_qubits"])
    pv = _pivot_ok(pivot, n_)
    if pv is False:
        return False
    return z3.And(_shape_ok(I, T), pv)


def _step_extract(I, ret):
    return dict(p0n=to_z3(ret[1][0]))


def _step_spec(I, T, pivot):
    n_ = to_z3(T.fields["n_qubits"])
    havoc_tableau(I, T)
    p0 = to_z3(pivot[0])
    q = I.choice["p0n"] if I.choice is not None else I.path.fresh("pivot_row")
    I.claim("pivot-row-advances-by-at-most-two-and-stays-in-range", z3.And(q >= p0, q <= p0 + 2, q <= n_))
    return (T, [q, to_z3(pivot[1]) + 1])


C[STEP] = Contract(STEP, requires=_step_req, spec=_step_spec, extract=_step_extract,
                   clause="frame: returns (its argument tableau, [p0', p1+1]) with p0 <= p0' <= min(p0+2, n)")


# ------------------------------------------------------------------------------------------ rref
def _rref_spec(I, T):
    if I.path.ghost.get("task") != RREF:
        from pyvc.interp import RaiseEx

        if I.path.decide(I.path.fresh("rref_assert_fails", "bool")):
            raise RaiseEx("AssertionError", "rref rank assert")
    havoc_tableau(I, T)
    I.path.ghost.setdefault("rref_results", []).append(T)
    return T


C[RREF] = Contract(RREF, requires=lambda I, T: _shape_ok(I, T), spec=_rref_spec,
                   permitted_raises=lambda I, exc, *a: exc == "AssertionError",
                   clause="frame: rref returns its argument tableau (n x 2n bits, n sign bits; contents: [B-only]); only abrupt exit: the "
                          "final rank assert")


# ------------------------------------------------------------------------------------------ loop contracts
def _wt(I):
    return I.path.ghost["wt"]


def _hv_T(I, env):
    return [havoc_tableau(I, _wt(I)["T"])]


def _inv_T(I, k, env):
    g = _wt(I)
    return [("tableau-is-the-working-object", env.get("tableau") is g["T"])] + tableau_inv(I, g["T"], g["n"], g["shape"])


def _row_loops(func):
    return [InvLoop(func, t, None, modifies={"tableau"}, havoc=_hv_T, inv=_inv_T) for t in ("row_i", "row_j", "row_k")]


def _while_havoc(I, env):
    g = _wt(I)
    havoc_tableau(I, g["T"])
    env["tableau"] = g["T"]
    env["pivot"] = [I.path.fresh("pivot_row"), I.path.fresh("pivot_col")]
    return [g["T"], env["pivot"]]


def _while_inv(I, k, env):
    g = _wt(I)
    n_ = to_z3(g["n"])
    pv = env.get("pivot")
    ok = isinstance(pv, list) and len(pv) == 2
    out = [("tableau-is-the-working-object", env.get("tableau") is g["T"]), ("pivot-is-a-pair", ok)]
    out += tableau_inv(I, g["T"], g["n"], g["shape"])
    if ok:
        out.append(("pivot-in-range", z3.And(to_z3(pv[0]) >= 0, to_z3(pv[0]) <= n_, to_z3(pv[1]) >= 0, to_z3(pv[1]) <= n_)))
    return out


RREF_WHILE = [InvWhile("rref", None, modifies={"tableau", "pivot"}, havoc=_while_havoc, inv=_while_inv)]


def _permit_rank_assert(interp, name, node):
    import ast

    return ast.unparse(node.test) == "pivot[0] >= n_qubits - 1"


# ------------------------------------------------------------------------------------------ tasks
def _register(I, T):
    if "wt" not in I.path.ghost:
        I.path.ghost["wt"] = dict(T=T, n=T.fields["n_qubits"], shape=T.fields["shape"], P=None)


def _mk_pivot(I):
    return [z3.Int("piv0"), z3.Int("piv1")]


def _clamped_list(I, tag, lo, n_):
    F = z3.Function(f"L_{tag}", z3.IntSort(), z3.IntSort())
    L = z3.Int(f"len_{tag}")
    return SymList(L, lambda m: z3.If(F(to_z3(m)) < lo, lo, z3.If(F(to_z3(m)) >= n_, n_ - 1, F(to_z3(m)))), tag)


def tasks(Call):
    Cx = dict(Call)
    Cx.update(C)
    T = []

    def mk1(I):
        S_ = mk_stabilizer(I, "S")
        _register(I, S_)
        piv = _mk_pivot(I)
        return [S_, piv, _clamped_list(I, "pl", piv[0], to_z3(S_.fields["n_qubits"]))]

    T.append(Task(P1, C[P1], mk1, Cx, inline=TABLEAU_ACCESSORS, hooks={"loop": make_hook(_row_loops("_process_one_pauli"))}))
    for t1, t2 in (("y", "z"), ("x", "z"), ("x", "y")):
        def mk2(I, _t1=t1, _t2=t2):
            S_ = mk_stabilizer(I, "S")
            _register(I, S_)
            piv = _mk_pivot(I)
            d = {}
            for k in "xyz":
                F = z3.Function(f"L_{k}", z3.IntSort(), z3.IntSort())
                d[k] = SymList(z3.Int(f"len_{k}"), (lambda m, _F=F: _F(to_z3(m))), k)
            return [S_, piv, d, _t1, _t2]

        T.append(Task(P2, C[P2], mk2, Cx, inline=TABLEAU_ACCESSORS, hooks={"loop": make_hook(_row_loops("_process_two_pauli"))},
                      label=f"_process_two_pauli[{t1},{t2}]", timeout_ms=20000))

    def mk3(I):
        S_ = mk_stabilizer(I, "S")
        _register(I, S_)
        return [S_, _mk_pivot(I)]

    T.append(Task(STEP, C[STEP], mk3, Cx, inline=TABLEAU_ACCESSORS, hooks={"loop": make_hook(_row_loops("one_step_rref"))}, timeout_ms=20000))

    def mk4(I):
        S_ = mk_stabilizer(I, "S")
        _register(I, S_)
        return [S_]

    T.append(Task(RREF, C[RREF], mk4, Cx, inline=TABLEAU_ACCESSORS,
                  hooks={"while": make_while_hook(RREF_WHILE), "permitted_asserts": _permit_rank_assert}))
    return T


def canary_tasks(Call):
    Cx = dict(Call)
    Cx.update(C)

    def bad_step(I, T, pivot):  # claims the pivot row always advances
        havoc_tableau(I, T)
        p0 = to_z3(pivot[0])
        q = I.choice["p0n"]
        I.claim("pivot-row-ALWAYS-advances", z3.And(q >= p0 + 1, q <= p0 + 2))
        return (T, [q, to_z3(pivot[1]) + 1])

    def bad_p1(I, T, pivot, lst):  # claims the pivot column stays
        havoc_tableau(I, T)
        return (T, [to_z3(pivot[0]) + 1, to_z3(pivot[1])])

    def mk3(I):
        S_ = mk_stabilizer(I, "S")
        _register(I, S_)
        return [S_, _mk_pivot(I)]

    def mk1(I):
        S_ = mk_stabilizer(I, "S")
        _register(I, S_)
        piv = _mk_pivot(I)
        return [S_, piv, _clamped_list(I, "pl", piv[0], to_z3(S_.fields["n_qubits"]))]

    return [Task(STEP, C[STEP], mk3, Cx, inline=TABLEAU_ACCESSORS, hooks={"loop": make_hook(_row_loops("one_step_rref"))},
                 label="canary.one_step_rref.pivot-row-always-advances", spec_override=bad_step, timeout_ms=20000),
            Task(P1, C[P1], mk1, Cx, inline=TABLEAU_ACCESSORS, hooks={"loop": make_hook(_row_loops("_process_one_pauli"))},
                 label="canary._process_one_pauli.pivot-column-stays", spec_override=bad_p1)]
