"""C03 - emitter budget is minimal: height function = bipartite entanglement entropy; the deterministic solver allocates
max(height) emitters and emits each photon exactly once.

Oracles (refsem, nothing from graphiq):
  * entropy of the state VECTOR across the cut {0..k}|{k+1..n-1}  (refsem.core.entropy_cut on refsem.core.stabilizer_state)
  * for graph states: GF(2) rank of the adjacency block joining the two sides (refsem.cgroup.cut_rank)
  * for n > 6 (random states): S_A = rank_GF(2)(generators restricted to A) - |A|   (Fattal et al.; cross-checked against
    the state-vector entropy on every case with n <= 6)

A generating set is given explicitly: {"x": rows, "z": rows, "r": signs}.
"""
from __future__ import annotations

import itertools

import numpy as np

from vf.bounded import Suite, jkey
from refsem import core as R
from refsem import cgroup as G
from refsem import cutrank as CR

S = Suite("C03")
H = "graphiq.backends.stabilizer.functions.height:"


# ------------------------------------------------------------------ oracles
def entropy_profile_vec(x, z, r):
    n = len(x)
    v = R.stabilizer_state(x, z, r)
    if v is None:
        raise ValueError("harness: generators are not independent/commuting")
    return [int(round(R.entropy_cut(v, n, k))) for k in range(n)]


def entropy_profile_gf2(x, z):
    x = np.array(x, dtype=int)
    z = np.array(z, dtype=int)
    n = len(x)
    out = []
    for k in range(n):
        a = k + 1
        out.append(R.gf2_rank(np.concatenate([x[:, :a], z[:, :a]], axis=1)) - a)
    return out


def oracle_profile(inp):
    x, z, r = inp["x"], inp["z"], inp.get("r") or [0] * len(inp["x"])
    prof = entropy_profile_gf2(x, z)
    if len(x) <= 6:
        pv = entropy_profile_vec(x, z, r)
        if pv != prof:
            raise RuntimeError(f"harness: the two oracles disagree {pv} vs {prof}")
    return prof


def _as_int_list(h):
    out = []
    for v in h:
        if int(v) != v:
            return None
        out.append(int(v))
    return out


# ------------------------------------------------------------------ contracts on height.py
@S.item(
    "height_func_list.entropy",
    site=H + "height_func_list",
    bound="all stabilizer states on n<=3 qubits (6 / 60 / 1080 = every maximal isotropic subspace x sign choices) in "
    "ALL ordered generating sets for n<=2 and 24 (quick) / all 168 (thorough) ordered generating sets for n=3 (signs: "
    "all 2^n for n<=2, 2 seeded choices per subspace for n=3); random stabilizer states n=4..8 (quick 200, thorough 2000)",
    clause="height at position k = entanglement entropy (bits) between qubits 0..k and the rest, for any generating set",
)
def height_entropy_case(inp):
    import graphiq.backends.stabilizer.functions.height as height

    want = oracle_profile(inp)
    x, z = np.array(inp["x"]), np.array(inp["z"])
    x0, z0 = x.copy(), z.copy()
    got = _as_int_list(height.height_func_list(x, z))
    if got != want:
        return f"height_func_list = {got}, entropy profile = {want}"
    for k in range(len(want)):
        hk = height.height_function(x0.copy(), z0.copy(), k)
        if hk != want[k]:
            return f"height_function(k={k}) = {hk}, entropy = {want[k]}"
    return None


@S.item(
    "height_func_list.gauge_independent",
    site=H + "height_func_list",
    bound="same states; the profile of generating set M.gens (signed products, M invertible over GF(2)) equals the "
    "profile of gens: all M for n<=2, 8 (thorough 40) seeded M for n=3 subspaces, 3 seeded M for random states n=4..8",
    clause="independently of the generating set",
)
def gauge_case(inp):
    import graphiq.backends.stabilizer.functions.height as height

    x, z, r = inp["x"], inp["z"], inp["r"]
    x2, z2, r2 = G.regauge(x, z, r, inp["M"])
    a = _as_int_list(height.height_func_list(np.array(x), np.array(z)))
    b = _as_int_list(height.height_func_list(np.array(x2), np.array(z2)))
    if a != b:
        return f"profile {a} for gens, {b} for M.gens (x={x2}, z={z2})"
    if a != oracle_profile(inp):
        return f"profile {a}, entropy profile {oracle_profile(inp)}"
    return None


@S.item(
    "height_func_list.graph_rank",
    site=H + "height_func_list",
    bound="all labelled graphs on n<=5 vertices (1+2+8+64+1024) in the standard generating set X_i Z_N(i); quick: "
    "n<=4 exhaustive + 300 seeded graphs on 5..7 vertices; thorough: n<=5 exhaustive + 3000 seeded graphs on 6..9",
    exhaustive=False,  # exhaustive part + seeded part, see bound
    clause="for a graph state the height is the GF(2) rank of the adjacency block joining the two sides",
)
def graph_rank_case(inp):
    import graphiq.backends.stabilizer.functions.height as height

    A = np.array(inp["adj"], dtype=int)
    n = len(A)
    want = [G.cut_rank(A, k) for k in range(n)]
    if n <= 6:
        v = R.graph_state(A)
        ent = [int(round(R.entropy_cut(v, n, k))) for k in range(n)]
        if ent != want:
            raise RuntimeError(f"harness: rank profile {want} vs state-vector entropy {ent}")
    got = _as_int_list(height.height_func_list(np.eye(n, dtype=int), A.copy()))
    if got != want:
        return f"height_func_list = {got}, cut ranks = {want}"
    return None


@S.item(
    "height_dict.height_max",
    site=H + "height_dict / height_max",
    bound="the generating sets of height_func_list.entropy with n<=3 (x/z form) and all graphs n<=4 (thorough n<=5) passed as "
    "networkx graph whose nodes 0..n-1 are inserted in increasing order (graph form)",
    clause="height profile / its maximum as returned by the public dict/max helpers (position -1 carries 0)",
)
def dict_max_case(inp):
    import networkx as nx
    import graphiq.backends.stabilizer.functions.height as height

    if "adj" in inp:
        A = np.array(inp["adj"], dtype=int)
        n = len(A)
        want = [G.cut_rank(A, k) for k in range(n)]
        g = nx.Graph()
        g.add_nodes_from(range(n))
        g.add_edges_from([(i, j) for i in range(n) for j in range(i + 1, n) if A[i, j]])
        d = height.height_dict(graph=g)
        m = height.height_max(graph=g)
    else:
        want = oracle_profile(inp)
        n = len(want)
        d = height.height_dict(x_matrix=np.array(inp["x"]), z_matrix=np.array(inp["z"]))
        m = height.height_max(x_matrix=np.array(inp["x"]), z_matrix=np.array(inp["z"]))
    wd = {-1: 0}
    wd.update({k: want[k] for k in range(n)})
    if {int(k): int(v) for k, v in d.items()} != wd or len(d) != n + 1:
        return f"height_dict = {d}, expected {wd}"
    if m != max(want):
        return f"height_max = {m}, expected {max(want)}"
    return None


# ------------------------------------------------------------------ contracts on the solver
@S.item(
    "determine_n_emitters.max_entropy",
    site="graphiq.solvers.time_reversed_solver:TimeReversedSolver.determine_n_emitters",
    bound="the signed generating sets of height_func_list.entropy (n<=3 and random n=4..8) as StabilizerTableau",
    clause="the number of emitters is exactly the maximum of the height function",
)
def n_emitters_case(inp):
    from graphiq.solvers.time_reversed_solver import TimeReversedSolver
    from graphiq.backends.stabilizer.tableau import StabilizerTableau

    want = max(oracle_profile(inp))
    tab = StabilizerTableau([np.array(inp["x"]), np.array(inp["z"])], np.array(inp["r"]))
    got = TimeReversedSolver.determine_n_emitters(tab)
    if got != want:
        return f"determine_n_emitters = {got}, max entropy over cuts = {want}"
    return None


@S.item(
    "solver.n_emitter",
    site="graphiq.solvers.time_reversed_solver:TimeReversedSolver.__init__",
    bound="all labelled graphs n<=4 (thorough n<=5; isolated vertices included) given as graph / stabilizer / "
    "density-matrix QuantumState, and seeded non-sorted vertex orders for graph input; + fixed: all 60 labelled 6-rings and every 8th "
    "of the 384 field-sensitive 6-vertex graphs (those without isolated vertex); + 30 (thorough 200) seeded graphs on 7..8 vertices, "
    "half field-sensitive; graph / stabilizer input alternating",
    exhaustive=False,  # exhaustive part + seeded part, see bound
    clause="the deterministic solver allocates exactly max(height) emitters - the minimum for the given emission order",
)
def solver_n_emitter_case(inp):
    from graphiq.solvers.time_reversed_solver import TimeReversedSolver
    from graphiq.metrics import Infidelity
    import bounded.C02 as C02

    target, A = C02.build_target(inp)
    want = max(G.cut_rank(A, k) for k in range(len(A)))
    solver = TimeReversedSolver(target=target, metric=Infidelity(target), compiler=C02.make_compiler("stab"))
    if solver.n_emitter != want or solver.n_photon != len(A):
        return f"solver.n_emitter = {solver.n_emitter} (n_photon {solver.n_photon}); max cut rank = {want}, n = {len(A)}"
    return None


def emits_once_case(inp):
    import bounded.C02 as C02

    solver, score, circuit, A = C02.run_solver(inp)
    n = len(A)
    want = max(G.cut_rank(A, k) for k in range(n))
    if circuit.n_emitters != want or circuit.n_photons != n:
        return f"circuit has {circuit.n_emitters} emitters / {circuit.n_photons} photons; expected {want} / {n}"
    count = [0] * n
    for op in circuit.sequence():
        if type(op).__name__ == "CNOT" and op.target_type == "p":
            if op.control_type != "e":
                return f"CNOT onto photon {op.target} is controlled by a {op.control_type!r} register"
            if not (0 <= op.control < circuit.n_emitters):
                return f"emission CNOT uses emitter {op.control} outside the allocated {circuit.n_emitters}"
            count[op.target] += 1
    if count != [1] * n:
        return f"emitter->photon CNOT count per photon = {count}, expected exactly one each"
    return None


S.item(
    "solver.emits_once",
    site="graphiq.solvers.time_reversed_solver:TimeReversedSolver.solve",
    bound="all labelled graphs without isolated vertex n<=4 (thorough n<=5, plus 2000 seeded graphs on 6 vertices) x "
    "graph / stabilizer / density-matrix input, stabilizer compiler; quick also every 23rd target of the fixed 6-vertex list of "
    "C02 solve.exact.six_vertices (59 targets, 3 emitters)",
    exhaustive=False,  # exhaustive part + seeded part, see bound
    clause="emits each photon exactly once (one emitter->photon CNOT per photon); circuit has max(height) emitters",
)(emits_once_case)

S.item(
    "solver.emits_once.isolated_vertex",
    site="graphiq.solvers.time_reversed_solver:TimeReversedSolver.solve",
    bound="fixed sample, seed-independent (touches known finding C02-F1): all 29 labelled graphs WITH an isolated vertex on "
    "n<=4 vertices (thorough adds every 6th of the 256 on 5 vertices: 43), graph input, stabilizer compiler",
    exhaustive=False,
    clause="same for targets with isolated vertices",
)(emits_once_case)


@S.item(
    "emitter_sorted.budget",
    site="graphiq.utils.relabel_module:emitter_sorted",
    bound="60 (thorough 400) seeded lists of 2..6 adjacency matrices on 2..6 vertices",
    clause="relabellings are ranked by the same emitter budget (max height)",
)
def emitter_sorted_case(inp):
    from graphiq.utils.relabel_module import emitter_sorted

    adjs = [np.array(a, dtype=int) for a in inp["adjs"]]
    out = emitter_sorted(np.array(adjs))
    if len(out) != len(adjs):
        return f"{len(out)} results for {len(adjs)} graphs"
    ks = []
    for adj, k in out:
        want = max(G.cut_rank(adj, c) for c in range(len(adj)))
        if k != want:
            return f"budget {k} reported for {np.array(adj).tolist()}, max cut rank {want}"
        ks.append(k)
    if ks != sorted(ks):
        return f"not sorted by budget: {ks}"
    a = sorted(np.array(x).astype(int).tolist() for x, _ in out)
    b = sorted(x.tolist() for x in adjs)
    if a != b:
        return "output graphs are not a permutation of the input graphs"
    return None


# ------------------------------------------------------------------ hardening: entry points x sizes where the field matters
def _graph_variants(A):
    """the same labelled graph built three ways (nodes 0..n-1 inserted in increasing order in each)"""
    import networkx as nx

    n = len(A)
    g1 = nx.Graph()
    g1.add_nodes_from(range(n))
    g1.add_edges_from([(i, j) for i in range(n) for j in range(i + 1, n) if A[i, j]])  # no edge attributes
    g2 = nx.from_numpy_array(A.astype(int))  # integer 'weight' attributes
    g3 = nx.from_numpy_array(A.astype(float))  # float 'weight' attributes
    return [("nx.Graph(edges)", g1), ("from_numpy_array(int)", g2), ("from_numpy_array(float)", g3)]


def _graph_snapshot(g):
    return (list(g.nodes(data=True)), sorted((min(a, b), max(a, b), repr(sorted(d.items()))) for a, b, d in g.edges(data=True)))


def _dict_symptom(d, want, tag):
    n = len(want)
    wd = {-1: 0}
    wd.update({k: want[k] for k in range(n)})
    try:
        got = {int(k): v for k, v in d.items()}
    except Exception:  # noqa: BLE001
        return f"{tag}: height_dict = {d!r}"
    if len(d) != n + 1 or set(got) != set(wd) or any(got[k] != wd[k] for k in wd):
        return f"{tag}: height_dict = {d}, GF(2) cut ranks = {wd}"
    return None


@S.item(
    "height.entry_points_agree",
    site=H + "height_dict / height_max / height_func_list / height_function ; TimeReversedSolver.determine_n_emitters",
    bound="fixed families on 6 vertices: ALL 384 labelled graphs whose cut-rank profile over the reals differs from the GF(2) "
    "profile, all 60 labelled 6-rings, all 10 labelled K_{3,3}, all 60 labelled triangular prisms (= complements of the rings), all 10 labelled "
    "2K_3; seeded: quick 150 random 6-vertex graphs and quick 120 / thorough 1500 graphs on 7..8 vertices, half of "
    "them drawn from the field-sensitive ones; thorough: ALL 32768 labelled graphs on 6 vertices.  Per graph: graph= entry (built "
    "as nx.Graph(edges) / from_numpy_array int / float), x,z entry (int and float arrays), tableau entry; each called twice",
    exhaustive=False,
    clause="for a graph state the height is the GF(2) rank of the adjacency block joining the two sides - by every entry point "
    "(graph / x,z matrices / tableau), which agree with each other; arguments are left unchanged",
)
def entry_points_case(inp):
    import graphiq.backends.stabilizer.functions.height as height
    from graphiq.backends.stabilizer.tableau import StabilizerTableau
    from graphiq.solvers.time_reversed_solver import TimeReversedSolver

    A = np.array(inp["adj"], dtype=int)
    n = len(A)
    want = CR.cut_rank_profile(inp["adj"])
    if n <= 6 and inp.get("sv"):
        v = R.graph_state(A)
        ent = [int(round(R.entropy_cut(v, n, k))) for k in range(n)]
        if ent != want:
            raise RuntimeError(f"harness: GF(2) rank profile {want} vs state-vector entropy {ent}")
    hmax = max(want)
    # graph entry point
    for tag, g in _graph_variants(A):
        snap = _graph_snapshot(g)
        for rep in (1, 2):
            bad = _dict_symptom(height.height_dict(graph=g), want, f"graph={tag} (call {rep})")
            if bad:
                return bad
            m = height.height_max(graph=g)
            if m != hmax:
                return f"graph={tag} (call {rep}): height_max = {m}, max GF(2) cut rank = {hmax}"
        if _graph_snapshot(g) != snap:
            return f"graph={tag}: the graph passed to height_dict/height_max was modified"
    # x,z entry point
    for dt in (int, float):
        x, z = np.eye(n, dtype=dt), A.astype(dt)
        x0, z0 = x.copy(), z.copy()
        for rep in (1, 2):
            got = _as_int_list(height.height_func_list(x, z))
            if got != want:
                return f"x,z ({dt.__name__}, call {rep}): height_func_list = {got}, GF(2) cut ranks = {want}"
            bad = _dict_symptom(height.height_dict(x_matrix=x, z_matrix=z), want, f"x,z ({dt.__name__}, call {rep})")
            if bad:
                return bad
            m = height.height_max(x_matrix=x, z_matrix=z)
            if m != hmax:
                return f"x,z ({dt.__name__}, call {rep}): height_max = {m}, max GF(2) cut rank = {hmax}"
        k = inp.get("k", n // 2 - 1)
        hk = height.height_function(x, z, k)
        if hk != want[k]:
            return f"x,z ({dt.__name__}): height_function(k={k}) = {hk}, GF(2) cut rank = {want[k]}"
        if x.dtype != x0.dtype or z.dtype != z0.dtype or not np.array_equal(x, x0) or not np.array_equal(z, z0):
            return f"x,z ({dt.__name__}): the arrays passed to the height functions were modified"
    # tableau entry point (the solver's budget)
    tab = StabilizerTableau([np.eye(n, dtype=int), A.copy()])
    for rep in (1, 2):
        ne = TimeReversedSolver.determine_n_emitters(tab)
        if ne != hmax:
            return f"tableau (call {rep}): determine_n_emitters = {ne}, max GF(2) cut rank = {hmax}"
    return None


def _budget(adj):
    return max(CR.cut_rank_profile(np.array(adj).astype(int).tolist()))


def _sorted_symptom(adjs, out, tag):
    """contract of emitter_sorted: (graph, budget) pairs, every input graph once, budget = max GF(2) cut rank, ascending"""
    if len(out) != len(adjs):
        return f"{tag}: {len(out)} results for {len(adjs)} graphs"
    ks = []
    for adj, k in out:
        want = _budget(adj)
        if k != want:
            return f"{tag}: budget {k} reported for {np.array(adj).astype(int).tolist()}, max GF(2) cut rank {want}"
        ks.append(k)
    if ks != sorted(ks):
        return f"{tag}: not sorted by budget: {ks}"
    a = sorted(np.array(x).astype(int).tolist() for x, _ in out)
    b = sorted(np.array(x).astype(int).tolist() for x in adjs)
    if a != b:
        return f"{tag}: output graphs are not a permutation of the input graphs"
    return None


@S.item(
    "emitter_sorted.budget.six_plus",
    site="graphiq.utils.relabel_module:emitter_sorted",
    bound="fixed: the 384 field-sensitive labelled 6-vertex graphs (see height.entry_points_agree) + the 60 labelled 6-rings in 74 "
    "lists of 6, each list padded with 2 graphs of other budgets; seeded: quick 40 / thorough 400 lists of 3..6 graphs on 6..8 "
    "vertices (half field-sensitive).  Each list passed as int ndarray, float ndarray and Python list of float arrays, twice",
    clause="relabellings are ranked by the same emitter budget (max height = max GF(2) cut rank); the input is left unchanged",
)
def emitter_sorted_big_case(inp):
    from graphiq.utils.relabel_module import emitter_sorted

    base = [np.array(a, dtype=int) for a in inp["adjs"]]
    forms = [("int ndarray", np.array(base)), ("float ndarray", np.array(base).astype(float)), ("list of float arrays", [b.astype(float) for b in base])]
    for tag, arg in forms:
        before = [np.array(a).copy() for a in arg]
        for rep in (1, 2):
            bad = _sorted_symptom(base, emitter_sorted(arg), f"{tag} (call {rep})")
            if bad:
                return bad
        if len(arg) != len(before) or any(not np.array_equal(a, b) or np.asarray(a).dtype != b.dtype for a, b in zip(arg, before)):
            return f"{tag}: emitter_sorted modified its argument"
    return None


@S.item(
    "iso_finder.sort_emit",
    site="graphiq.utils.relabel_module:iso_finder (sort_emit=True) -> emitter_sorted -> height_max(graph=)",
    bound="fixed: every 8th of the 384 field-sensitive 6-vertex graphs + 6-ring, K_{3,3}, prism in 3 labellings each, n_iso in "
    "{8, 30} x seed in {0, 1} (the 48 field-sensitive ones: n_iso in {60, 100}, so that sampled relabellings repeat and the "
    "sorting branch runs); seeded: quick 30 / thorough 300 graphs on 6..7 vertices (half field-sensitive, a third with a twin "
    "vertex), n_iso in {20, 60}.  Monitor on the real emitter_sorted at its "
    "call site inside iso_finder",
    clause="relabellings are ranked by the emitter budget: whenever iso_finder sorts, each budget it uses is the max GF(2) cut "
    "rank and the returned relabellings (after the original) are in ascending budget order",
)
def iso_sort_case(inp):
    import warnings
    import graphiq.utils.relabel_module as rm

    A = np.array(inp["adj"], dtype=int)
    calls = []
    real = rm.emitter_sorted

    def spy(adj_arr):
        given = [np.array(a).copy() for a in adj_arr]
        out = real(adj_arr)
        calls.append((given, out))
        return out

    rm.emitter_sorted = spy
    try:
        with warnings.catch_warnings():
            warnings.simplefilter("ignore")
            A_arg = A.copy()
            res = rm.iso_finder(A_arg, inp["n_iso"], sort_emit=True, seed=inp["seed"])
    finally:
        rm.emitter_sorted = real
    if not np.array_equal(A_arg, A):
        return "iso_finder modified the adjacency matrix it was given"
    for given, out in calls:
        bad = _sorted_symptom(given, out, "emitter_sorted inside iso_finder")
        if bad:
            return bad
    if calls:
        res = [np.array(r).astype(int) for r in res]
        if not np.array_equal(res[0], A):
            return "sorted output: the original graph is not the first element"
        ks = [_budget(r) for r in res[1:]]
        if ks != sorted(ks):
            return f"sorted output: budgets after the original are {ks}, not ascending"
    return None



# ------------------------------------------------------------------ domain
def _random_stab(n, rng, depth=None):
    """random stabilizer state: conjugate Z_1..Z_n (random signs) by a random H/P/CNOT word (refsem update rules)"""
    rows = [tuple([tuple([0] * n), tuple(int(j == i) for j in range(n)), int(rng.integers(2))]) for i in range(n)]
    for _ in range(depth or 6 * n):
        t = rng.integers(3)
        if t == 2 and n > 1:
            c, q = rng.choice(n, size=2, replace=False)
            rows = [R._conj_cx(x, z, r, int(c), int(q)) for (x, z, r) in rows]
        else:
            q = int(rng.integers(n))
            rows = [R._conj1(x, z, r, q, "HP"[t % 2]) for (x, z, r) in rows]
    return {"x": [list(x) for x, z, r in rows], "z": [list(z) for x, z, r in rows], "r": [int(r) for x, z, r in rows]}


def _rand_adj(n, rng, p=None):
    p = rng.uniform(0.2, 0.8) if p is None else p
    A = np.triu((rng.random((n, n)) < p).astype(int), 1)
    return (A + A.T).tolist()


def run(tier, seed):
    import bounded.C02 as C02

    rng = np.random.default_rng(seed)
    thorough = tier == "thorough"
    gens, gauge, small = [], [], []
    for n in (1, 2, 3):
        Ms = G.gl2(n)
        for basis in G.lagrangians(n):
            bx = [list(v[:n]) for v in basis]
            bz = [list(v[n:]) for v in basis]
            if n <= 2:
                signs = [list(s) for s in itertools.product([0, 1], repeat=n)]
                use = Ms
            else:
                signs = [rng.integers(0, 2, size=n).tolist() for _ in range(2)]
                use = Ms if thorough else [Ms[i] for i in rng.choice(len(Ms), size=24, replace=False)]
            for si, r in enumerate(signs):
                for M in (use if si == 0 or n <= 2 else use[:6]):
                    x, z, rr = G.regauge(bx, bz, r, M)
                    gens.append({"x": x, "z": z, "r": rr})
                gM = Ms if n <= 2 else [Ms[i] for i in rng.choice(len(Ms), size=40 if thorough else 8, replace=False)]
                for M in gM:
                    gauge.append({"x": bx, "z": bz, "r": r, "M": M})
    small = list(gens)
    for _ in range(2000 if thorough else 200):
        n = int(rng.integers(4, 9))
        st = _random_stab(n, rng)
        gens.append(st)
        for _ in range(3):
            gauge.append(dict(st, M=G.random_gl2(n, rng)))
    S.map("height_func_list.entropy", gens, nontrivial=lambda i: len(i["x"]) > 1)
    S.map("height_func_list.gauge_independent", gauge, nontrivial=lambda i: i["M"] != np.eye(len(i["M"]), dtype=int).tolist())
    S.map("determine_n_emitters.max_entropy", gens, nontrivial=lambda i: len(i["x"]) > 1)

    nmax = 5 if thorough else 4
    graphs = [{"adj": A.tolist()} for n in range(1, nmax + 1) for A in R.all_graphs(n)]
    extra = [{"adj": _rand_adj(int(rng.integers(6, 10)) if thorough else int(rng.integers(5, 8)), rng)} for _ in range(3000 if thorough else 300)]
    has_edge = lambda i: bool(np.any(np.array(i["adj"])))
    S.map("height_func_list.graph_rank", graphs + extra, nontrivial=has_edge)
    S.map("height_dict.height_max", small[:: (1 if thorough else 7)] + graphs, nontrivial=lambda i: ("adj" in i and has_edge(i)) or ("x" in i and len(i["x"]) > 1))

    # solver
    alloc, once = [], []
    for n in range(1, nmax + 1):
        for edges in C02._graphs(n):
            iso = C02._has_isolated(n, edges)
            for rep in ("g", "s", "dm"):
                case = {"n": n, "edges": edges, "rep": rep, "comp": "stab"}
                alloc.append(case)
                if not iso:
                    once.append(case)
            if n >= 3 and not iso:
                p = rng.permutation(n).tolist()
                alloc.append({"n": n, "edges": edges, "rep": "g", "comp": "stab", "order": p})
    if thorough:
        seen = set()
        while len(seen) < 2000:
            A = np.array(_rand_adj(6, rng))
            edges = [[i, j] for i in range(6) for j in range(i + 1, 6) if A[i, j]]
            key = tuple(map(tuple, edges))
            if key in seen or C02._has_isolated(6, edges):
                continue
            seen.add(key)
            once.append({"n": 6, "edges": edges, "rep": "g", "comp": "stab"})
    # hardening: targets on >= 6 vertices (where a rank over the wrong field would first show), fixed + seeded
    from refsem import c02_targets as T

    def edges_of(A):
        return [[i, j] for i in range(len(A)) for j in range(i + 1, len(A)) if A[i][j]]

    fam6 = CR.field_sensitive_graphs6()
    for k, A in enumerate(CR.all_labellings(CR.cycle(6)) + fam6[::8]):
        if not C02._has_isolated(6, edges_of(A)):
            alloc.append({"n": 6, "edges": edges_of(A), "rep": "gs"[k % 2], "comp": "stab"})
    for k in range(200 if thorough else 30):
        n = 7 + k % 2
        while True:
            A = _rand_adj(n, rng, p=rng.uniform(0.3, 0.7))
            if not C02._has_isolated(n, edges_of(A)) and (k % 2 or CR.field_sensitive(A)):
                break
        alloc.append({"n": n, "edges": edges_of(A), "rep": "gs"[k % 2], "comp": "stab"})
    if not thorough:
        once += [{"n": 6, "edges": T.edges(6, i), "rep": "g", "comp": "stab"} for i in T.SIX_VERTEX[::23]]
    once_iso = [c for c in C02.isolated_cases(tier) if c["rep"] == "g" and c["comp"] == "stab"]  # fixed list (known finding C02-F1)
    S.max_failures_per_item = 120  # record every failing input of the fixed isolated-vertex list (29 / 72)
    nt = lambda i: len(i["edges"]) > 0
    S.map("solver.n_emitter", alloc, nontrivial=nt)
    S.map("solver.emits_once", once, nontrivial=nt)
    S.map("solver.emits_once.isolated_vertex", once_iso, nontrivial=nt)

    lists = []
    for _ in range(400 if thorough else 60):
        n = int(rng.integers(2, 7))
        lists.append({"adjs": [_rand_adj(n, rng) for _ in range(int(rng.integers(2, 7)))]})
    S.map("emitter_sorted.budget", lists)

    # ---- hardening domains (sizes where the rank over the reals and over GF(2) part ways: >= 6 vertices)
    fam = CR.field_sensitive_graphs6()  # 384, fixed
    rings = CR.all_labellings(CR.cycle(6))  # 60
    named = rings + CR.all_labellings(CR.complete_bipartite(3, 3)) + CR.all_labellings(CR.prism()) \
        + CR.all_labellings(CR.complement(CR.complete_bipartite(3, 3)))  # 60 + 10 + 60 + 10

    def rand_graph(n, sensitive):
        while True:
            A = _rand_adj(n, rng, p=rng.uniform(0.3, 0.7))
            if not sensitive or CR.field_sensitive(A):
                return A

    ep = [{"adj": A, "sv": 1} for A in fam + named]
    if thorough:
        seen = {jkey(A) for A in fam + named}
        ep += [{"adj": A, "sv": 1} for A in (CR.adj_from_index(6, i) for i in range(2 ** 15)) if jkey(A) not in seen]
    else:
        ep += [{"adj": CR.adj_from_index(6, int(i)), "sv": 1} for i in rng.integers(0, 2 ** 15, size=150)]
    for k in range(1500 if thorough else 120):
        n = 7 + k % 2
        ep.append({"adj": rand_graph(n, k % 4 < 2), "k": int(rng.integers(0, n))})
    S.map("height.entry_points_agree", ep, nontrivial=has_edge)

    three_rungs = CR.adj_from_index(6, 0)
    for a in range(3):
        three_rungs[a][a + 3] = three_rungs[a + 3][a] = 1  # budget 3
    path6 = [[1 if abs(i - j) == 1 else 0 for j in range(6)] for i in range(6)]  # budget 1
    pool = fam + rings
    big = []
    for c in range(0, len(pool), 6):
        chunk = [list(map(list, A)) for A in pool[c : c + 6]]
        pos = (c // 6) % (len(chunk) + 1)
        chunk.insert(pos, three_rungs)
        chunk.insert((2 * pos + 1) % len(chunk), path6)
        big.append({"adjs": chunk})
    for k in range(400 if thorough else 40):
        n = 6 + k % 3
        big.append({"adjs": [rand_graph(n, j % 2 == 0) for j in range(int(rng.integers(3, 7)))]})
    S.map("emitter_sorted.budget.six_plus", big)

    iso = []
    for A in fam[::8]:
        for n_iso in (60, 100):
            iso.append({"adj": A, "n_iso": n_iso, "seed": (len(iso) // 2) % 2})
    for base in (CR.cycle(6), CR.complete_bipartite(3, 3), CR.prism()):
        labs = CR.all_labellings(base)
        for A in (labs[0], labs[len(labs) // 2], labs[-1]):
            for n_iso in (8, 30):
                for sd in (0, 1):
                    iso.append({"adj": A, "n_iso": n_iso, "seed": sd})
    for k in range(300 if thorough else 30):
        n = 6 + k % 2
        A = rand_graph(n, k % 2 == 0)
        if k % 3 == 0:  # make vertex n-1 a twin of vertex 0: a non-trivial automorphism, so that relabellings coincide
            A = [row[:] for row in A]
            for j in range(n):
                A[n - 1][j] = A[j][n - 1] = 0 if j in (0, n - 1) else A[0][j]
        iso.append({"adj": A, "n_iso": int((20, 60)[k % 2]), "seed": int(rng.integers(0, 1000))})
    S.map("iso_finder.sort_emit", iso)
    S.note("height.entry_points_agree / emitter_sorted.budget.six_plus / iso_finder.sort_emit: expected values from refsem.cutrank "
           "(bit-matrix elimination over GF(2)), cross-checked per case with the state-vector entropy for n <= 6; the 'field-sensitive' "
           "families are selected with a real-rank computation that is used for selection only")
    S.note("height_dict(graph=...) is only driven with graphs whose node labels are inserted in increasing order: the function "
           "computes `list(graph.nodes()).sort()` (= None), i.e. it silently uses insertion order, which coincides with the "
           "documented sorted order exactly on this domain; which of the two orders is intended for other graphs is not fixed by the statement")
    return S
