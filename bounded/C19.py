"""C19 [B] - random-search solvers are reproducible and report honest, ordered results.

Run-time contract monitors on the REAL RandomSearchSolver.update_hof / tournament_selection, EvolutionarySolver.solve and
HybridEvolutionarySolver (population_initialization / randomize_circuit through solve).

Clauses of the statement and where they are monitored
  * "with a fixed seed ... the same hall of fame with the same circuits"      solve.reproducible_same_process,
                                                                              solve.reproducible_across_hashseeds(_seeded)
  * "hall of fame is ordered by non-decreasing score"                         update_hof.* (unit), solve.generation_invariants
  * "each entry's stored score equals the metric re-evaluated on its circuit" solve.generation_invariants (every generation;
                                                                              deterministic compiler, measurement_determinism=1),
                                                                              update_hof.* (entries are fresh copies), tournament_selection.contract
  * "the reported result is the best entry"                                   solve.generation_invariants
  * "the best score never gets worse from one generation to the next"         solve.generation_invariants, update_hof.*

Hardening (STRENGTHEN_BRIEF H1/H2/H6):
  * solver built with a user-supplied start circuit and n_pop > 1          population_initialization.start_circuit,
    (population members independent copies, population scores honest,        solve.start_circuit_invariants (fixed),
    caller's circuit / target unchanged)                                     solve.start_circuit_honest_seeded
  * seed VALUES 0, 1, 7 (0 must seed), fresh solvers, shared metric /      solve.reproducible_seed_values
    compiler / target objects between two solvers

Solver run config (JSON input; optional "start": op list of a start circuit, see build_start; "popcheck": population monitored):
   {"solver": "evo"|"hybrid", "target": name in TARGETS, "ne": emitters (evo only), "compiler": "s"|"dm", "seed": int,
    "n_pop": int, "n_stop": int, "n_hof": int, "sel": bool, "adapt": bool, "k": tournament size}
"Ordered" is demanded exactly as stated: hof[i].score <= hof[i+1].score as floats (no tolerance).
Circuits are "the same" when every register carries the same sequence of operations (class, registers, register types,
classical registers, wrapper gate lists); the order in which sequence() interleaves different registers is not compared.
Logs are not compared (the statement speaks of the hall of fame).
"""
from __future__ import annotations

import itertools
import json
import os
import random
import subprocess
import sys

import networkx as nx
import numpy as np

from vf.bounded import Suite

from graphiq.backends.density_matrix.compiler import DensityMatrixCompiler
from graphiq.backends.stabilizer.compiler import StabilizerCompiler
from graphiq.backends.stabilizer.functions.rep_conversion import get_clifford_tableau_from_graph
from graphiq.circuit import ops as gops
from graphiq.circuit.circuit_dag import CircuitDAG
from graphiq.metrics import Infidelity
from graphiq.solvers import solver_base
from graphiq.solvers.evolutionary_solver import EvolutionarySolver, EvolutionarySolverSetting
from graphiq.solvers.hybrid_solvers import HybridEvolutionarySolver
from graphiq.solvers.solver_base import RandomSearchSolver, RandomSearchSolverSetting
from graphiq.state import QuantumState

S = Suite("C19")
S.max_failures_per_item = 500

TARGETS = {  # name -> (n photons, edges)
    "path2": (2, [(0, 1)]),
    "path3": (3, [(0, 1), (1, 2)]),
    "star4": (4, [(0, 1), (0, 2), (0, 3)]),
    "path4": (4, [(0, 1), (1, 2), (2, 3)]),
    "cycle4": (4, [(0, 1), (1, 2), (2, 3), (3, 0)]),
}


# ------------------------------------------------------------------------------------------------ helpers
def describe(circuit):
    """operation sequence of a circuit (public attributes), JSON-able"""
    if circuit is None:
        return None
    out = []
    for op in circuit.sequence():
        nm = type(op).__name__
        if nm in ("Input", "Output"):
            continue
        d = [nm, list(op.q_registers), list(op.q_registers_type), list(op.c_registers)]
        if nm == "OneQubitGateWrapper":
            d.append([g.__name__ for g in op.operations])
        out.append(d)
    return out


def wires(circuit):
    """canonical form of a circuit: for every register the operations on it, in order.  Two circuits with the same
    wires are the same circuit; the order in which sequence() lists operations of different registers is not part of it."""
    if circuit is None:
        return None
    w = {}
    for d in describe(circuit):
        for t, r in zip(d[2], d[1]):
            w.setdefault(f"{t}{r}", []).append(d)
        for c in d[3]:
            w.setdefault(f"c{c}", []).append(d)
    return {k: w[k] for k in sorted(w)}


def hof_digest(hof):
    return [[repr(float(s)), wires(c)] for s, c in hof]


def make_solver(cfg, shared=None):
    n, edges = TARGETS[cfg["target"]]
    g = nx.Graph()
    g.add_nodes_from(range(n))
    g.add_edges_from(edges)
    target = QuantumState(get_clifford_tableau_from_graph(g), rep_type="s")
    if cfg.get("compiler", "s") == "dm":
        target.convert_representation("dm")
        compiler = DensityMatrixCompiler()
    else:
        compiler = StabilizerCompiler()
    compiler.measurement_determinism = 1
    metric = Infidelity(target)
    st = EvolutionarySolverSetting(n_hof=cfg["n_hof"], n_stop=cfg["n_stop"], n_pop=cfg["n_pop"],
                                   tournament_k=cfg.get("k", 2), selection_active=bool(cfg["sel"]),
                                   use_adapt_probability=bool(cfg["adapt"]))
    if shared is not None:  # H1: the SAME target / metric / compiler objects serve a second solver
        target, metric, compiler = shared.target, shared.metric, shared.compiler
    if cfg["solver"] == "evo":
        start = build_start(cfg["start"], cfg["ne"], n) if cfg.get("start") is not None else None
        return EvolutionarySolver(target=target, metric=metric, compiler=compiler, circuit=start, n_emitter=cfg["ne"], n_photon=n,
                                  solver_setting=st)
    return HybridEvolutionarySolver(target=target, metric=metric, compiler=compiler, solver_setting=st)


def build_start(spec, ne, n):
    """a user-supplied start circuit from a JSON op list:
       ["E", e, p]   emission CNOT e -> p (label Fixed)          ["P", p, [gate names]]  photon wrapper (label Fixed)
       ["M", e, p]   MeasurementCNOTandReset e -> p (Fixed)      ["W", e, [gate names]]  emitter wrapper (removable)
       ["C", e, e2]  emitter-emitter CNOT (removable)"""
    c = CircuitDAG(n_emitter=ne, n_photon=n, n_classical=1)
    for o in spec:
        k = o[0]
        if k == "E":
            op = gops.CNOT(control=o[1], control_type="e", target=o[2], target_type="p")
            op.add_labels("Fixed")
        elif k == "P":
            op = gops.OneQubitGateWrapper([getattr(gops, g) for g in o[2]], register=o[1], reg_type="p")
            op.add_labels("Fixed")
        elif k == "M":
            op = gops.MeasurementCNOTandReset(control=o[1], control_type="e", target=o[2], target_type="p")
            op.add_labels("Fixed")
        elif k == "W":
            op = gops.OneQubitGateWrapper([getattr(gops, g) for g in o[2]], register=o[1], reg_type="e")
        elif k == "C":
            op = gops.CNOT(control=o[1], control_type="e", target=o[2], target_type="e")
        else:
            raise ValueError(k)
        c.add(op)
    return c


def circuit_snapshot(c):
    return [wires(c), c.to_openqasm(), sorted(map(str, c.dag.nodes)), sorted(map(str, c.dag.edges(keys=True))),
            [c.n_emitters, c.n_photons, c.n_classical]]


def target_snapshot(t):
    d = t.rep_data.data
    if hasattr(d, "table"):
        return [t.rep_type, type(d).__name__, np.array(d.table).tolist(), np.array(d.phase).tolist()]
    return [t.rep_type, type(d).__name__, np.array(d).tobytes().hex()]


def run_solver(cfg):
    s = make_solver(cfg)
    s.seed(cfg["seed"])
    s.solve()
    return s


def evaluate_like_solve(solver, circuit):
    """the score solve() computes for a circuit: compile, trace out the emitters, evaluate the metric"""
    st = solver.compiler.compile(circuit)
    st.partial_trace(keep=list(range(solver.n_photon)), dims=(solver.n_photon + solver.n_emitter) * [2])
    return float(solver.metric.evaluate(st, circuit))


def run_digest(cfg):
    s = run_solver(cfg)
    return {"hof": hof_digest(s.hof), "result": [repr(float(s.result[0])), wires(s.result[1])],
            "registers": [[c.n_emitters, c.n_photons, c.n_classical] for _, c in s.hof if c is not None]}


def _first_diff(a, b, path=""):
    if type(a) != type(b):
        return f"{path}: {str(a)[:80]} vs {str(b)[:80]}"
    if isinstance(a, dict):
        for k in a:
            d = _first_diff(a[k], b.get(k), f"{path}.{k}")
            if d:
                return d
        return None
    if isinstance(a, list):
        if len(a) != len(b):
            return f"{path}: lengths {len(a)} vs {len(b)}"
        for i, (x, y) in enumerate(zip(a, b)):
            d = _first_diff(x, y, f"{path}[{i}]")
            if d:
                return d
        return None
    return None if a == b else f"{path}: {str(a)[:80]} vs {str(b)[:80]}"


# ------------------------------------------------------------------------------------------------ update_hof (unit)
def _circ(n_h, tag):
    """one-emitter circuit with n_h + 2 DAG nodes; `tag` varies the gates so circuits are distinguishable"""
    c = CircuitDAG(n_emitter=1, n_photon=0, n_classical=0)
    gates = [gops.Hadamard, gops.Phase, gops.SigmaX, gops.SigmaZ]
    for i in range(n_h):
        c.add(gates[(tag + i) % 4](register=0, reg_type="e"))
    return c


def _num(x):
    return float("inf") if x == "inf" else float(x)


def update_hof_contract(inp):
    """inp = {"hof": [[score|"inf", n_gates|null], ...], "pop": [[score, n_gates], ...]}; hof must be sorted on entry"""
    n_hof = len(inp["hof"])
    solver = RandomSearchSolver(target=None, metric=None, compiler=None,
                                solver_setting=RandomSearchSolverSetting(n_hof=n_hof, n_stop=1, n_pop=max(1, len(inp["pop"]))))
    old = []
    for i, (s, ng) in enumerate(inp["hof"]):
        old.append((_num(s), None if ng is None else _circ(ng, i)))
    solver.hof = list(old)
    pop = [(_num(s), _circ(ng, 10 + j)) for j, (s, ng) in enumerate(inp["pop"])]
    pop_desc = [describe(c) for _, c in pop]
    pop_text = [c.to_openqasm() for _, c in pop]
    solver.update_hof(pop)
    new = solver.hof
    if len(new) != n_hof:
        return f"hall of fame has {len(new)} entries, expected {n_hof}"
    scores = [float(s) for s, _ in new]
    for i in range(n_hof - 1):
        if not scores[i] <= scores[i + 1]:
            return f"hall of fame not ordered by non-decreasing score: {[repr(x) for x in scores]}"
    if not scores[0] <= old[0][0]:
        return f"best score got worse: {old[0][0]!r} -> {scores[0]!r}"
    if scores[0] != min(scores):
        return f"first entry {scores[0]!r} is not the best entry {min(scores)!r}"
    # honesty of the entries: kept old entries (same objects, same relative order) or fresh copies of population members
    kept = []
    for s, c in new:
        idx = [i for i, (so, co) in enumerate(old) if c is not None and co is c]
        if idx:
            if old[idx[0]][0] != s:
                return f"a previous entry's score changed from {old[idx[0]][0]!r} to {s!r}"
            kept.append(idx[0])
            continue
        if c is None:
            if s != float("inf"):
                return f"entry with score {s!r} has no circuit"
            continue
        if any(c is pc for _, pc in pop):
            return "hall of fame holds the population's own circuit object (no copy): later in-place mutation changes it"
        ok = any(ps == s and describe(c) == pop_desc[j] and c.to_openqasm() == pop_text[j] for j, (ps, pc) in enumerate(pop))
        if not ok:
            return f"entry (score {s!r}) is neither a previous entry nor a copy of a population member with that score"
    if kept != sorted(kept):
        return f"previous entries changed their relative order: {kept}"
    for j, (ps, pc) in enumerate(pop):
        if describe(pc) != pop_desc[j]:
            return "update_hof modified a population circuit"
    return None


_UH_SITE = "graphiq.solvers.solver_base:RandomSearchSolver.update_hof"


@S.item("update_hof.contract_grid", site=_UH_SITE, exhaustive=True,
        bound="n_hof in {1,2,3}; every sorted hall of fame over scores {0,0.25,0.5,1,inf-sentinel} (ties allowed) x circuit sizes "
              "{1,2 gates}; every population of 1 or 2 members over scores {0,0.25,0.5,1} x sizes {1,2}",
        clause="ordered by non-decreasing score; best never gets worse; first entry is the best; entries are previous "
               "entries or fresh copies of population members")
def update_hof_grid_case(inp):
    return update_hof_contract(inp)


@S.item("update_hof.near_ties", site=_UH_SITE, exhaustive=True,
        bound="12 hand-made halls of fame / populations whose scores differ by 1e-9 or 1e-16-scale rounding",
        clause="ordered by non-decreasing score (as floats) also when scores are nearly equal")
def update_hof_near_case(inp):
    return update_hof_contract(inp)


E = 1e-9
NEAR_TIES = [
    {"hof": [[0.5, 2], [0.7, 2]], "pop": [[0.5 - E, 2]]},
    {"hof": [[0.5, 2], [0.7, 2]], "pop": [[0.5 + E, 2]]},
    {"hof": [[0.5, 2], [0.7, 2]], "pop": [[0.5 - E, 1]]},
    {"hof": [[0.5, 2], [0.7, 2]], "pop": [[0.5 + E, 1]]},
    {"hof": [[0.5, 1], [0.7, 2]], "pop": [[0.5 - E, 2]]},
    {"hof": [["inf", None], ["inf", None]], "pop": [[0.5, 2], [0.5 - E, 2]]},
    {"hof": [["inf", None], ["inf", None]], "pop": [[0.5 - E, 2], [0.5, 2]]},
    {"hof": [[0.5, 2], [0.5, 2], [0.7, 2]], "pop": [[0.5 - E, 2]]},
    {"hof": [[0.25, 2], [0.5, 2], [0.7, 2]], "pop": [[0.5 - E, 2]]},
    {"hof": [[0.5, 2], [0.7, 2]], "pop": [[0.4999999999999999, 2]]},
    {"hof": [[0.4999999999999999, 2], [0.7, 2]], "pop": [[0.5, 2]]},
    {"hof": [[0.0, 2], [0.7, 2]], "pop": [[1e-9, 1]]},
]


def grid_cases():
    vals = [0.0, 0.25, 0.5, 1.0, "inf"]
    out = []
    pops1 = [[[s, n]] for s in vals[:4] for n in (1, 2)]
    pops2 = [a + b for a in pops1 for b in pops1]
    for n_hof in (1, 2, 3):
        for combo in itertools.combinations_with_replacement(range(5), n_hof):
            sc = [vals[i] for i in combo]
            fin = [s for s in sc if s != "inf"]
            for sizes in itertools.product((1, 2), repeat=len(fin)):
                hof = [[s, sizes[i]] for i, s in enumerate(fin)] + [["inf", None]] * (n_hof - len(fin))
                for pop in pops1 + pops2:
                    out.append({"hof": hof, "pop": pop})
    return out


# ------------------------------------------------------------------------------------------------ tournament_selection (unit)
@S.item("tournament_selection.contract", site="graphiq.solvers.solver_base:RandomSearchSolver.tournament_selection",
        bound="population sizes {4,6} x tournament sizes {0,1,2,3} x seeds; random scores with ties",
        clause="new population = fresh deep copies (k>0) of the minimum of each draw, so a stored score always belongs to its circuit")
def tournament_case(inp):
    n_pop, k, seed = inp["n_pop"], inp["k"], inp["seed"]
    rng = np.random.default_rng(seed)
    solver = RandomSearchSolver(target=None, metric=None, compiler=None,
                                solver_setting=RandomSearchSolverSetting(n_hof=2, n_stop=1, n_pop=n_pop))
    pop = [(float(rng.integers(0, 4)) / 4, _circ(int(rng.integers(1, 4)), j)) for j in range(n_pop)]
    desc = [describe(c) for _, c in pop]
    draws = []
    real_choices = random.choices

    def spy(population, *a, **kw):
        r = real_choices(population, *a, **kw)
        draws.append(list(r))
        return r

    random.seed(seed)
    solver_base.random.choices = spy
    try:
        new = solver.tournament_selection(pop, k=k)
    finally:
        solver_base.random.choices = real_choices
    if k == 0:
        if len(new) != n_pop or any(a[1] is not b[1] or a[0] != b[0] for a, b in zip(new, pop)):
            return "k=0 must return the population unchanged"
        return None
    if len(new) != n_pop:
        return f"new population has {len(new)} members, expected {n_pop}"
    if len(draws) != n_pop:
        return f"{len(draws)} tournaments were drawn, expected {n_pop}"
    seen = set()
    for i, (s, c) in enumerate(new):
        if any(c is pc for _, pc in pop):
            return f"member {i} shares its circuit object with the old population (in-place mutation would alias)"
        if id(c) in seen:
            return f"member {i} shares its circuit object with another new member"
        seen.add(id(c))
        d = draws[i]
        if len(d) != k:
            return f"tournament {i} drew {len(d)} members, expected {k}"
        best = min(x[0] for x in d)
        if s != best:
            return f"member {i} has score {s}, the minimum of its draw is {best}"
        src = [j for j, (ps, pc) in enumerate(pop) if any(pc is x[1] for x in d) and ps == s and desc[j] == describe(c)]
        if not src:
            return f"member {i}: circuit is not a copy of a drawn member with score {s}"
    for j, (ps, pc) in enumerate(pop):
        if describe(pc) != desc[j]:
            return "tournament_selection modified the old population"
    return None


# ------------------------------------------------------------------------------------------------ solver runs
_SOLVE_SITE = "graphiq.solvers.evolutionary_solver:EvolutionarySolver.solve"


@S.item("solve.generation_invariants", site=_SOLVE_SITE,
        bound="fixed sample, seed-independent (the ordering clauses can in principle meet known finding C19-G1, update_hof near ties): "
              "targets path2/path3/star4/path4/cycle4 x solvers {evolutionary (1-2 emitters), hybrid} x (n_pop,n_stop,n_hof) in "
              "{(4,3,2),(8,5,3),(6,4,1)} x selection on/off x adaptive on/off x solver seeds 0..3 (quick) / 0..15 (thorough); stabilizer "
              "compiler (+ density-matrix compiler for the evolutionary solver: honesty clauses only, plus - thorough - one fixed "
              "density-matrix run with all clauses in which G1 shows), measurement_determinism=1",
        clause="after every generation: hof ordered, stored score = metric re-evaluated on stored circuit, best never worse; "
               "on exit result = best entry")
def invariants_fixed_case(cfg):
    return invariants_case(cfg)


@S.item("solve.honest_scores_seeded", site=_SOLVE_SITE,
        bound="same config grid with VERIF_SEED-dependent solver seeds; only the clauses that known finding C19-G1 cannot touch are "
              "demanded (config carries \"order\": false): entries are (score, circuit) with score = metric re-evaluated on the "
              "stored circuit after every generation, hall-of-fame size, result is an entry of the hall of fame",
        clause="each entry's stored score equals the metric re-evaluated on its stored circuit (seeded exploration)")
def invariants_seeded_case(cfg):
    return invariants_case(cfg)


def invariants_case(cfg):
    solver = make_solver(cfg)
    snaps = []  # per generation: [(score, circuit object, private copy)]
    pop_symptom = []
    real = solver.update_hof
    popcheck = bool(cfg.get("popcheck"))
    start = solver.circuit
    start_snap = None if start is None else circuit_snapshot(start)
    target_snap = target_snapshot(solver.target) if popcheck else None

    def monitored(population):
        if popcheck and not pop_symptom:
            # the population handed to update_hof: (score, circuit) pairs whose score belongs to the circuit, circuits that
            # can be mutated independently of each other and of the caller's start circuit
            g = len(snaps)
            if len(population) != cfg["n_pop"]:
                pop_symptom.append(f"generation {g}: population has {len(population)} members, expected {cfg['n_pop']}")
            for a in range(len(population)):
                ca = population[a][1]
                if start is not None and (ca is start or ca.dag is start.dag):
                    pop_symptom.append(f"generation {g}: population member {a} is the caller's start circuit itself (no copy)")
                    break
                for b in range(a):
                    if ca is population[b][1] or ca.dag is population[b][1].dag:
                        pop_symptom.append(f"generation {g}: population members {b} and {a} are the same circuit object: an in-place "
                                           f"mutation of one changes the other while its score stays")
                        break
            if not pop_symptom:
                for a, (sc, ca) in enumerate(population):
                    re = evaluate_like_solve(solver, ca.copy())
                    if abs(re - float(sc)) > 1e-12:
                        pop_symptom.append(f"generation {g}: population member {a} carries score {float(sc)!r} but its circuit "
                                           f"evaluates to {re!r}")
                        break
        real(population)
        snaps.append([(float(s), c, None if c is None else c.copy()) for s, c in solver.hof])

    solver.update_hof = monitored
    solver.seed(cfg["seed"])
    solver.solve()
    if len(snaps) != cfg["n_stop"]:
        return f"update_hof ran {len(snaps)} times for {cfg['n_stop']} generations"
    if start is not None:
        if solver.circuit is not start:
            return "solver.circuit no longer is the caller's start circuit"
        if circuit_snapshot(start) != start_snap:
            return "solve() modified the caller's start circuit"
        if any(c is start or (c is not None and c.dag is start.dag) for _, c in solver.hof):
            return "the hall of fame holds the caller's start circuit itself (no copy)"
    if popcheck and target_snapshot(solver.target) != target_snap:
        return "solve() modified the caller's target state"
    prev_best = float("inf")
    order = cfg.get("order", True)
    for g, snap in enumerate(snaps):
        scores = [s for s, _, _ in snap]
        if len(snap) != cfg["n_hof"]:
            return f"generation {g}: hall of fame has {len(snap)} entries, expected {cfg['n_hof']}"
        if order:
            for i in range(len(scores) - 1):
                if not scores[i] <= scores[i + 1]:
                    return f"generation {g}: hall of fame not ordered: {[repr(x) for x in scores]}"
            if not scores[0] <= prev_best:
                return f"generation {g}: best score got worse: {prev_best!r} -> {scores[0]!r}"
        prev_best = scores[0]
        for i, (s, c, cp) in enumerate(snap):
            if cp is None:
                continue
            re = evaluate_like_solve(solver, cp)
            if abs(re - s) > 1e-12:
                return (f"generation {g}: entry {i} stores score {s!r} but its circuit evaluates to {re!r} "
                        f"(circuit {json.dumps(describe(cp))[:300]})")
    # the objects kept in the final hall of fame were not modified after they were stored
    last = snaps[-1]
    if len(solver.hof) != len(last) or any(a[1] is not b[1] or float(a[0]) != b[0] for a, b in zip(solver.hof, last)):
        return "hall of fame changed after the last update_hof"
    for i, (s, c) in enumerate(solver.hof):
        if c is not None:
            re = evaluate_like_solve(solver, c)
            if abs(re - float(s)) > 1e-12:
                return f"final entry {i} stores score {float(s)!r} but its circuit evaluates to {re!r}"
    if solver.result is None or not any(solver.result[1] is c and float(solver.result[0]) == float(s) for s, c in solver.hof):
        return "result is not an entry (score, circuit) of the hall of fame"
    if pop_symptom:
        return pop_symptom[0]
    if not order:
        return None
    best = min(float(s) for s, _ in solver.hof)
    if float(solver.result[0]) != best:
        return f"result score {float(solver.result[0])!r} is not the best entry {best!r}"
    lmin = [float(v) for v in solver.logs["hof"]["cost_min"]]
    want = [min(s for s, _, _ in snap) for snap in snaps]
    if lmin != want:
        return f"logged best scores {lmin} differ from the hall of fame's {want}"
    return None


# ---- H6 / H2 / H1: solver built with a user-supplied start circuit (EvolutionarySolver(circuit=...)), n_pop > 1
def _starts(n, ne):
    """fixed start circuits for n photons / ne emitters (JSON op lists, see build_start)"""
    em = [i % ne for i in range(n)]
    bare = []
    for p_ in range(n):
        bare += [["E", em[p_], p_], ["P", p_, ["Identity", "Hadamard"]]]
    bare += [["M", e, (e + 1) % n] for e in range(ne)]
    dressed = [["W", e, ["Hadamard"]] for e in range(ne)]
    if ne == 2:
        dressed.append(["C", 0, 1])
    for p_ in range(n):
        dressed += [["E", em[p_], p_], ["P", p_, ["Hadamard"] if p_ % 2 else ["Identity"]], ["W", em[p_], ["Hadamard"]]]
        if p_ == 1:
            dressed.append(["W", em[p_], ["Phase", "Hadamard"]])
    dressed += [["M", e, n - 1 - e] for e in range(ne)]
    return {"bare": bare, "dressed": dressed}


@S.item("population_initialization.start_circuit",
        site="graphiq.solvers.evolutionary_solver:EvolutionarySolver.population_initialization", exhaustive=True,
        bound="EvolutionarySolver(circuit=start) for 12 fixed start circuits (targets path2/path3/star4/cycle4, 1-2 emitters, bare / "
              "dressed with removable emitter gates) x n_pop in 1..6; called twice on the same solver",
        clause="population members are mutated in place: the initial population must be n_pop independent copies of the caller's "
               "circuit (mutating one changes neither another member nor the caller's circuit), on every call")
def popinit_case(cfg):
    solver = make_solver(cfg)
    start = solver.circuit
    snap = circuit_snapshot(start)
    for call in (1, 2):
        pop = solver.population_initialization()
        if len(pop) != cfg["n_pop"]:
            return f"call {call}: {len(pop)} members, expected {cfg['n_pop']}"
        for a, (sc, c) in enumerate(pop):
            if c is start or c.dag is start.dag:
                return f"call {call}: member {a} is the caller's circuit itself"
            if circuit_snapshot(c)[:2] != snap[:2]:
                return f"call {call}: member {a} differs from the caller's circuit"
            if any(c is d or c.dag is d.dag for _, d in pop[:a]):
                return f"call {call}: member {a} is the same circuit object as an earlier member (n_pop={cfg['n_pop']})"
        # semantic independence: mutate each member in turn with the solver's own transformations
        solver.seed(cfg["seed"] + call)
        for a, (sc, c) in enumerate(pop):
            before = [circuit_snapshot(d) for _, d in pop]
            for _ in range(3):
                solver.add_emitter_one_qubit_op(c)
                solver.replace_photon_one_qubit_op(c)
            for b, (_, d) in enumerate(pop):
                if b != a and circuit_snapshot(d) != before[b]:
                    return f"call {call}: mutating member {a} changed member {b}"
            if circuit_snapshot(start) != snap:
                return f"call {call}: mutating member {a} changed the caller's circuit"
    return None


@S.item("solve.start_circuit_invariants", site=_SOLVE_SITE,
        bound="fixed sample, seed-independent (ordering clauses as in solve.generation_invariants; can in principle meet known finding "
              "C19-G1): EvolutionarySolver(circuit=start) for the 12 fixed start circuits x (n_pop,n_stop,n_hof) in "
              "{(2,4,1),(3,4,2),(6,3,3)} x selection on/off x solver seeds 0,1,7 (adaptive probabilities on for odd seeds); stabilizer "
              "compiler, measurement_determinism=1",
        clause="after every generation: every population member's score belongs to its circuit and members are distinct objects; "
               "hof ordered, stored score = metric re-evaluated on the stored circuit, best never worse; result = best entry; the "
               "caller's start circuit and target are unchanged")
def start_invariants_case(cfg):
    return invariants_case(cfg)


@S.item("solve.start_circuit_honest_seeded", site=_SOLVE_SITE,
        bound="the same start circuits and settings with VERIF_SEED-dependent solver seeds; ordering clauses not demanded "
              "(\"order\": false, so known finding C19-G1 cannot show)",
        clause="stored score = metric re-evaluated on the stored circuit; population honest; caller's circuit unchanged (seeded)")
def start_invariants_seeded_case(cfg):
    return invariants_case(cfg)


def start_configs(seeds, settings=((2, 4, 1), (3, 4, 2), (6, 3, 3))):
    out = []
    for tname, ne in (("path2", 1), ("path3", 1), ("path3", 2), ("star4", 1), ("cycle4", 1), ("cycle4", 2)):
        n = TARGETS[tname][0]
        for sname, spec in _starts(n, ne).items():
            for (n_pop, n_stop, n_hof) in settings:
                for sel in (False, True):
                    for seed in seeds:
                        out.append({"solver": "evo", "target": tname, "compiler": "s", "seed": seed, "n_pop": n_pop, "n_stop": n_stop,
                                    "n_hof": n_hof, "sel": sel, "adapt": bool(seed % 2), "k": 2 + (seed % 2), "ne": ne,
                                    "start": spec, "popcheck": True})
    return out


def popinit_configs():
    out = []
    for tname, ne in (("path2", 1), ("path3", 1), ("path3", 2), ("star4", 1), ("cycle4", 1), ("cycle4", 2)):
        for sname, spec in _starts(TARGETS[tname][0], ne).items():
            for n_pop in range(1, 7):
                out.append({"solver": "evo", "target": tname, "compiler": "s", "seed": n_pop, "n_pop": n_pop, "n_stop": 1, "n_hof": 1,
                            "sel": False, "adapt": False, "k": 2, "ne": ne, "start": spec})
    return out


# ---- H6 / H1: particular seed values (0 must seed like any other value), fresh solvers, shared metric / compiler objects
@S.item("solve.reproducible_seed_values", site="graphiq.solvers.solver_base:SolverBase.seed",
        bound="fixed sample: solver seeds 0, 1, 7 x {evolutionary 1-2 emitters, evolutionary with a start circuit, hybrid} x targets "
              "path3/star4/cycle4 x (n_pop,n_stop,n_hof) in {(4,3,2),(6,4,3)} x selection/adaptive off/on: three runs in one process - "
              "fresh solver; (unseeded draws from numpy.random / random in between) fresh solver; third solver sharing the first one's "
              "target, metric and compiler objects",
        clause="fixed seed (0 included) => same hall of fame (scores, circuits), same result, in every fresh run")
def repro_seed_values_case(cfg):
    def digest(s):
        s.seed(cfg["seed"])
        s.solve()
        return {"hof": hof_digest(s.hof), "result": [repr(float(s.result[0])), wires(s.result[1])]}

    s1 = make_solver(cfg)
    a = digest(s1)
    # whatever the global generators did before must not matter
    np.random.random(int(3 + cfg["seed"]))
    random.random()
    b = digest(make_solver(cfg))
    d = _first_diff(a, b, "run")
    if d:
        return f"two fresh runs with seed {cfg['seed']} differ at {d}"
    c = digest(make_solver(cfg, shared=s1))
    d = _first_diff(a, c, "run")
    if d:
        return f"a run with seed {cfg['seed']} that shares target / metric / compiler objects with an earlier run differs at {d}"
    return None


def seed_value_configs():
    out = []
    for tname in ("path3", "star4", "cycle4"):
        n = TARGETS[tname][0]
        variants = [("evo", 1, None), ("evo", 1, _starts(n, 1)["dressed"]), ("hybrid", None, None)]
        if tname != "star4":
            variants += [("evo", 2, None), ("evo", 2, _starts(n, 2)["bare"])]
        for solver, ne, start in variants:
            for (n_pop, n_stop, n_hof) in ((4, 3, 2), (6, 4, 3)):
                for onoff in (False, True):
                    for seed in (0, 1, 7):
                        cfg = {"solver": solver, "target": tname, "compiler": "s", "seed": seed, "n_pop": n_pop, "n_stop": n_stop,
                               "n_hof": n_hof, "sel": onoff, "adapt": onoff, "k": 2}
                        if solver == "evo":
                            cfg["ne"] = ne
                            if start is not None:
                                cfg["start"] = start
                        out.append(cfg)
    return out


@S.item("solve.reproducible_same_process", site="graphiq.solvers.solver_base:SolverBase.seed",
        bound="same config grid as solve.generation_invariants with VERIF_SEED-dependent solver seeds (no known finding can show "
              "within one process): two runs with the same seed in one process, a run with another seed in between",
        clause="fixed seed => same hall of fame (scores, circuits), same result")
def repro_case(cfg):
    a = run_digest(cfg)
    other = dict(cfg, seed=cfg["seed"] + 1000)
    run_solver(other)  # disturb the global generators in between
    b = run_digest(cfg)
    d = _first_diff(a, b, "run")
    if d:
        return f"two runs with seed {cfg['seed']} differ at {d}"
    return None


def _batch_digest(cfgs):
    return [run_digest(c) for c in cfgs]


def _digests_in_subprocess(cfgs, hashseed):
    env = dict(os.environ, PYTHONHASHSEED=str(hashseed))
    p = subprocess.run([sys.executable, "-W", "ignore", "-c",
                        "import sys, json; from bounded.C19 import _batch_digest; "
                        "print(json.dumps(_batch_digest(json.load(sys.stdin))))"],
                       input=json.dumps(cfgs), capture_output=True, text=True, env=env, timeout=900)
    if p.returncode != 0:
        return f"solver run raised in subprocess (PYTHONHASHSEED={hashseed}): {p.stderr[-400:]}"
    return json.loads(p.stdout.strip().splitlines()[-1])


_PROC_CACHE = {}  # (jkey(cfg), hashseed) -> digest ; filled in bulk by run(), lazily on replay


def _ck(cfg):
    return json.dumps(cfg, sort_keys=True)


def _bulk(args):
    cfgs, hs = args
    return _digests_in_subprocess(cfgs, hs)


@S.item("solve.reproducible_across_hashseeds", site="graphiq.solvers.solver_base:SolverBase.seed",
        bound="fixed sample, seed-independent (the list on which finding C19-G2 was found and repaired): targets "
              "path3, cycle4 x solvers {evolutionary with 1 and 2 emitters, hybrid} x (n_pop,n_stop,n_hof) in {(4,3,2),(8,5,3),(6,4,1)} "
              "x (selection, adaptive) in {off/off, on/on} x solver seeds 0,1 (quick) / 0..5 (thorough): the same config in two fresh "
              "interpreters with PYTHONHASHSEED=1 and 2",
        clause="fixed seed => same hall of fame, whatever the interpreter's hash seed (set iteration order must not reach a random index)")
def repro_proc_case(cfg):
    res = []
    for hs in (1, 2):
        key = (_ck(cfg), hs)
        if key not in _PROC_CACHE:
            r = _digests_in_subprocess([cfg], hs)
            _PROC_CACHE[key] = r if isinstance(r, str) else r[0]
        if isinstance(_PROC_CACHE[key], str):
            return _PROC_CACHE[key]
        res.append(_PROC_CACHE[key])
    d = _first_diff(res[0], res[1], "run")
    if d:
        return f"PYTHONHASHSEED=1 and 2 give different results for seed {cfg['seed']}: {d}"
    return None


@S.item("solve.reproducible_across_hashseeds_seeded", site="graphiq.solvers.solver_base:SolverBase.seed",
        bound="seeded exploration (no known finding concerns reproducibility): all five targets x solvers {evolutionary 1-2 emitters, "
              "hybrid} x the three settings x selection/adaptive off/off, on/on x VERIF_SEED-dependent solver seeds; PYTHONHASHSEED=1 and 2",
        clause="fixed seed => same hall of fame, whatever the interpreter's hash seed (seeded exploration)")
def repro_proc_single_case(cfg):
    return repro_proc_case(cfg)


# ------------------------------------------------------------------------------------------------ domains
def configs(seeds, with_dm):
    out = []
    for tname, (n, _) in TARGETS.items():
        variants = [("evo", 1), ("hybrid", None)]
        if tname in ("path3", "cycle4"):
            variants.append(("evo", 2))
        for solver, ne in variants:
            for (n_pop, n_stop, n_hof) in ((4, 3, 2), (8, 5, 3), (6, 4, 1)):
                for sel in (False, True):
                    for adapt in (False, True):
                        for seed in seeds:
                            comps = ["s"] + (["dm"] if with_dm and solver == "evo" and seed % 3 == 0 else [])
                            for comp in comps:
                                cfg = {"solver": solver, "target": tname, "compiler": comp, "seed": seed, "n_pop": n_pop,
                                       "n_stop": n_stop, "n_hof": n_hof, "sel": sel, "adapt": adapt, "k": 2 + (seed % 2)}
                                if solver == "evo":
                                    cfg["ne"] = ne
                                if comp == "dm":
                                    # density-matrix scores carry 1e-16 rounding noise, i.e. near ties: the ordering clauses would
                                    # meet known finding C19-G1 at inputs that move with any numerical change in /repo.  Ordering is
                                    # decided by update_hof alone (backend independent): it is judged on the stabilizer-backend runs
                                    # (exact ties only), the update_hof unit items and the fixed witness below.
                                    cfg["order"] = False
                                out.append(cfg)
    return out


# a real run in which known finding C19-G1 shows (density-matrix scores 0.5000000000000001 / ...04 stored out of order)
G1_WITNESS_RUN = {"solver": "evo", "target": "star4", "compiler": "dm", "seed": 9, "n_pop": 8, "n_stop": 5, "n_hof": 3,
                  "sel": False, "adapt": True, "k": 3, "ne": 1}


def hashseed_fixed_configs(thorough):
    return [c for c in configs(list(range(6 if thorough else 2)), with_dm=False)
            if c["target"] in ("path3", "cycle4") and c["sel"] == c["adapt"]]


def _prefetch(item, cfgs):
    """run every config once per hash seed in bulk (a few subprocesses) and cache the digests for the per-config checker"""
    import multiprocessing.pool as mpp
    import time

    procs = int(os.environ.get("VERIF_PROCS", "16"))
    nb = max(1, min(len(cfgs), procs))
    jobs = [(cfgs[i::nb], h) for i in range(nb) for h in (1, 2)]
    t0 = time.time()
    with mpp.ThreadPool(procs) as tp:
        outs = tp.map(_bulk, jobs)
    S.items[item].wall_s += time.time() - t0
    for (cs, h), out in zip(jobs, outs):
        for i, c in enumerate(cs):
            _PROC_CACHE[(_ck(c), h)] = out if isinstance(out, str) else out[i]


def run(tier, seed):
    thorough = tier == "thorough"
    base = 1000 + seed * 100  # VERIF_SEED-dependent solver seeds start at 1000: disjoint from the fixed samples
    S.map("update_hof.contract_grid", grid_cases())
    S.map("update_hof.near_ties", NEAR_TIES)
    S.map("tournament_selection.contract",
          [{"n_pop": n, "k": k, "seed": base + s} for n in (4, 6) for k in (0, 1, 2, 3) for s in range(40 if thorough else 10)])
    # fixed samples (independent of VERIF_SEED; quick is a prefix-by-seed subset of thorough)
    S.map("solve.generation_invariants",
          configs(list(range(16 if thorough else 4)), with_dm=True) + ([G1_WITNESS_RUN] if thorough else []), chunksize=4)
    hs = hashseed_fixed_configs(thorough)
    _prefetch("solve.reproducible_across_hashseeds", hs)
    S.map("solve.reproducible_across_hashseeds", hs, procs=1)
    S.map("population_initialization.start_circuit", popinit_configs())
    S.map("solve.start_circuit_invariants", start_configs([0, 1, 7]), chunksize=4)
    S.map("solve.reproducible_seed_values", seed_value_configs(), chunksize=2)
    # seeded exploration on domains the known findings cannot reach
    S.map("solve.start_circuit_honest_seeded",
          [dict(c, order=False) for c in start_configs([base + s for s in range(3 if thorough else 1)])], chunksize=4)
    hon = [dict(c, order=False) for c in configs([base + s for s in range(4 if thorough else 1)], with_dm=True)]
    S.map("solve.honest_scores_seeded", hon, chunksize=4)
    rep = configs([base + s for s in range(6 if thorough else 1)], with_dm=True)
    S.map("solve.reproducible_same_process", rep, chunksize=4)
    seeded = [c for c in configs([base + s for s in range(3 if thorough else 1)], with_dm=False) if c["sel"] == c["adapt"]]
    _prefetch("solve.reproducible_across_hashseeds_seeded", seeded)
    S.map("solve.reproducible_across_hashseeds_seeded", seeded, procs=1)
    S.note("hybrid solver is driven with a stabilizer target only: with a density-matrix target TimeReversedSolver.__init__ converts the "
           "caller's target in place (C13) and Infidelity.evaluate then raises UnboundLocalError - not a C19 clause")
    S.note("'stored score = metric re-evaluated' uses solve()'s own pipeline (compile, trace out emitters, metric.evaluate) with the "
           "solver's compiler, measurement_determinism=1; the probabilistic mode is excluded (a statement about one draw)")
    S.note("the reproducibility items are seeded or fixed as stated in their bounds; known finding C19-G1 (update_hof near ties) does not "
           "affect reproducibility")
    return S
