"""C05 - stabilizer state comparison and fidelity are exact.   Bounded stand-ins [B].

Contracts monitored on the REAL graphiq.backends.stabilizer.functions.metric.fidelity / inner_product,
functions.stabilizer.canonical_form, StabilizerTableau.__eq__, Stabilizer.__eq__ and metrics.Infidelity.evaluate:

  for stabilizer states a, b given by ANY generating set (and any destabilizers)
    fidelity(A,B) = |<a|b>|^2,  |inner_product(A,B)|^2 = |<a|b>|^2,  fidelity(A,B) = fidelity(B,A),
    fidelity(A,B) = 1  <=>  a = b,
    canonical_form depends only on the state and is different for different states (sign-only differences included),
    Stabilizer(A) == Stabilizer(B)  <=>  a = b,
    Infidelity(target).evaluate(state) = 1 - |<t|s>|^2   (mixture: 1 - sum_i p_i |<t|s_i>|^2).

Oracle: state vectors built from the signed generators by refsem.core.stabilizer_state (projector product), overlaps by
numpy.vdot.  States and generating sets are enumerated by refsem.tabref (BFS over H,P,CNOT keyed by the full signed element
list; all ordered generating sets; destabilizer completions by GF(2) solving) - nothing of this comes from graphiq.
"""
from __future__ import annotations

import itertools

import numpy as np

from vf.bounded import Suite
from refsem import core
from refsem import tabref as R

S = Suite("C05")
MET = "graphiq.backends.stabilizer.functions.metric"
STB = "graphiq.backends.stabilizer.functions.stabilizer"
TOL = 1e-9
FIXED_STREAM = [0, 5, 99]


def _g():
    import graphiq.backends.stabilizer.functions.metric as sfm
    from graphiq.backends.stabilizer.clifford_tableau import CliffordTableau
    from graphiq.backends.stabilizer.tableau import StabilizerTableau
    from graphiq.backends.stabilizer.functions.stabilizer import canonical_form

    return sfm, CliffordTableau, StabilizerTableau, canonical_form


def mk(tab, ph):
    CliffordTableau = _g()[1]
    return CliffordTableau(np.array(tab, dtype=int), np.array(ph, dtype=int))


_VEC = {}


def vec(tab, ph):
    """oracle state vector of the stabilizer half (memoised per worker process; inputs repeat a lot)"""
    key = (str(tab), str(ph))
    hit = _VEC.get(key)
    if hit is None:
        t = np.array(tab, dtype=int)
        n = t.shape[0] // 2
        v = core.stabilizer_state(t[n:, :n], t[n:, n:], np.array(ph, dtype=int)[n:])
        assert v is not None and R.valid_clifford(t, n), "harness: input is not a valid tableau"
        if len(_VEC) > 20000:
            _VEC.clear()
        hit = _VEC[key] = (v, n)
    return hit


def overlap2(va, vb):
    return float(abs(np.vdot(va, vb)) ** 2)


def still(T, v, n):
    """the argument object still is a valid tableau of the same state"""
    tab = np.asarray(T.table)
    return T.n_qubits == n and R.valid_clifford(tab, n) and R.rows_describe(v, n, tab[n:], np.asarray(T.phase)[n:]) is None


# ------------------------------------------------------------------------------------------------------------
def value_case(inp):
    ta, pa, tb, pb = inp
    sfm = _g()[0]
    va, n = vec(ta, pa)
    vb, _ = vec(tb, pb)
    want = overlap2(va, vb)
    A, B = mk(ta, pa), mk(tb, pb)
    f = sfm.fidelity(A, B)
    if not np.isreal(f) or abs(float(f) - want) > TOL:
        return f"fidelity={f!r}, |<a|b>|^2={want:.12g}"
    if not (still(A, va, n) and still(B, vb, n)):
        return "fidelity() changed the state described by one of its arguments"
    return None


for _nm, _bound, _ex in (
    ("fidelity.value.n1_all_tableaux", "all 24 x 24 ordered pairs of one-qubit Clifford tableaux (every generating set, every destabilizer and sign choice)", True),
    ("fidelity.value.n2_all_presentations", "all 360 x 360 ordered pairs of (state, ordered generating set) of the 60 two-qubit stabilizer states; destabilizer "
     "completion variant cycles over 4 choices with the pair index (thorough: 3 passes with shifted variants)", True),
    ("fidelity.value.n3_sampled", "seeded random ordered pairs of the 1080 three-qubit states x random ordered generating set (of 168) x random destabilizers", False),
    ("fidelity.value.n4_sampled", "seeded random pairs of random 4-qubit Clifford tableaux (random circuits + random change of presentation); "
     "half of the pairs are related by <= 3 gates so that non-zero overlaps occur", False),
    ("fidelity.value.n5_to_8_sampled", "FIXED sample (seed-independent, because it touches known finding inverse_circuit-n>=5) of pairs of random "
     "5-8 qubit Clifford tableaux, same construction: quick 150 pairs; thorough the same 150 + 450 more", False),
):
    S.item(_nm, site=f"{MET}:fidelity", bound=_bound, exhaustive=_ex,
           clause="the stabilizer fidelity equals |<a|b>|^2 for all pairs, in any generating sets and destabilizers")(value_case)


@S.item("fidelity.symmetric", site=f"{MET}:fidelity",
        bound="all 60 x 60 ordered pairs of two-qubit states in random presentations, all 6 x 6 one-qubit pairs, sampled n=3..4",
        clause="the fidelity is symmetric")
def symmetric_case(inp):
    ta, pa, tb, pb = inp
    sfm = _g()[0]
    A, B = mk(ta, pa), mk(tb, pb)
    f1 = sfm.fidelity(A, B)
    f2 = sfm.fidelity(B, A)  # same objects: a call must not disturb its arguments either
    if abs(f1 - f2) > 1e-12:
        return f"fidelity(A,B)={f1!r} but fidelity(B,A)={f2!r}"
    f3 = sfm.fidelity(A, B)
    if f3 != f1:
        return f"repeated call on the same objects gives {f3!r} instead of {f1!r}"
    return None


@S.item("fidelity.one_iff_same_state", site=f"{MET}:fidelity", exhaustive=False,
        bound="n<=2: every pair of presentations of the same state (6; 60 x 36) and every pair of states that differ only in "
              "generator signs (x all 36 presentation pairs); n=3: sampled",
        clause="the fidelity equals 1 exactly when the two states are the same (sign-only differences give < 1)")
def one_iff_case(inp):
    ta, pa, tb, pb = inp
    sfm = _g()[0]
    va, n = vec(ta, pa)
    vb, _ = vec(tb, pb)
    same = overlap2(va, vb) > 1 - 1e-9
    f = sfm.fidelity(mk(ta, pa), mk(tb, pb))
    if same and f != 1:
        return f"same state in two presentations but fidelity={f!r} (must be exactly 1)"
    if not same and abs(f - 1) < 1e-9:
        return f"different states (|<a|b>|^2={overlap2(va, vb):.6g}) but fidelity={f!r}"
    return None


@S.item("inner_product.magnitude", site=f"{MET}:inner_product",
        bound="all 60 x 60 two-qubit state pairs in random presentations, all one-qubit tableau pairs, sampled n=3..4",
        clause="inner_product is the overlap magnitude the fidelity is built from: |ip|^2 = |<a|b>|^2")
def ip_case(inp):
    ta, pa, tb, pb = inp
    sfm = _g()[0]
    va, n = vec(ta, pa)
    vb, _ = vec(tb, pb)
    ip = sfm.inner_product(mk(ta, pa), mk(tb, pb))
    if abs(abs(ip) ** 2 - overlap2(va, vb)) > TOL:
        return f"inner_product={ip!r}, |<a|b>|={np.sqrt(overlap2(va, vb)):.12g}"
    return None


# ------------------------------------------------------------------------------------------------------------
def _stab(gens):
    StabilizerTableau = _g()[2]
    x = np.array([g[0] for g in gens], dtype=int)
    z = np.array([g[1] for g in gens], dtype=int)
    r = np.array([g[2] for g in gens], dtype=int)
    return StabilizerTableau([x, z], r)


@S.item("canonical_form.same_for_every_generating_set", site=f"{STB}:canonical_form", exhaustive=True,
        bound="every stabilizer state with n<=3 (6, 60, 1080) x ALL its ordered generating sets (1, 6, 168)",
        clause="the canonical form depends only on the state (and still describes it)")
def canon_same_case(inp):
    gens0 = [(tuple(g[0]), tuple(g[1]), int(g[2])) for g in inp]
    n = len(gens0)
    sfm, CliffordTableau, StabilizerTableau, canonical_form = _g()
    els = R.group_elements(gens0)
    v = R.gens_state(gens0)
    ref = None
    for gs in R.generating_sets(els, n):
        c = canonical_form(_stab(gs))
        if not isinstance(c, StabilizerTableau):
            return f"canonical_form returned {type(c).__name__}"
        tab, ph = np.asarray(c.table), np.asarray(c.phase)
        if ref is None:
            # the first canonical form is checked against the state; the others must be identical to it
            if not R.valid_stabilizer_rows(tab, n) or not R.valid_phase(ph, n):
                return f"generating set {R.gens_json(gs)}: canonical form is not n independent commuting rows: {tab.tolist()}"
            bad = R.rows_describe(v, n, tab, ph)
            if bad is not None:
                return f"generating set {R.gens_json(gs)}: row {bad} of the canonical form {tab.tolist()} {ph.tolist()} does not stabilise the state"
            ref = (tab.copy(), ph.copy(), c, gs)
        else:
            if not (tab.shape == ref[0].shape and np.array_equal(tab, ref[0]) and np.array_equal(ph, ref[1])):
                return (f"two generating sets of one state have different canonical forms: {R.gens_json(ref[3])} -> "
                        f"{ref[0].tolist()} {ref[1].tolist()}  vs  {R.gens_json(gs)} -> {tab.tolist()} {ph.tolist()}")
            if not (c == ref[2]):
                return "StabilizerTableau.__eq__ is False for two identical canonical forms"
    return None


@S.item("canonical_form.different_states_differ", site=f"{STB}:canonical_form", exhaustive=False,
        bound="all ordered pairs of distinct states n<=2 (30, 3540) in random generating sets; n=3: every state against its 7 "
              "sign-only variants and against sampled other states",
        clause="canonical form / StabilizerTableau equality distinguish different states, including sign-only differences")
def canon_diff_case(inp):
    ga, gb = inp
    sfm, CliffordTableau, StabilizerTableau, canonical_form = _g()
    ka = R.group_elements([(tuple(g[0]), tuple(g[1]), int(g[2])) for g in ga])
    kb = R.group_elements([(tuple(g[0]), tuple(g[1]), int(g[2])) for g in gb])
    ca, cb = canonical_form(_stab(ga)), canonical_form(_stab(gb))
    eq = ca == cb
    arr = bool(np.array_equal(ca.table, cb.table) and np.array_equal(ca.phase, cb.phase))
    if bool(eq) != arr:
        return f"StabilizerTableau.__eq__={eq} but (table, phase) equal={arr}"
    if bool(eq) != (ka == kb):
        return (f"states are {'the same' if ka == kb else 'different'} but canonical forms compare {'equal' if eq else 'unequal'}: "
                f"{np.asarray(ca.table).tolist()} {np.asarray(ca.phase).tolist()} vs {np.asarray(cb.table).tolist()} {np.asarray(cb.phase).tolist()}")
    return None


@S.item("Stabilizer.__eq__.iff_same_state", site="graphiq.backends.stabilizer.state:Stabilizer.__eq__",
        bound="n<=2: all pairs of presentations of one state, all sign-only variant pairs, all 60 x 60 state pairs in random "
              "presentations and destabilizers; n=3..4 sampled",
        clause="state equality depends only on the state and distinguishes sign-only differences")
def stab_eq_case(inp):
    ta, pa, tb, pb = inp
    from graphiq.backends.stabilizer.state import Stabilizer

    va, n = vec(ta, pa)
    vb, _ = vec(tb, pb)
    same = overlap2(va, vb) > 1 - 1e-9
    A, B = Stabilizer(mk(ta, pa)), Stabilizer(mk(tb, pb))
    e1, e2 = A == B, B == A
    if bool(e1) != same or bool(e2) != same:
        return f"Stabilizer.__eq__ gives {e1}/{e2} for {'the same state' if same else 'different states'} (|<a|b>|^2={overlap2(va, vb):.6g})"
    if not (still(A.tableau, va, n) and still(B.tableau, vb, n)):
        return "__eq__ changed the state described by an operand"
    return None


@S.item("Infidelity.evaluate.stabilizer_target", site="graphiq.metrics:Infidelity.evaluate",
        bound="sampled pairs n<=3 (all 36 one-qubit state pairs, 60 x 60 two-qubit state pairs in random presentations, sampled n=3); "
              "target as Stabilizer or one-branch MixedStabilizer, state as Stabilizer or 1-3 branch MixedStabilizer with weights",
        clause="Infidelity on stabilizer targets = 1 - fidelity (mixture: weighted sum)")
def infidelity_case(inp):
    target, tmixed, smixed, branches = inp
    from graphiq.metrics import Infidelity
    from graphiq.state import QuantumState

    vt, n = vec(*target)
    want = 0.0
    for p, tab, ph in branches:
        vs, _ = vec(tab, ph)
        want += p * overlap2(vt, vs)
    tq = QuantumState([(1.0, mk(*target))], rep_type="s", mixed=True) if tmixed else QuantumState(mk(*target), rep_type="s")
    if smixed:
        sq = QuantumState([(float(p), mk(tab, ph)) for p, tab, ph in branches], rep_type="s", mixed=True)
    else:
        assert len(branches) == 1 and branches[0][0] == 1.0, "harness: a pure state has one branch of weight 1"
        sq = QuantumState(mk(branches[0][1], branches[0][2]), rep_type="s")
    got = Infidelity(tq).evaluate(sq, None)
    if abs(got - (1 - want)) > TOL:
        return f"Infidelity={got!r}, expected 1 - sum p_i |<t|s_i>|^2 = {1 - want:.12g}"
    return None


# ------------------------------------------------------------------------------------------------------------
# domains
# ------------------------------------------------------------------------------------------------------------
_PRES = {}


def _pres(gens, variant):
    """(table, phase) of a full Clifford tableau whose stabilizer half is `gens` (memoised: run() asks for the same ones often)"""
    key = (tuple((tuple(g[0]), tuple(g[1]), int(g[2])) for g in gens), int(variant))
    hit = _PRES.get(key)
    if hit is None:
        hit = _PRES[key] = R.complete_destabilizers(gens, variant)
    return hit[0], hit[1]


def _sign_variants(gens):
    n = len(gens)
    out = []
    for bits in itertools.product([0, 1], repeat=n):
        if any(bits):
            out.append([(g[0], g[1], g[2] ^ b) for g, b in zip(gens, bits)])
    return out


def _rand_tab(n, rng):
    t = R.RefTableau.random(n, rng)
    return t.table().tolist(), t.R.tolist()


def _near_pair(n, rng):
    a = R.RefTableau.random(n, rng)
    b = a.copy()
    for _ in range(int(rng.integers(0, 4))):
        if n >= 2 and rng.random() < 0.4:
            c, t = (int(x) for x in rng.choice(n, size=2, replace=False))
            b.gate(["CX", "CZ"][int(rng.integers(0, 2))], [c, t])
        else:
            b.gate(["H", "P", "X", "Z", "Y"][int(rng.integers(0, 5))], [int(rng.integers(0, n))])
    b.mix_presentation(rng)
    return [a.table().tolist(), a.R.tolist(), b.table().tolist(), b.R.tolist()]


def run(tier, seed):
    thorough = tier == "thorough"
    rng = np.random.default_rng([seed, 5])
    _g()  # import graphiq once in the parent so that the forked workers inherit it
    import graphiq.metrics  # noqa: F401
    st = {n: R.all_stabilizer_states(n) for n in (1, 2, 3)}
    assert [len(st[n]) for n in (1, 2, 3)] == [6, 60, 1080]
    gsets = {n: [R.generating_sets(els, n) for els in st[n]] for n in (1, 2)}
    assert all(len(g) == 6 for g in gsets[2])

    # ---- fidelity value
    t1 = []
    for T in core.all_clifford_tableaux(1):
        tab, ph = core.tableau_arrays(T)
        t1.append([tab.tolist(), ph.tolist()])
    S.map("fidelity.value.n1_all_tableaux", [a + b for a in t1 for b in t1])

    pres2 = [(i, gs) for i in range(60) for gs in gsets[2][i]]  # 360 (state, ordered generating set)
    cache = {}

    def P2(k, variant):
        key = (k, variant)
        if key not in cache:
            cache[key] = list(_pres(pres2[k][1], variant))
        return cache[key]

    passes = [0, 1, 2] if thorough else [seed % 4]
    pairs = []
    for sh in passes:
        for a in range(360):
            for b in range(360):
                pairs.append(P2(a, (a + 2 * b + sh) % 4) + P2(b, (3 * a + b + sh + 1) % 4))
    S.map("fidelity.value.n2_all_presentations", pairs, nontrivial=lambda x: any(x[1]) or any(x[3]))
    del pairs

    g3 = {}

    def gens3(i):
        if i not in g3:
            g3[i] = R.generating_sets(st[3][i], 3)
        return g3[i]

    def rand_pres3():
        i = int(rng.integers(0, 1080))
        gs = gens3(i)[int(rng.integers(0, 168))]
        return list(_pres(gs, int(rng.integers(0, 8))))

    S.map("fidelity.value.n3_sampled", [rand_pres3() + rand_pres3() for _ in range(20000 if thorough else 4000)])
    big = []
    for _ in range(3000 if thorough else 400):
        big.append(_near_pair(4, rng) if rng.random() < 0.5 else _rand_tab(4, rng) + _rand_tab(4, rng))
    S.map("fidelity.value.n4_sampled", big)
    # n >= 5 touches the known finding "inverse_circuit n>=5": FIXED stream (seed-independent; quick list = prefix of thorough list)
    rng_l = np.random.default_rng(FIXED_STREAM)
    large = []
    for _ in range(600 if thorough else 150):
        n = int(rng_l.integers(5, 9))
        large.append(_near_pair(n, rng_l) if rng_l.random() < 0.5 else _rand_tab(n, rng_l) + _rand_tab(n, rng_l))
    S.map("fidelity.value.n5_to_8_sampled", large)

    # ---- pairs of states in random presentations (n<=2 exhaustive over state pairs)
    def rp(n, i):
        gs = gsets[n][i][int(rng.integers(0, len(gsets[n][i])))]
        return list(_pres(gs, int(rng.integers(0, 4))))

    state_pairs = [rp(1, i) + rp(1, j) for i in range(6) for j in range(6)] + [rp(2, i) + rp(2, j) for i in range(60) for j in range(60)]
    more = [rand_pres3() + rand_pres3() for _ in range(1500 if thorough else 300)] + [
        _near_pair(int(rng.integers(3, 5)), rng) for _ in range(1500 if thorough else 300)]
    S.map("fidelity.symmetric", state_pairs + more)
    S.map("inner_product.magnitude", state_pairs + [a + b for a in t1 for b in t1] + more)

    # ---- one iff same: same-state presentation pairs + sign-only variants
    one = []
    for n in (1, 2):
        for i in range(len(st[n])):
            sets = gsets[n][i]
            for ga in sets:
                for gb in sets:
                    one.append(list(_pres(ga, int(rng.integers(0, 4)))) + list(_pres(gb, int(rng.integers(0, 4)))))
            for var in _sign_variants(sets[0]):
                vsets = R.generating_sets(R.group_elements(var), n)
                for ga in sets:
                    for gb in vsets:
                        one.append(list(_pres(ga, int(rng.integers(0, 4)))) + list(_pres(gb, int(rng.integers(0, 4)))))
    n3 = 1080 if thorough else 200
    for i in rng.choice(1080, size=n3, replace=False):
        sets = gens3(int(i))
        ga = sets[int(rng.integers(0, 168))]
        gb = sets[int(rng.integers(0, 168))]
        one.append(list(_pres(ga, int(rng.integers(0, 8)))) + list(_pres(gb, int(rng.integers(0, 8)))))
        for var in _sign_variants(sets[int(rng.integers(0, 168))]):
            gv = R.regenerate(var, rng)
            one.append(list(_pres(ga, int(rng.integers(0, 8)))) + list(_pres(gv, int(rng.integers(0, 8)))))
    S.map("fidelity.one_iff_same_state", one)
    if not thorough:
        S.items["fidelity.one_iff_same_state"].bound += " [n=3 part: 200 of the 1080 states in the quick tier]"
    S.map("Stabilizer.__eq__.iff_same_state", one + state_pairs + more)

    # ---- canonical form
    S.map("canonical_form.same_for_every_generating_set",
          [R.gens_json(R.generating_sets(els, n)[0]) for n in (1, 2, 3) for els in st[n]])
    diff = []
    for n in (1, 2):
        for i in range(len(st[n])):
            for j in range(len(st[n])):
                ga = gsets[n][i][int(rng.integers(0, len(gsets[n][i])))]
                gb = gsets[n][j][int(rng.integers(0, len(gsets[n][j])))]
                diff.append([R.gens_json(ga), R.gens_json(gb)])
            for var in _sign_variants(gsets[n][i][0]):
                for ga in gsets[n][i]:
                    diff.append([R.gens_json(ga), R.gens_json(R.regenerate(var, rng))])
    for i in range(1080):
        sets = gens3(i)
        ga = sets[int(rng.integers(0, 168))]
        for var in _sign_variants(sets[int(rng.integers(0, 168))]):
            diff.append([R.gens_json(ga), R.gens_json(R.regenerate(var, rng))])
        for _ in range(6 if thorough else 2):
            j = int(rng.integers(0, 1080))
            diff.append([R.gens_json(ga), R.gens_json(gens3(j)[int(rng.integers(0, 168))])])
        diff.append([R.gens_json(ga), R.gens_json(sets[int(rng.integers(0, 168))])])
    S.map("canonical_form.different_states_differ", diff, nontrivial=lambda x: x[0] != x[1])

    # ---- Infidelity:  [target, target as one-branch MixedStabilizer?, state as MixedStabilizer?, [[p, tab, ph], ...]]
    inf = []

    def state_arg(idx, first, src):
        k = idx % 4  # 0: pure Stabilizer, 1: one-branch mixture, 2/3: two / three weighted branches
        if k == 0:
            return 0, [[1.0] + first]
        if k == 1:
            return 1, [[1.0] + first]
        w = rng.dirichlet(np.ones(k))
        return 1, [[float(w[0])] + first] + [[float(w[j])] + src() for j in range(1, k)]

    idx = 0
    for i in range(6):
        for j in range(6):
            sm, br = state_arg(idx, rp(1, j), lambda: rp(1, int(rng.integers(0, 6))))
            inf.append([rp(1, i), (idx // 4) % 2, sm, br])
            idx += 1
    for i in range(60):
        for j in range(60):
            if thorough or (i * 60 + j + seed) % 3 == 0:
                sm, br = state_arg(idx, rp(2, j), lambda: rp(2, int(rng.integers(0, 60))))
                inf.append([rp(2, i), (idx // 4) % 2, sm, br])
                idx += 1
    for _ in range(1500 if thorough else 250):
        sm, br = state_arg(idx, rand_pres3(), rand_pres3)
        inf.append([rand_pres3(), (idx // 4) % 2, sm, br])
        idx += 1
    S.map("Infidelity.evaluate.stabilizer_target", inf)
    return S
