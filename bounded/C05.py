"""C05 - stabilizer state comparison and fidelity are exact.   Bounded stand-ins [B].

Contracts monitored on the REAL graphiq.backends.stabilizer.functions.metric.fidelity / inner_product,
functions.stabilizer.canonical_form, StabilizerTableau.__eq__, Stabilizer.__eq__ and metrics.Infidelity.evaluate:

  for stabilizer states a, b given by ANY generating set (and any destabilizers)
    fidelity(A,B) = |<a|b>|^2,  |inner_product(A,B)|^2 = |<a|b>|^2,  fidelity(A,B) = fidelity(B,A),
    fidelity(A,B) = 1  <=>  a = b,
    canonical_form depends only on the state and is different for different states (sign-only differences included),
    Stabilizer(A) == Stabilizer(B)  <=>  a = b,
    Infidelity(target).evaluate(state) = 1 - |<t|s>|^2   (mixture: 1 - sum_i p_i |<t|s_i>|^2).

Oracle: state vectors built from the signed generators by refsem.core.stabilizer_state (projector product), overlaps by
numpy.vdot.  States and generating sets are enumerated by refsem.tabref (BFS over H,P,CNOT keyed by the full signed element
list; all ordered generating sets; destabilizer completions by GF(2) solving) - nothing of this comes from graphiq.
"""
from __future__ import annotations

import itertools

import numpy as np

from vf.bounded import Suite
from refsem import core
from refsem import tabref as R

S = Suite("C05")
MET = "graphiq.backends.stabilizer.functions.metric"
STB = "graphiq.backends.stabilizer.functions.stabilizer"
TOL = 1e-9
FIXED_STREAM = [0, 5, 99]


def _g():
    import graphiq.backends.stabilizer.functions.metric as sfm
    from graphiq.backends.stabilizer.clifford_tableau import CliffordTableau
    from graphiq.backends.stabilizer.tableau import StabilizerTableau
    from graphiq.backends.stabilizer.functions.stabilizer import canonical_form

    return sfm, CliffordTableau, StabilizerTableau, canonical_form


def mk(tab, ph):
    CliffordTableau = _g()[1]
    return CliffordTableau(np.array(tab, dtype=int), np.array(ph, dtype=int))


_VEC = {}


def vec(tab, ph):
    """oracle state vector of the stabilizer half (memoised per worker process; inputs repeat a lot)"""
    key = (str(tab), str(ph))
    hit = _VEC.get(key)
    if hit is None:
        t = np.array(tab, dtype=int)
        n = t.shape[0] // 2
        v = core.stabilizer_state(t[n:, :n], t[n:, n:], np.array(ph, dtype=int)[n:])
        assert v is not None and R.valid_clifford(t, n), "harness: input is not a valid tableau"
        if len(_VEC) > 20000:
            _VEC.clear()
        hit = _VEC[key] = (v, n)
    return hit


def overlap2(va, vb):
    return float(abs(np.vdot(va, vb)) ** 2)


def still(T, v, n):
    """the argument object still is a valid tableau of the same state"""
    tab = np.asarray(T.table)
    return T.n_qubits == n and R.valid_clifford(tab, n) and R.rows_describe(v, n, tab[n:], np.asarray(T.phase)[n:]) is None


# ------------------------------------------------------------------------------------------------------------
def value_case(inp):
    ta, pa, tb, pb = inp
    sfm = _g()[0]
    va, n = vec(ta, pa)
    vb, _ = vec(tb, pb)
    want = overlap2(va, vb)
    A, B = mk(ta, pa), mk(tb, pb)
    f = sfm.fidelity(A, B)
    if not np.isreal(f) or abs(float(f) - want) > TOL:
        return f"fidelity={f!r}, |<a|b>|^2={want:.12g}"
    if not (still(A, va, n) and still(B, vb, n)):
        return "fidelity() changed the state described by one of its arguments"
    return None


for _nm, _bound, _ex in (
    ("fidelity.value.n1_all_tableaux", "all 24 x 24 ordered pairs of one-qubit Clifford tableaux (every generating set, every destabilizer and sign choice)", True),
    ("fidelity.value.n2_all_presentations", "all 360 x 360 ordered pairs of (state, ordered generating set) of the 60 two-qubit stabilizer states; destabilizer "
     "completion variant cycles over 4 choices with the pair index (thorough: 3 passes with shifted variants)", True),
    ("fidelity.value.n3_sampled", "seeded random ordered pairs of the 1080 three-qubit states x random ordered generating set (of 168) x random destabilizers", False),
    ("fidelity.value.n4_sampled", "seeded random pairs of random 4-qubit Clifford tableaux (random circuits + random change of presentation); "
     "half of the pairs are related by <= 3 gates so that non-zero overlaps occur", False),
    ("fidelity.value.n5_to_8_sampled", "FIXED sample (seed-independent, because it touches known finding inverse_circuit-n>=5) of pairs of random "
     "5-8 qubit Clifford tableaux, same construction: quick 150 pairs; thorough the same 150 + 450 more", False),
):
    S.item(_nm, site=f"{MET}:fidelity", bound=_bound, exhaustive=_ex,
           clause="the stabilizer fidelity equals |<a|b>|^2 for all pairs, in any generating sets and destabilizers")(value_case)


@S.item("fidelity.symmetric", site=f"{MET}:fidelity",
        bound="all 60 x 60 ordered pairs of two-qubit states in random presentations, all 6 x 6 one-qubit pairs, sampled n=3..4",
        clause="the fidelity is symmetric")
def symmetric_case(inp):
    ta, pa, tb, pb = inp
    sfm = _g()[0]
    A, B = mk(ta, pa), mk(tb, pb)
    f1 = sfm.fidelity(A, B)
    f2 = sfm.fidelity(B, A)  # same objects: a call must not disturb its arguments either
    if abs(f1 - f2) > 1e-12:
        return f"fidelity(A,B)={f1!r} but fidelity(B,A)={f2!r}"
    f3 = sfm.fidelity(A, B)
    if f3 != f1:
        return f"repeated call on the same objects gives {f3!r} instead of {f1!r}"
    return None


@S.item("fidelity.one_iff_same_state", site=f"{MET}:fidelity", exhaustive=False,
        bound="n<=2: every pair of presentations of the same state (6; 60 x 36) and every pair of states that differ only in "
              "generator signs (x all 36 presentation pairs); n=3: sampled",
        clause="the fidelity equals 1 exactly when the two states are the same (sign-only differences give < 1)")
def one_iff_case(inp):
    ta, pa, tb, pb = inp
    sfm = _g()[0]
    va, n = vec(ta, pa)
    vb, _ = vec(tb, pb)
    same = overlap2(va, vb) > 1 - 1e-9
    f = sfm.fidelity(mk(ta, pa), mk(tb, pb))
    if same and f != 1:
        return f"same state in two presentations but fidelity={f!r} (must be exactly 1)"
    if not same and abs(f - 1) < 1e-9:
        return f"different states (|<a|b>|^2={overlap2(va, vb):.6g}) but fidelity={f!r}"
    return None


@S.item("inner_product.magnitude", site=f"{MET}:inner_product",
        bound="all 60 x 60 two-qubit state pairs in random presentations, all one-qubit tableau pairs, sampled n=3..4",
        clause="inner_product is the overlap magnitude the fidelity is built from: |ip|^2 = |<a|b>|^2")
def ip_case(inp):
    ta, pa, tb, pb = inp
    sfm = _g()[0]
    va, n = vec(ta, pa)
    vb, _ = vec(tb, pb)
    ip = sfm.inner_product(mk(ta, pa), mk(tb, pb))
    if abs(abs(ip) ** 2 - overlap2(va, vb)) > TOL:
        return f"inner_product={ip!r}, |<a|b>|={np.sqrt(overlap2(va, vb)):.12g}"
    return None


# ------------------------------------------------------------------------------------------------------------
def _stab(gens):
    StabilizerTableau = _g()[2]
    x = np.array([g[0] for g in gens], dtype=int)
    z = np.array([g[1] for g in gens], dtype=int)
    r = np.array([g[2] for g in gens], dtype=int)
    return StabilizerTableau([x, z], r)


@S.item("canonical_form.same_for_every_generating_set", site=f"{STB}:canonical_form", exhaustive=True,
        bound="every stabilizer state with n<=3 (6, 60, 1080) x ALL its ordered generating sets (1, 6, 168)",
        clause="the canonical form depends only on the state (and still describes it)")
def canon_same_case(inp):
    gens0 = [(tuple(g[0]), tuple(g[1]), int(g[2])) for g in inp]
    n = len(gens0)
    sfm, CliffordTableau, StabilizerTableau, canonical_form = _g()
    els = R.group_elements(gens0)
    v = R.gens_state(gens0)
    ref = None
    for gs in R.generating_sets(els, n):
        c = canonical_form(_stab(gs))
        if not isinstance(c, StabilizerTableau):
            return f"canonical_form returned {type(c).__name__}"
        tab, ph = np.asarray(c.table), np.asarray(c.phase)
        if ref is None:
            # the first canonical form is checked against the state; the others must be identical to it
            if not R.valid_stabilizer_rows(tab, n) or not R.valid_phase(ph, n):
                return f"generating set {R.gens_json(gs)}: canonical form is not n independent commuting rows: {tab.tolist()}"
            bad = R.rows_describe(v, n, tab, ph)
            if bad is not None:
                return f"generating set {R.gens_json(gs)}: row {bad} of the canonical form {tab.tolist()} {ph.tolist()} does not stabilise the state"
            ref = (tab.copy(), ph.copy(), c, gs)
        else:
            if not (tab.shape == ref[0].shape and np.array_equal(tab, ref[0]) and np.array_equal(ph, ref[1])):
                return (f"two generating sets of one state have different canonical forms: {R.gens_json(ref[3])} -> "
                        f"{ref[0].tolist()} {ref[1].tolist()}  vs  {R.gens_json(gs)} -> {tab.tolist()} {ph.tolist()}")
            if not (c == ref[2]):
                return "StabilizerTableau.__eq__ is False for two identical canonical forms"
    return None


@S.item("canonical_form.different_states_differ", site=f"{STB}:canonical_form", exhaustive=False,
        bound="all ordered pairs of distinct states n<=2 (30, 3540) in random generating sets; n=3: every state against its 7 "
              "sign-only variants and against sampled other states",
        clause="canonical form / StabilizerTableau equality distinguish different states, including sign-only differences")
def canon_diff_case(inp):
    ga, gb = inp
    sfm, CliffordTableau, StabilizerTableau, canonical_form = _g()
    ka = R.group_elements([(tuple(g[0]), tuple(g[1]), int(g[2])) for g in ga])
    kb = R.group_elements([(tuple(g[0]), tuple(g[1]), int(g[2])) for g in gb])
    ca, cb = canonical_form(_stab(ga)), canonical_form(_stab(gb))
    eq = ca == cb
    arr = bool(np.array_equal(ca.table, cb.table) and np.array_equal(ca.phase, cb.phase))
    if bool(eq) != arr:
        return f"StabilizerTableau.__eq__={eq} but (table, phase) equal={arr}"
    if bool(eq) != (ka == kb):
        return (f"states are {'the same' if ka == kb else 'different'} but canonical forms compare {'equal' if eq else 'unequal'}: "
                f"{np.asarray(ca.table).tolist()} {np.asarray(ca.phase).tolist()} vs {np.asarray(cb.table).tolist()} {np.asarray(cb.phase).tolist()}")
    return None


@S.item("Stabilizer.__eq__.iff_same_state", site="graphiq.backends.stabilizer.state:Stabilizer.__eq__",
        bound="n<=2: all pairs of presentations of one state, all sign-only variant pairs, all 60 x 60 state pairs in random "
              "presentations and destabilizers; n=3..4 sampled",
        clause="state equality depends only on the state and distinguishes sign-only differences")
def stab_eq_case(inp):
    ta, pa, tb, pb = inp
    from graphiq.backends.stabilizer.state import Stabilizer

    va, n = vec(ta, pa)
    vb, _ = vec(tb, pb)
    same = overlap2(va, vb) > 1 - 1e-9
    A, B = Stabilizer(mk(ta, pa)), Stabilizer(mk(tb, pb))
    e1, e2 = A == B, B == A
    if bool(e1) != same or bool(e2) != same:
        return f"Stabilizer.__eq__ gives {e1}/{e2} for {'the same state' if same else 'different states'} (|<a|b>|^2={overlap2(va, vb):.6g})"
    if not (still(A.tableau, va, n) and still(B.tableau, vb, n)):
        return "__eq__ changed the state described by an operand"
    return None


@S.item("Infidelity.evaluate.stabilizer_target", site="graphiq.metrics:Infidelity.evaluate",
        bound="sampled pairs n<=3 (all 36 one-qubit state pairs, 60 x 60 two-qubit state pairs in random presentations, sampled n=3); "
              "target as Stabilizer or one-branch MixedStabilizer, state as Stabilizer or 1-3 branch MixedStabilizer with weights",
        clause="Infidelity on stabilizer targets = 1 - fidelity (mixture: weighted sum)")
def infidelity_case(inp):
    target, tmixed, smixed, branches = inp
    from graphiq.metrics import Infidelity
    from graphiq.state import QuantumState

    vt, n = vec(*target)
    want = 0.0
    for p, tab, ph in branches:
        vs, _ = vec(tab, ph)
        want += p * overlap2(vt, vs)
    tq = QuantumState([(1.0, mk(*target))], rep_type="s", mixed=True) if tmixed else QuantumState(mk(*target), rep_type="s")
    if smixed:
        sq = QuantumState([(float(p), mk(tab, ph)) for p, tab, ph in branches], rep_type="s", mixed=True)
    else:
        assert len(branches) == 1 and branches[0][0] == 1.0, "harness: a pure state has one branch of weight 1"
        sq = QuantumState(mk(branches[0][1], branches[0][2]), rep_type="s")
    got = Infidelity(tq).evaluate(sq, None)
    if abs(got - (1 - want)) > TOL:
        return f"Infidelity={got!r}, expected 1 - sum p_i |<t|s_i>|^2 = {1 - want:.12g}"
    return None


# ------------------------------------------------------------------------------------------------------------
# argument frames (H2), repeated use of the same objects (H1), construction variants (H5), larger n (H3)
# ------------------------------------------------------------------------------------------------------------
def _bits(T):
    return (np.array(T.table).copy(), np.array(T.phase).copy(), np.array(T.iphase).copy(), str(np.asarray(T.table).dtype), int(T.n_qubits))


def _changed(T, snap):
    now = _bits(T)
    for nm_, a, b in zip(("table", "phase", "iphase"), snap[:3], now[:3]):
        if a.shape != b.shape or not np.array_equal(a, b):
            return f"{nm_} {a.tolist()} -> {b.tolist()}"
    if snap[3:] != now[3:]:
        return f"dtype/n_qubits {snap[3:]} -> {now[3:]}"
    return None


def _qs(T, mixed=False):
    from graphiq.state import QuantumState

    return QuantumState([(1.0, T)], rep_type="s", mixed=True) if mixed else QuantumState(T, rep_type="s")


@S.item("arguments_unchanged", site=f"{MET}:fidelity, inner_product ; graphiq.backends.stabilizer.state:Stabilizer.__eq__ ; graphiq.metrics:Infidelity.evaluate",
        bound="all 24 x 24 one-qubit tableau pairs, a seeded sample of two-qubit presentation pairs, sampled n=3..4 (random and near pairs); calls "
              "fidelity(A,B), inner_product(A,B), fidelity(B,A), Stabilizer(A)==Stabilizer(B), Infidelity(A).evaluate(B), Infidelity(A).evaluate("
              "mixture of A and B) one after the other on the SAME two tableau objects",
        clause="fidelity / inner product / state equality / Infidelity return the exact value and leave the tableaux they are given bit-for-bit "
               "unchanged (table, phase, iphase), so that every later call on the same objects is exact as well")
def frame_case(inp):
    ta, pa, tb, pb = inp
    sfm = _g()[0]
    from graphiq.backends.stabilizer.state import Stabilizer
    from graphiq.metrics import Infidelity
    from graphiq.state import QuantumState

    va, n = vec(ta, pa)
    vb, _ = vec(tb, pb)
    want = overlap2(va, vb)
    same = want > 1 - 1e-9
    A, B = mk(ta, pa), mk(tb, pb)
    sa, sb = _bits(A), _bits(B)
    calls = [
        ("fidelity(A,B)", lambda: sfm.fidelity(A, B), want),
        ("|inner_product(A,B)|^2", lambda: abs(sfm.inner_product(A, B)) ** 2, want),
        ("fidelity(B,A)", lambda: sfm.fidelity(B, A), want),
        ("Stabilizer(A)==Stabilizer(B)", lambda: float(bool(Stabilizer(A) == Stabilizer(B))), float(same)),
        ("1-Infidelity(A).evaluate(B)", lambda: 1 - Infidelity(_qs(A)).evaluate(_qs(B), None), want),
        ("1-Infidelity(A as mixture).evaluate(0.25 A + 0.75 B)",
         lambda: 1 - Infidelity(_qs(A, True)).evaluate(QuantumState([(0.25, A), (0.75, B)], rep_type="s", mixed=True), None), 0.25 + 0.75 * want),
        ("fidelity(A,B) again", lambda: sfm.fidelity(A, B), want),
    ]
    for name, call, expect in calls:
        got = call()
        if abs(float(got) - expect) > TOL:
            return f"{name} = {got!r}, expected {expect:.12g} (after the earlier calls on the same objects)"
        for lab, T, s in (("first", A, sa), ("second", B, sb)):
            d = _changed(T, s)
            if d:
                return f"{name} changed its {lab} tableau argument: {d}"
    return None


@S.item("same_object_on_both_sides", site=f"{MET}:fidelity, inner_product ; graphiq.backends.stabilizer.state:Stabilizer.__eq__ ; graphiq.metrics:Infidelity.evaluate",
        bound="all 24 one-qubit tableaux, all 360 two-qubit (state, generating set) presentations, sampled n=3..4: the SAME tableau / Stabilizer / QuantumState "
              "object is passed as both arguments",
        clause="the fidelity equals 1 exactly when the two states are the same; state equality depends only on the state (a state compared with itself)")
def alias_case(inp):
    ta, pa = inp
    sfm = _g()[0]
    from graphiq.backends.stabilizer.state import Stabilizer
    from graphiq.metrics import Infidelity

    A = mk(ta, pa)
    s = _bits(A)
    f = sfm.fidelity(A, A)
    if f != 1:
        return f"fidelity(A, A) = {f!r} for the same object on both sides"
    if sfm.inner_product(A, A) != 1:
        return f"inner_product(A, A) = {sfm.inner_product(A, A)!r}"
    SA = Stabilizer(A)
    if not (SA == SA) or not (Stabilizer(A) == SA):
        return "Stabilizer.__eq__ is False for a state compared with itself (same tableau object)"
    q = _qs(A)
    inf = Infidelity(q).evaluate(q, None)
    if abs(inf) > TOL:
        return f"Infidelity(q).evaluate(q) = {inf!r} for the same QuantumState object"
    d = _changed(A, s)
    if d:
        return f"a call with the same object on both sides changed it: {d}"
    f = sfm.fidelity(A, mk(ta, pa))
    if f != 1:
        return f"fidelity(A, fresh copy of A) = {f!r} after A was used on both sides"
    return None


@S.item("object_reuse.one_against_many", site=f"{MET}:fidelity ; graphiq.metrics:Infidelity.evaluate",
        bound="seeded sample n=1..4: ONE tableau object A and ONE Infidelity(A) metric object against 4-6 tableau objects B_i (other presentations of the "
              "same state, sign variants, states <= 3 gates away, random states), two passes over the list in opposite order; then the Stabilizer "
              "object holding A is edited in place by one gate (H, P or X) and fidelity / equality against every B_i are asked again",
        clause="the fidelity equals |<a|b>|^2 for all pairs - whatever the same objects were compared with before")
def reuse_case(inp):
    (ta, pa), others = inp
    sfm = _g()[0]
    from graphiq.metrics import Infidelity

    va, n = vec(ta, pa)
    A = mk(ta, pa)
    s = _bits(A)
    Bs = [(mk(tb, pb), vec(tb, pb)[0]) for tb, pb in others]
    metric = Infidelity(_qs(A))
    qB = [_qs(B) for B, _ in Bs]
    for order in (range(len(Bs)), reversed(range(len(Bs)))):
        for i in order:
            B, vb = Bs[i]
            want = overlap2(va, vb)
            for name, got in (("fidelity(A,B_i)", sfm.fidelity(A, B)), ("fidelity(B_i,A)", sfm.fidelity(B, A)),
                              ("1-metric.evaluate(B_i)", 1 - metric.evaluate(qB[i], None))):
                if abs(float(got) - want) > TOL:
                    return f"{name} with i={i} = {got!r}, |<a|b>|^2 = {want:.12g} (objects re-used across the list)"
    d = _changed(A, s)
    if d:
        return f"the re-used tableau object changed: {d}"
    # query - edit - query: the Stabilizer object holding A is edited in place by a gate (that is what the gate methods do); fidelity
    # and equality are functions of the state the objects hold NOW
    from graphiq.backends.stabilizer.state import Stabilizer

    SA = Stabilizer(A)
    SB = [Stabilizer(B) for B, _ in Bs]
    for i, (B, vb) in enumerate(Bs):
        if bool(SA == SB[i]) != (overlap2(va, vb) > 1 - 1e-9):
            return f"Stabilizer.__eq__ wrong against B_{i} (objects re-used)"
    gq = len(others) % n
    gname = ["H", "P", "X"][len(others) % 3]
    getattr(SA, {"H": "apply_hadamard", "P": "apply_phase", "X": "apply_sigmax"}[gname])(gq)
    va2 = core.apply1(va, n, gq, core.GATES1[gname])
    tab2 = np.asarray(SA.tableau.table)
    if not (R.valid_clifford(tab2, n) and R.rows_describe(va2, n, tab2[n:], np.asarray(SA.tableau.phase)[n:]) is None):
        return None  # the gate method itself is wrong: subject of C01/C07, not of this property
    for i, (B, vb) in enumerate(Bs):
        want = overlap2(va2, vb)
        got = sfm.fidelity(SA.tableau, B)
        if abs(float(got) - want) > TOL:
            return f"after {gname} on qubit {gq} of the Stabilizer holding A: fidelity(A', B_{i}) = {got!r}, |<a'|b>|^2 = {want:.12g} (value from before the edit?)"
        e1, e2 = SA == SB[i], SB[i] == SA
        if bool(e1) != (want > 1 - 1e-9) or bool(e2) != (want > 1 - 1e-9):
            return f"after {gname} on qubit {gq} of the Stabilizer holding A: __eq__ with B_{i} gives {e1}/{e2}, |<a'|b>|^2 = {want:.12g}"
    return None


VARIANTS = ["int arrays", "float64 arrays", "bool table / int8 phase", "copy constructor CliffordTableau(T)", "CliffordTableau(n) + destabilizer/stabilizer/phase setters",
            "labels: destabilizer_from_labels / stabilizer_from_labels + phase setter", ".copy() of a tableau that was used in fidelity() before",
            "QuantumState(T).copy().rep_data.data"]


def build_variant(tab, ph, k):
    sfm, CliffordTableau, StabilizerTableau, canonical_form = _g()
    t = np.array(tab, dtype=int)
    p = np.array(ph, dtype=int)
    n = t.shape[0] // 2
    if k == 0:
        return CliffordTableau(t, p)
    if k == 1:
        return CliffordTableau(t.astype(float), p.astype(float))
    if k == 2:
        return CliffordTableau(t.astype(bool), p.astype(np.int8))
    if k == 3:
        return CliffordTableau(CliffordTableau(t, p))
    if k == 4:
        T = CliffordTableau(n)
        T.destabilizer = t[:n].copy()
        T.stabilizer = t[n:].copy()
        T.phase = p.copy()
        return T
    if k == 5:
        lab = lambda rows: ["".join("IXZY"[int(r[j]) + 2 * int(r[n + j])] for j in range(n)) for r in rows]  # noqa: E731
        T = CliffordTableau(n)
        T.destabilizer_from_labels(lab(t[:n]))
        T.stabilizer_from_labels(lab(t[n:]))
        T.phase = p.copy()
        return T
    if k == 6:
        T = CliffordTableau(t, p)
        sfm.fidelity(T, CliffordTableau(n))
        sfm.fidelity(CliffordTableau(n), T)
        return T.copy()
    if k == 7:
        return _qs(CliffordTableau(t, p)).copy().rep_data.data
    raise ValueError(k)


@S.item("construction_variants", site=f"{MET}:fidelity ; graphiq.backends.stabilizer.state:Stabilizer.__eq__ ; graphiq.metrics:Infidelity.evaluate",
        bound="seeded sample of pairs n=1..4 (all 36 one-qubit state pairs, sampled two-qubit presentation pairs, sampled n=3..4 incl. near pairs and "
              "sign variants) x 8 ways of building each tableau object (" + "; ".join(VARIANTS) + "), every ordered pair of ways at least once per size; "
              "second argument additionally as StabilizerTableau([x, z], r) of the stabilizer half (n<=4; the larger sizes of that conversion belong to C11)",
        clause="for all pairs of stabilizer states, presented by any generating sets and any destabilizers, however the tableau objects were built")
def variant_case(inp):
    ta, pa, tb, pb, ka, kb = inp
    sfm, CliffordTableau, StabilizerTableau, canonical_form = _g()
    from graphiq.backends.stabilizer.state import Stabilizer
    from graphiq.metrics import Infidelity

    va, n = vec(ta, pa)
    vb, _ = vec(tb, pb)
    want = overlap2(va, vb)
    same = want > 1 - 1e-9
    A, B = build_variant(ta, pa, ka), build_variant(tb, pb, kb)
    for T, tab, ph, k in ((A, ta, pa, ka), (B, tb, pb, kb)):
        if not (np.array_equal(np.asarray(T.table), np.array(tab)) and np.array_equal(np.asarray(T.phase), np.array(ph))):
            return f"constructor: tableau built as '{VARIANTS[k]}' holds {np.asarray(T.table).tolist()} {np.asarray(T.phase).tolist()} instead of the rows given"
    where = f"[A: {VARIANTS[ka]}; B: {VARIANTS[kb]}] "
    f1, f2 = sfm.fidelity(A, B), sfm.fidelity(B, A)
    if abs(float(f1) - want) > TOL or abs(float(f2) - want) > TOL:
        return where + f"fidelity(A,B)={f1!r}, fidelity(B,A)={f2!r}, |<a|b>|^2={want:.12g}"
    e = Stabilizer(A) == Stabilizer(B)
    if bool(e) != same:
        return where + f"Stabilizer.__eq__ = {e} for {'the same state' if same else 'different states'}"
    for tm in (False, True):
        got = Infidelity(_qs(A, tm)).evaluate(_qs(B, not tm), None)
        if abs(got - (1 - want)) > TOL:
            return where + f"Infidelity(target as {'mixture' if tm else 'Stabilizer'}).evaluate = {got!r}, expected {1 - want:.12g}"
    t = np.array(tb, dtype=int)
    Bst = StabilizerTableau([t[n:, :n].copy(), t[n:, n:].copy()], np.array(pb, dtype=int)[n:].copy())
    f3 = sfm.fidelity(A, Bst)
    if abs(float(f3) - want) > TOL:
        return where + f"fidelity(A, StabilizerTableau of B)={f3!r}, |<a|b>|^2={want:.12g}"
    return None


@S.item("canonical_form_and_equality.n4_to_7_sampled", site=f"{STB}:canonical_form ; graphiq.backends.stabilizer.state:Stabilizer.__eq__",
        bound="seeded random pairs of 4..7-qubit Clifford tableaux: another presentation of the same state, the same state with 1..n stabilizer signs "
              "flipped (then re-presented), a state <= 3 gates away, an independent random state (canonical_form / __eq__ do not use inverse_circuit, "
              "so known finding C05-F1 is out of reach)",
        clause="state equality and the canonical form depend only on the state, and they distinguish states that differ only in the sign of a generator")
def canon_large_case(inp):
    ta, pa, tb, pb = inp
    sfm, CliffordTableau, StabilizerTableau, canonical_form = _g()
    from graphiq.backends.stabilizer.state import Stabilizer

    va, n = vec(ta, pa)
    vb, _ = vec(tb, pb)
    same = overlap2(va, vb) > 1 - 1e-9
    A, B = mk(ta, pa), mk(tb, pb)
    sa, sb = _bits(A), _bits(B)
    ca, cb = canonical_form(A.to_stabilizer()), canonical_form(B.to_stabilizer())
    for c, v, lab in ((ca, va, "first"), (cb, vb, "second")):
        tab, ph = np.asarray(c.table), np.asarray(c.phase)
        if not R.valid_stabilizer_rows(tab, n) or not R.valid_phase(ph, n):
            return f"canonical form of the {lab} state is not n independent commuting rows: {tab.tolist()}"
        bad = R.rows_describe(v, n, tab, ph)
        if bad is not None:
            return f"row {bad} of the canonical form of the {lab} state does not stabilise it: {tab.tolist()} {ph.tolist()}"
    eq = bool(ca == cb)
    if eq != same:
        return (f"states are {'the same' if same else 'different'} but the canonical forms compare {'equal' if eq else 'unequal'}: "
                f"{np.asarray(ca.table).tolist()} {np.asarray(ca.phase).tolist()} vs {np.asarray(cb.table).tolist()} {np.asarray(cb.phase).tolist()}")
    e1, e2 = Stabilizer(A) == Stabilizer(B), Stabilizer(B) == Stabilizer(A)
    if bool(e1) != same or bool(e2) != same:
        return f"Stabilizer.__eq__ gives {e1}/{e2} for {'the same state' if same else 'different states'}"
    for lab, T, s in (("first", A, sa), ("second", B, sb)):
        d = _changed(T, s)
        if d:
            return f"to_stabilizer + canonical_form / __eq__ changed the {lab} CliffordTableau: {d}"
    return None


# ------------------------------------------------------------------------------------------------------------
# domains
# ------------------------------------------------------------------------------------------------------------
_PRES = {}


def _pres(gens, variant):
    """(table, phase) of a full Clifford tableau whose stabilizer half is `gens` (memoised: run() asks for the same ones often)"""
    key = (tuple((tuple(g[0]), tuple(g[1]), int(g[2])) for g in gens), int(variant))
    hit = _PRES.get(key)
    if hit is None:
        hit = _PRES[key] = R.complete_destabilizers(gens, variant)
    return hit[0], hit[1]


def _sign_variants(gens):
    n = len(gens)
    out = []
    for bits in itertools.product([0, 1], repeat=n):
        if any(bits):
            out.append([(g[0], g[1], g[2] ^ b) for g, b in zip(gens, bits)])
    return out


def _rand_tab(n, rng):
    t = R.RefTableau.random(n, rng)
    return t.table().tolist(), t.R.tolist()


def _near_pair(n, rng):
    a = R.RefTableau.random(n, rng)
    b = a.copy()
    for _ in range(int(rng.integers(0, 4))):
        if n >= 2 and rng.random() < 0.4:
            c, t = (int(x) for x in rng.choice(n, size=2, replace=False))
            b.gate(["CX", "CZ"][int(rng.integers(0, 2))], [c, t])
        else:
            b.gate(["H", "P", "X", "Z", "Y"][int(rng.integers(0, 5))], [int(rng.integers(0, n))])
    b.mix_presentation(rng)
    return [a.table().tolist(), a.R.tolist(), b.table().tolist(), b.R.tolist()]


def run(tier, seed):
    thorough = tier == "thorough"
    rng = np.random.default_rng([seed, 5])
    _g()  # import graphiq once in the parent so that the forked workers inherit it
    import graphiq.metrics  # noqa: F401
    st = {n: R.all_stabilizer_states(n) for n in (1, 2, 3)}
    assert [len(st[n]) for n in (1, 2, 3)] == [6, 60, 1080]
    gsets = {n: [R.generating_sets(els, n) for els in st[n]] for n in (1, 2)}
    assert all(len(g) == 6 for g in gsets[2])

    # ---- fidelity value
    t1 = []
    for T in core.all_clifford_tableaux(1):
        tab, ph = core.tableau_arrays(T)
        t1.append([tab.tolist(), ph.tolist()])
    S.map("fidelity.value.n1_all_tableaux", [a + b for a in t1 for b in t1])

    pres2 = [(i, gs) for i in range(60) for gs in gsets[2][i]]  # 360 (state, ordered generating set)
    cache = {}

    def P2(k, variant):
        key = (k, variant)
        if key not in cache:
            cache[key] = list(_pres(pres2[k][1], variant))
        return cache[key]

    passes = [0, 1, 2] if thorough else [seed % 4]
    pairs = []
    for sh in passes:
        for a in range(360):
            for b in range(360):
                pairs.append(P2(a, (a + 2 * b + sh) % 4) + P2(b, (3 * a + b + sh + 1) % 4))
    S.map("fidelity.value.n2_all_presentations", pairs, nontrivial=lambda x: any(x[1]) or any(x[3]))
    del pairs

    g3 = {}

    def gens3(i):
        if i not in g3:
            g3[i] = R.generating_sets(st[3][i], 3)
        return g3[i]

    def rand_pres3():
        i = int(rng.integers(0, 1080))
        gs = gens3(i)[int(rng.integers(0, 168))]
        return list(_pres(gs, int(rng.integers(0, 8))))

    S.map("fidelity.value.n3_sampled", [rand_pres3() + rand_pres3() for _ in range(20000 if thorough else 4000)])
    big = []
    for _ in range(3000 if thorough else 400):
        big.append(_near_pair(4, rng) if rng.random() < 0.5 else _rand_tab(4, rng) + _rand_tab(4, rng))
    S.map("fidelity.value.n4_sampled", big)
    # n >= 5 touches the known finding "inverse_circuit n>=5": FIXED stream (seed-independent; quick list = prefix of thorough list)
    rng_l = np.random.default_rng(FIXED_STREAM)
    large = []
    for _ in range(600 if thorough else 150):
        n = int(rng_l.integers(5, 9))
        large.append(_near_pair(n, rng_l) if rng_l.random() < 0.5 else _rand_tab(n, rng_l) + _rand_tab(n, rng_l))
    S.map("fidelity.value.n5_to_8_sampled", large)

    # ---- pairs of states in random presentations (n<=2 exhaustive over state pairs)
    def rp(n, i):
        gs = gsets[n][i][int(rng.integers(0, len(gsets[n][i])))]
        return list(_pres(gs, int(rng.integers(0, 4))))

    state_pairs = [rp(1, i) + rp(1, j) for i in range(6) for j in range(6)] + [rp(2, i) + rp(2, j) for i in range(60) for j in range(60)]
    more = [rand_pres3() + rand_pres3() for _ in range(1500 if thorough else 300)] + [
        _near_pair(int(rng.integers(3, 5)), rng) for _ in range(1500 if thorough else 300)]
    S.map("fidelity.symmetric", state_pairs + more)
    S.map("inner_product.magnitude", state_pairs + [a + b for a in t1 for b in t1] + more)

    # ---- one iff same: same-state presentation pairs + sign-only variants
    one = []
    for n in (1, 2):
        for i in range(len(st[n])):
            sets = gsets[n][i]
            for ga in sets:
                for gb in sets:
                    one.append(list(_pres(ga, int(rng.integers(0, 4)))) + list(_pres(gb, int(rng.integers(0, 4)))))
            for var in _sign_variants(sets[0]):
                vsets = R.generating_sets(R.group_elements(var), n)
                for ga in sets:
                    for gb in vsets:
                        one.append(list(_pres(ga, int(rng.integers(0, 4)))) + list(_pres(gb, int(rng.integers(0, 4)))))
    n3 = 1080 if thorough else 200
    for i in rng.choice(1080, size=n3, replace=False):
        sets = gens3(int(i))
        ga = sets[int(rng.integers(0, 168))]
        gb = sets[int(rng.integers(0, 168))]
        one.append(list(_pres(ga, int(rng.integers(0, 8)))) + list(_pres(gb, int(rng.integers(0, 8)))))
        for var in _sign_variants(sets[int(rng.integers(0, 168))]):
            gv = R.regenerate(var, rng)
            one.append(list(_pres(ga, int(rng.integers(0, 8)))) + list(_pres(gv, int(rng.integers(0, 8)))))
    S.map("fidelity.one_iff_same_state", one)
    if not thorough:
        S.items["fidelity.one_iff_same_state"].bound += " [n=3 part: 200 of the 1080 states in the quick tier]"
    S.map("Stabilizer.__eq__.iff_same_state", one + state_pairs + more)

    # ---- canonical form
    S.map("canonical_form.same_for_every_generating_set",
          [R.gens_json(R.generating_sets(els, n)[0]) for n in (1, 2, 3) for els in st[n]])
    diff = []
    for n in (1, 2):
        for i in range(len(st[n])):
            for j in range(len(st[n])):
                ga = gsets[n][i][int(rng.integers(0, len(gsets[n][i])))]
                gb = gsets[n][j][int(rng.integers(0, len(gsets[n][j])))]
                diff.append([R.gens_json(ga), R.gens_json(gb)])
            for var in _sign_variants(gsets[n][i][0]):
                for ga in gsets[n][i]:
                    diff.append([R.gens_json(ga), R.gens_json(R.regenerate(var, rng))])
    for i in range(1080):
        sets = gens3(i)
        ga = sets[int(rng.integers(0, 168))]
        for var in _sign_variants(sets[int(rng.integers(0, 168))]):
            diff.append([R.gens_json(ga), R.gens_json(R.regenerate(var, rng))])
        for _ in range(6 if thorough else 2):
            j = int(rng.integers(0, 1080))
            diff.append([R.gens_json(ga), R.gens_json(gens3(j)[int(rng.integers(0, 168))])])
        diff.append([R.gens_json(ga), R.gens_json(sets[int(rng.integers(0, 168))])])
    S.map("canonical_form.different_states_differ", diff, nontrivial=lambda x: x[0] != x[1])

    # ---- Infidelity:  [target, target as one-branch MixedStabilizer?, state as MixedStabilizer?, [[p, tab, ph], ...]]
    inf = []

    def state_arg(idx, first, src):
        k = idx % 4  # 0: pure Stabilizer, 1: one-branch mixture, 2/3: two / three weighted branches
        if k == 0:
            return 0, [[1.0] + first]
        if k == 1:
            return 1, [[1.0] + first]
        w = rng.dirichlet(np.ones(k))
        return 1, [[float(w[0])] + first] + [[float(w[j])] + src() for j in range(1, k)]

    idx = 0
    for i in range(6):
        for j in range(6):
            sm, br = state_arg(idx, rp(1, j), lambda: rp(1, int(rng.integers(0, 6))))
            inf.append([rp(1, i), (idx // 4) % 2, sm, br])
            idx += 1
    for i in range(60):
        for j in range(60):
            if thorough or (i * 60 + j + seed) % 3 == 0:
                sm, br = state_arg(idx, rp(2, j), lambda: rp(2, int(rng.integers(0, 60))))
                inf.append([rp(2, i), (idx // 4) % 2, sm, br])
                idx += 1
    for _ in range(1500 if thorough else 250):
        sm, br = state_arg(idx, rand_pres3(), rand_pres3)
        inf.append([rand_pres3(), (idx // 4) % 2, sm, br])
        idx += 1
    S.map("Infidelity.evaluate.stabilizer_target", inf)

    # ---- argument frames / repeated use / construction variants / larger n
    def sign_variant_pair(n):
        a = R.RefTableau.random(n, rng)
        b = a.copy()
        flips = rng.choice(n, size=int(rng.integers(1, n + 1)), replace=False)
        for i in flips:
            b.R[n + int(i)] ^= 1
        b.mix_presentation(rng)
        return [a.table().tolist(), a.R.tolist(), b.table().tolist(), b.R.tolist()]

    def same_state_pair(n):
        a = R.RefTableau.random(n, rng)
        b = a.copy().mix_presentation(rng)
        return [a.table().tolist(), a.R.tolist(), b.table().tolist(), b.R.tolist()]

    def mixed_pairs(n, count):
        out = []
        for i in range(count):
            k = i % 4
            out.append(list(same_state_pair(n) if k == 0 else sign_variant_pair(n) if k == 1 else _near_pair(n, rng) if k == 2 else _rand_tab(n, rng) + _rand_tab(n, rng)))
        return out

    def sample2(count):
        idx = rng.integers(0, 360, size=(count, 2))
        return [P2(int(a), int(rng.integers(0, 4))) + P2(int(b), int(rng.integers(0, 4))) for a, b in idx]

    q = 1 if not thorough else 4
    fr = [a + b for a in t1 for b in t1] + sample2(600 * q) + [rand_pres3() + rand_pres3() for _ in range(150 * q)] + mixed_pairs(3, 150 * q) + mixed_pairs(4, 200 * q)
    S.map("arguments_unchanged", fr)
    al = [list(a) for a in t1] + [P2(k, k % 4) for k in range(360)]
    for n in (3, 4):  # n >= 5 would touch known finding C05-F1 (inverse_circuit) with seed-dependent inputs
        al += [list(_rand_tab(n, rng)) for _ in range(80 * q)]
    S.map("same_object_on_both_sides", al)
    ru = []
    for i in range(250 * q):
        n = 1 + i % 4
        first = mixed_pairs(n, 1)[0]
        a = R.RefTableau.from_arrays(first[0], first[1])
        others = []
        for j in range(int(rng.integers(4, 7))):
            k = j % 4
            if k == 0:
                b = a.copy().mix_presentation(rng)
            elif k == 1:
                b = a.copy()
                b.R[n + int(rng.integers(0, n))] ^= 1
                b.mix_presentation(rng)
            elif k == 2:
                b = a.copy()
                for _ in range(int(rng.integers(1, 4))):
                    b.gate(["H", "P", "X", "Z", "Y"][int(rng.integers(0, 5))], [int(rng.integers(0, n))])
                b.mix_presentation(rng)
            else:
                b = R.RefTableau.random(n, rng)
            others.append([b.table().tolist(), b.R.tolist()])
        ru.append([[first[0], first[1]], others])
    S.map("object_reuse.one_against_many", ru)
    va = []
    nv = len(VARIANTS)
    base_pairs = {1: [rp(1, i) + rp(1, j) for i in range(6) for j in range(6)], 2: sample2(64 * q), 3: mixed_pairs(3, 64 * q), 4: mixed_pairs(4, 64 * q)}
    for n, prs in base_pairs.items():
        for i, pr in enumerate(prs):
            va.append(list(pr) + [i % nv, (i // nv + i) % nv])
    S.map("construction_variants", va, nontrivial=lambda x: x[4] != 0 or x[5] != 0)
    lg = []
    for n in (4, 5, 6, 7):
        lg += mixed_pairs(n, (60 if n < 7 else 24) * q)
    S.map("canonical_form_and_equality.n4_to_7_sampled", lg)
    return S
