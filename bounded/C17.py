"""C17 bounded stand-ins [B]: density-matrix fidelity, trace distance, partial trace, metric dispatch.

Contracts (from the property statement) sit on the REAL functions
    graphiq.backends.density_matrix.functions: fidelity, trace_distance, partial_trace (+ is_pure / sqrtm_psd inside)
    graphiq.backends.density_matrix.state.DensityMatrix.partial_trace, graphiq.state.QuantumState.partial_trace
    graphiq.metrics: Infidelity.evaluate, TraceDistance.evaluate
Oracles: refsem.dmref (Uhlmann fidelity through three independent routes, SVD trace distance), refsem.core.partial_trace_dm,
refsem.f_stab (all stabilizer states with complete Clifford tableaux).

Hardening items (STRENGTHEN_BRIEF H1/H2/H5): functions.arguments_unchanged_repeatable (the caller's arrays themselves, in
complex / real / Fortran / strided forms, twice), partial_trace.complex_states_and_chains, metrics.repeated_use_and_frames (one
metric object, several states, twice; target / state data unchanged), Infidelity.mixed_stabilizer_state.  They stay on the
classes the known findings C17-F1/F2 cannot reach (graph states across representations, same representation otherwise).

Tolerances.  Values are compared with 1e-9 whenever both arguments are full rank or one of them is pure.  For two mixed
states of which at least one is rank deficient, *every* route that takes the square root of a numerically-zero eigenvalue
(graphiq's and scipy's alike) is only accurate to ~sqrt(machine eps) ~ 2e-8 (measured: 2.4e-8 on 1 680 random pairs);
there the well-conditioned oracle ||A^dagger B||_1^2 is compared with 1e-6.  This is the [N] floating-point part of
DESIGN.md 5/C17 and is not a weakening of the stated property (the mathematical value is the same).
States whose purity lies in (1-1e-5, 1) (treated as pure by dmf.is_pure's allclose) are outside the driven domain.
"""
from __future__ import annotations

import itertools

import numpy as np

from refsem import core, dmref, f_stab
from vf.bounded import Suite

S = Suite("C17")

TOL = 1e-9
TOL_DEF = 1e-6  # rank-deficient mixed pairs, see module docstring


def _dmf():
    import graphiq.backends.density_matrix.functions as dmf

    return dmf


def _rank_deficient(A, n):
    return A.shape[1] < 2**n


def _pair(inp):
    a = dmref.build(inp[0])
    b = dmref.build(inp[1])
    return a, b


def _tol(a, b):
    (ra, Aa, n), (rb, Ab, _) = a, b
    pa, pb = abs(dmref.purity(ra) - 1) < 1e-12, abs(dmref.purity(rb) - 1) < 1e-12
    if pa or pb:
        return TOL
    if _rank_deficient(Aa, n) or _rank_deficient(Ab, n):
        return TOL_DEF
    return TOL


# ------------------------------------------------------------------ fidelity
@S.item("fidelity.symmetric_range", site="graphiq.backends.density_matrix.functions:fidelity",
        bound="all unordered pairs of the n=2 structured family (60 stabilizer states, 11 diagonal mixtures, depolarised "
              "stabilizer states p in {1/4,1/2,3/4}, unitarily rotated (complex) mixtures) + seeded random pairs n<=3 "
              "(real and complex, every rank)",
        clause="the fidelity is symmetric, lies in [0,1]")
def fidelity_symmetric_range(inp):
    dmf = _dmf()
    a, b = _pair(inp)
    f1 = dmf.fidelity(a[0].copy(), b[0].copy())
    f2 = dmf.fidelity(b[0].copy(), a[0].copy())
    for f in (f1, f2):
        if not (np.isfinite(f) and np.isreal(f)):
            return f"fidelity not a finite real: {f!r}"
        if f < 0 or f > 1:
            return f"fidelity {f!r} outside [0,1]"
    if abs(f1 - f2) > _tol(a, b):
        return f"F(a,b)={f1!r} != F(b,a)={f2!r}"
    return None


@S.item("fidelity.equal_states", site="graphiq.backends.density_matrix.functions:fidelity",
        bound="every state of the structured family and the random family (n<=3), against an equal copy",
        clause="the fidelity equals 1 exactly for equal states")
def fidelity_equal(inp):
    dmf = _dmf()
    rho, A, n = dmref.build(inp)
    f = dmf.fidelity(rho.copy(), rho.copy())
    if abs(f - 1) > TOL:
        return f"F(rho,rho)={f!r}, expected 1"
    if f > 1:
        return f"F(rho,rho)={f!r} > 1"
    return None


@S.item("fidelity.pure_overlap", site="graphiq.backends.density_matrix.functions:fidelity",
        bound="pairs with at least one pure state (stabilizer / random pure, real and complex) x any state of the families, "
              "both argument orders",
        clause="the fidelity reduces to the overlap when either state is pure")
def fidelity_pure(inp):
    dmf = _dmf()
    a, b = _pair(inp)
    # a is pure by construction: a[1] is a single column
    v = a[1][:, 0]
    want = float(np.real(np.vdot(v, b[0] @ v)))
    f1 = dmf.fidelity(a[0].copy(), b[0].copy())
    f2 = dmf.fidelity(b[0].copy(), a[0].copy())
    if abs(f1 - want) > TOL:
        return f"F(pure,sigma)={f1!r}, overlap <psi|sigma|psi>={want!r}"
    if abs(f2 - want) > TOL:
        return f"F(sigma,pure)={f2!r}, overlap <psi|sigma|psi>={want!r}"
    return None


@S.item("fidelity.uhlmann_mixed", site="graphiq.backends.density_matrix.functions:fidelity",
        bound="pairs of mixed states (purity < 0.99): diagonal (commuting) mixtures, depolarised stabilizer states, "
              "rotated complex mixtures, random states of every rank n<=3; oracle ||A^dagger B||_1^2 cross-checked "
              "with scipy sqrtm and with eigenvalues of rho.sigma",
        clause="the fidelity equals the Uhlmann fidelity when both states are mixed")
def fidelity_uhlmann(inp):
    dmf = _dmf()
    a, b = _pair(inp)
    want = dmref.uhlmann_factors(a[1], b[1])
    # oracle self-consistency (checker error, not a verdict, if the oracles disagree)
    o2 = dmref.uhlmann_eigs(a[0], b[0])
    assert abs(want - o2) < 5e-7, f"oracle disagreement {want} vs {o2}"
    f = dmf.fidelity(a[0].copy(), b[0].copy())
    tol = _tol(a, b)
    if abs(f - want) > tol:
        return f"fidelity={f!r}, Uhlmann value={want!r} (tol {tol})"
    return None


# ------------------------------------------------------------------ trace distance
@S.item("trace_distance.value_axioms", site="graphiq.backends.density_matrix.functions:trace_distance",
        bound="all unordered pairs of the structured family + random pairs n<=3",
        clause="the trace distance is a metric bounded by 1 (value, symmetry, zero iff equal, range)")
def td_axioms(inp):
    dmf = _dmf()
    a, b = _pair(inp)
    t1 = float(dmf.trace_distance(a[0].copy(), b[0].copy()))
    t2 = float(dmf.trace_distance(b[0].copy(), a[0].copy()))
    want = dmref.trace_distance(a[0], b[0])
    if not np.isfinite(t1):
        return f"trace distance not finite: {t1!r}"
    if abs(t1 - want) > TOL:
        return f"T(a,b)={t1!r}, half trace norm={want!r}"
    if abs(t1 - t2) > TOL:
        return f"T(a,b)={t1!r} != T(b,a)={t2!r}"
    if t1 < -TOL or t1 > 1 + TOL:
        return f"T={t1!r} outside [0,1]"
    t0 = float(dmf.trace_distance(a[0].copy(), a[0].copy()))
    if abs(t0) > TOL:
        return f"T(a,a)={t0!r}, expected 0"
    if want > 1e-6 and t1 <= 0:
        return f"distinct states (half trace norm {want!r}) got T={t1!r}"
    return None


@S.item("trace_distance.triangle", site="graphiq.backends.density_matrix.functions:trace_distance",
        bound="seeded triples from the structured and random families (n<=3)",
        clause="the trace distance is a metric (triangle inequality)")
def td_triangle(inp):
    dmf = _dmf()
    a = dmref.build(inp[0])[0]
    b = dmref.build(inp[1])[0]
    c = dmref.build(inp[2])[0]
    ab = float(dmf.trace_distance(a, b))
    bc = float(dmf.trace_distance(b, c))
    ac = float(dmf.trace_distance(a, c))
    if ac > ab + bc + TOL:
        return f"T(a,c)={ac!r} > T(a,b)+T(b,c)={ab + bc!r}"
    return None


@S.item("fuchs_van_de_graaf", site="graphiq.backends.density_matrix.functions:fidelity,trace_distance",
        bound="all unordered pairs of the structured family + random pairs n<=3",
        clause="the trace distance satisfies the Fuchs-van de Graaf bounds with the fidelity")
def fvdg(inp):
    dmf = _dmf()
    a, b = _pair(inp)
    f = float(dmf.fidelity(a[0].copy(), b[0].copy()))
    t = float(dmf.trace_distance(a[0].copy(), b[0].copy()))
    tol = max(1e-7, 10 * _tol(a, b)) if _tol(a, b) > TOL else 1e-7
    lo = 1 - np.sqrt(max(f, 0.0))
    hi = np.sqrt(max(1 - f, 0.0))
    if t < lo - tol:
        return f"T={t!r} < 1-sqrt(F)={lo!r} (F={f!r})"
    if t > hi + tol:
        return f"T={t!r} > sqrt(1-F)={hi!r} (F={f!r})"
    return None


# ------------------------------------------------------------------ partial trace
@S.item("partial_trace.subsets", site="graphiq.backends.density_matrix.functions:partial_trace",
        bound="every non-empty subset of kept qubits, n<=4, on seeded random mixed/pure, real/complex states and on "
              "entangled stabilizer states; via dmf.partial_trace, DensityMatrix.partial_trace and QuantumState.partial_trace",
        exhaustive=False,
        clause="the partial trace equals the textbook reduced state for every subset of kept qubits")
def ptrace(inp):
    dmf = _dmf()
    spec, keep, route = inp
    rho, A, n = dmref.build(spec)
    want = core.partial_trace_dm(rho, n, keep)
    before = rho.copy()
    if route == "dmf":
        got = dmf.partial_trace(rho, list(keep), n * [2])
        if not np.array_equal(rho, before):
            return "partial_trace changed its input matrix"
    elif route == "DensityMatrix":
        from graphiq.backends.density_matrix.state import DensityMatrix

        d = DensityMatrix(rho.copy())
        d.partial_trace(list(keep), n * [2])
        got = d.data
    else:
        from graphiq.state import QuantumState

        q = QuantumState(rho.copy(), rep_type="dm")
        q.partial_trace(list(keep), n * [2])
        got = q.rep_data.data
    got = np.asarray(got)
    if got.shape != want.shape:
        return f"shape {got.shape}, expected {want.shape}"
    if not np.allclose(got, want, atol=1e-12, rtol=0):
        return f"reduced state differs from textbook partial trace (max dev {np.max(np.abs(got - want)):.3e})"
    return None


# ------------------------------------------------------------------ metrics across representations
def _qstate(n, k, rep):
    """QuantumState holding the k-th n-qubit stabilizer state as density matrix (refsem vector) or as stabilizer
    (complete Clifford tableau produced by refsem's own BFS) - no graphiq conversion is involved in building it."""
    from graphiq.backends.stabilizer.clifford_tableau import CliffordTableau
    from graphiq.state import QuantumState

    v, rows, full = _full(n)[k]
    if rep == "dm":
        return QuantumState(core.dm(v), rep_type="dm"), v
    t, p = f_stab.full_rows_to_table(full)
    return QuantumState(CliffordTableau(t, p), rep_type="s"), v


_FULL = {}


def _full(n):
    if n not in _FULL:
        _FULL[n] = f_stab.all_stabilizer_states(n, full=True)
    return _FULL[n]


def _graph_qstate(adj, rep):
    from graphiq.backends.stabilizer.clifford_tableau import CliffordTableau
    from graphiq.state import QuantumState

    v = core.graph_state(adj)
    if rep == "dm":
        return QuantumState(core.dm(v), rep_type="dm"), v
    t, p = f_stab.graph_clifford_table(adj)
    return QuantumState(CliffordTableau(t, p), rep_type="s"), v


def _infid_check(tq, sq, tv, sv, label):
    from graphiq.metrics import Infidelity

    want = 1 - abs(np.vdot(tv, sv)) ** 2
    t_type, s_type = tq.rep_type, sq.rep_type
    val = Infidelity(tq).evaluate(sq, None)
    if abs(val - want) > TOL:
        return f"{label}: Infidelity={val!r}, 1-|<t|s>|^2={want!r}"
    if tq.rep_type != t_type or sq.rep_type != s_type:
        return f"{label}: evaluate changed a representation held by its arguments"
    return None


@S.item("Infidelity.same_representation", site="graphiq.metrics:Infidelity.evaluate",
        bound="all ordered pairs of stabilizer states n=1 (36) and n=2 (3600), sampled n=3; target and state both dm / both s",
        clause="the infidelity metric returns the same value whether held as density matrices or as stabilizers")
def infid_same(inp):
    n, kt, ks = inp
    _full(n)
    vals = []
    for rep in ("dm", "s"):
        tq, tv = _qstate(n, kt, rep)
        sq, sv = _qstate(n, ks, rep)
        r = _infid_check(tq, sq, tv, sv, f"target {rep}, state {rep}")
        if r:
            return r
    return None


@S.item("Infidelity.cross_representation.graph_states", site="graphiq.metrics:Infidelity.evaluate",
        bound="all ordered pairs of graph states n<=3 (quick; n<=4 thorough: 4165 pairs) x (target,state) in {dm,s}^2",
        clause="the infidelity metric returns the same value whether target and state are held as density matrices or as stabilizers")
def infid_cross_graph(inp):
    at, as_ = inp
    for rt in ("dm", "s"):
        for rs in ("dm", "s"):
            tq, tv = _graph_qstate(at, rt)
            sq, sv = _graph_qstate(as_, rs)
            r = _infid_check(tq, sq, tv, sv, f"target {rt}, state {rs}")
            if r:
                return r
    return None


def infid_cross_sdm(inp):
    n, kt, ks = inp
    _full(n)
    tq, tv = _qstate(n, kt, "dm")
    sq, sv = _qstate(n, ks, "s")
    return _infid_check(tq, sq, tv, sv, "target dm, state s")


S.item("Infidelity.cross_representation.state_s_target_dm.plus_signs", site="graphiq.metrics:Infidelity.evaluate",
       bound="stabilizer states n<=2: every target (held as dm) x every state whose tableau (as produced by refsem's BFS) has "
             "only + signs on its stabilizer generators (held as s)",
       exhaustive=True,
       clause="the infidelity metric returns the same value ... for all stabilizer states in both representations")(infid_cross_sdm)
S.item("Infidelity.cross_representation.state_s_target_dm.with_minus_signs", site="graphiq.metrics:Infidelity.evaluate",
       bound="fixed sample, seed-independent (touches known finding C17-F1 = C08-F2, _stabilizer_to_density_pure ignores signs): "
             "n=1: every target (dm) x every state whose tableau carries a - sign (s); n=2: the first six such states against themselves",
       clause="the infidelity metric returns the same value ... for all stabilizer states in both representations")(infid_cross_sdm)


def infid_cross_dms(inp):
    n, kt, ks = inp
    _full(n)
    tq, tv = _qstate(n, kt, "s")
    sq, sv = _qstate(n, ks, "dm")
    return _infid_check(tq, sq, tv, sv, "target s, state dm")


S.item("Infidelity.cross_representation.state_dm_target_s.graph_states", site="graphiq.metrics:Infidelity.evaluate",
       bound="stabilizer states n<=2: every target (held as s, any signs) x every state that is a graph state |G> (held as dm)",
       exhaustive=True,
       clause="the infidelity metric returns the same value ... for all stabilizer states in both representations")(infid_cross_dms)
S.item("Infidelity.cross_representation.state_dm_target_s.other_stabilizer_states", site="graphiq.metrics:Infidelity.evaluate",
       bound="fixed sample, seed-independent (touches known finding C17-F2, density_to_stabilizer on non-graph states): n=1: every "
             "target (s) x the first four stabilizer states that are not graph states (dm)",
       clause="the infidelity metric returns the same value ... for all stabilizer states in both representations")(infid_cross_dms)


@S.item("TraceDistance.evaluate", site="graphiq.metrics:TraceDistance.evaluate",
        bound="all ordered pairs of graph states n<=3; target dm, state held as dm and as s",
        clause="(metric dispatch) trace distance of the state held in either representation")
def td_metric(inp):
    from graphiq.metrics import TraceDistance

    at, as_ = inp
    for rs in ("dm", "s"):
        tq, tv = _graph_qstate(at, "dm")
        sq, sv = _graph_qstate(as_, rs)
        want = np.sqrt(max(0.0, 1 - abs(np.vdot(tv, sv)) ** 2))
        val = float(np.real(TraceDistance(tq).evaluate(sq, None)))
        if abs(val - want) > 1e-7:
            return f"state {rs}: TraceDistance={val!r}, sqrt(1-|<t|s>|^2)={want!r}"
        if sq.rep_type != rs:
            return f"state {rs}: evaluate changed the representation held by the state"
    return None


# ------------------------------------------------------------------ hardening: frames (H2), repeated use (H1), input forms (H5)
def _as_form(rho, form):
    """the same matrix handed over in another dtype / memory layout (only value-preserving forms)"""
    if form == "complex":
        return np.array(rho, dtype=complex)
    if form == "real":  # only used for real states
        return np.array(np.real(rho), dtype=float)
    if form == "fortran":
        return np.asfortranarray(np.array(rho, dtype=complex))
    if form == "view":  # non-contiguous view into a larger buffer
        d = rho.shape[0]
        big = np.zeros((2 * d, 2 * d), dtype=complex)
        big[::2, ::2] = rho
        return big[::2, ::2]
    raise ValueError(form)


def _bytes(a):
    return (np.asarray(a).dtype.str, np.asarray(a).shape, np.ascontiguousarray(a).tobytes())


@S.item("functions.arguments_unchanged_repeatable", site="graphiq.backends.density_matrix.functions:fidelity,trace_distance,partial_trace",
        bound="pairs of the structured n=2 family (sampled) and seeded random pairs n<=3 (real / complex, every rank) x matrix "
              "forms {complex128, float64 (real states), Fortran order, strided view}: fidelity, trace_distance, partial_trace called "
              "on the caller's arrays themselves, each twice, with another pair evaluated in between",
        clause="fidelity / trace distance / partial trace are functions of their arguments: the arrays handed in (matrices, keep, "
               "dims) are bit-for-bit unchanged, the value does not depend on dtype / memory layout or on earlier calls")
def frames_dm(inp):
    dmf = _dmf()
    sa, sb, form, other = inp
    a, b = dmref.build(sa), dmref.build(sb)
    o = dmref.build(other)
    n = a[2]
    is_real = bool(np.allclose(np.imag(a[0]), 0, atol=0) and np.allclose(np.imag(b[0]), 0, atol=0))
    if form == "real" and not is_real:
        form = "complex"
    rho, sig = _as_form(a[0], form), _as_form(b[0], form)
    r0, s0 = _bytes(rho), _bytes(sig)
    tol = _tol(a, b)
    pa = abs(dmref.purity(a[0]) - 1) < 1e-12 or abs(dmref.purity(b[0]) - 1) < 1e-12
    want_f = float(np.real(np.trace(a[0] @ b[0]))) if pa else dmref.uhlmann_factors(a[1], b[1])
    want_t = dmref.trace_distance(a[0], b[0])
    f1 = float(dmf.fidelity(rho, sig))
    if (_bytes(rho), _bytes(sig)) != (r0, s0):
        return f"fidelity changed an argument (form {form})"
    t1 = float(dmf.trace_distance(rho, sig))
    if (_bytes(rho), _bytes(sig)) != (r0, s0):
        return f"trace_distance changed an argument (form {form})"
    if abs(f1 - want_f) > tol:
        return f"fidelity on {form} arrays = {f1!r}, expected {want_f!r}"
    if abs(t1 - want_t) > TOL:
        return f"trace_distance on {form} arrays = {t1!r}, expected {want_t!r}"
    # another pair in between, then the same arrays again
    dmf.fidelity(o[0].copy(), o[0].copy())
    dmf.trace_distance(o[0].copy(), rho) if o[2] == n else None
    f2 = float(dmf.fidelity(rho, sig))
    t2 = float(dmf.trace_distance(rho, sig))
    f3 = float(dmf.fidelity(sig, rho))
    if abs(f2 - f1) > 1e-12 or abs(t2 - t1) > 1e-12:
        return f"second call on the same arrays: fidelity {f1!r} -> {f2!r}, trace distance {t1!r} -> {t2!r}"
    if abs(f3 - want_f) > tol:
        return f"fidelity with swapped arguments after repeated use = {f3!r}, expected {want_f!r}"
    if (_bytes(rho), _bytes(sig)) != (r0, s0):
        return f"repeated calls changed an argument (form {form})"
    # partial trace of the caller's array: every proper subset, keep as list and as ndarray, twice
    for r in range(1, n):
        for keep in itertools.combinations(range(n), r):
            want = core.partial_trace_dm(a[0], n, list(keep))
            for kp, dims in ((list(keep), n * [2]), (np.array(keep), np.array(n * [2]))):
                k0, d0 = _bytes(kp), _bytes(dims)
                for rep in (1, 2):
                    got = np.asarray(dmf.partial_trace(rho, kp, dims))
                    if got.shape != want.shape or not np.allclose(got, want, atol=1e-12, rtol=0):
                        return f"partial_trace keep={list(keep)} ({type(kp).__name__}, form {form}, call {rep}) differs from the textbook reduced state"
                if _bytes(rho) != r0:
                    return f"partial_trace changed its input matrix (form {form})"
                if (_bytes(kp), _bytes(dims)) != (k0, d0) or (isinstance(kp, list) and (kp != list(keep) or dims != n * [2])):
                    return "partial_trace changed keep / dims"
    return None


@S.item("partial_trace.complex_states_and_chains", site="graphiq.backends.density_matrix.functions:partial_trace",
        bound="n = 2..4: complex full-rank, complex low-rank (rotated) and complex pure states (fixed construction, seeded "
              "parameters) x every proper non-empty subset; plus tracing in two steps (first drop one qubit, then the rest) through "
              "dmf.partial_trace, DensityMatrix.partial_trace and QuantumState.partial_trace on the SAME object",
        clause="the partial trace equals the textbook reduced state for every subset (reduced states with complex off-diagonal "
               "elements; repeated partial traces on one object)")
def ptrace_complex(inp):
    dmf = _dmf()
    spec, keep = inp
    rho, A, n = dmref.build(spec)
    want = core.partial_trace_dm(rho, n, keep)
    got = np.asarray(dmf.partial_trace(rho.copy(), list(keep), n * [2]))
    if got.shape != want.shape or not np.allclose(got, want, atol=1e-12, rtol=0):
        return f"reduced state differs from textbook partial trace (max dev {np.max(np.abs(got - want)):.3e})"
    if len(keep) >= 1 and n - len(keep) >= 2:
        # two steps: drop the highest traced qubit first, then the others (positions shift down)
        drop = [q for q in range(n) if q not in keep]
        first = [q for q in range(n) if q != drop[-1]]
        second = [first.index(q) for q in keep]
        from graphiq.backends.density_matrix.state import DensityMatrix
        from graphiq.state import QuantumState

        step = np.asarray(dmf.partial_trace(np.asarray(dmf.partial_trace(rho.copy(), first, n * [2])), second, (n - 1) * [2]))
        if not np.allclose(step, want, atol=1e-12, rtol=0):
            return "two successive partial traces (functions) differ from the direct one"
        d = DensityMatrix(rho.copy())
        d.partial_trace(first, n * [2])
        d.partial_trace(second, (n - 1) * [2])
        if not np.allclose(np.asarray(d.data), want, atol=1e-12, rtol=0):
            return "two successive DensityMatrix.partial_trace calls on one object differ from the direct reduced state"
        q = QuantumState(rho.copy(), rep_type="dm")
        q.partial_trace(first, n * [2])
        q.partial_trace(second, (n - 1) * [2])
        if not np.allclose(np.asarray(q.rep_data.data), want, atol=1e-12, rtol=0):
            return "two successive QuantumState.partial_trace calls on one object differ from the direct reduced state"
    return None


def _qdata(q):
    """bit-level snapshot of what a QuantumState holds"""
    r = q.rep_data
    if q.rep_type == "dm":
        return ("dm",) + _bytes(r.data)
    if q.rep_type == "s":
        tabs = [t for _, t in r.mixture] if hasattr(r, "mixture") else [r.data]
        pr = [float(p) for p, _ in r.mixture] if hasattr(r, "mixture") else []
        return ("s", pr) + tuple((_bytes(t.table), _bytes(t.phase), t.n_qubits) for t in tabs)
    return (q.rep_type,)


@S.item("metrics.repeated_use_and_frames", site="graphiq.metrics:Infidelity.evaluate,TraceDistance.evaluate",
        bound="ONE Infidelity and ONE TraceDistance object per target evaluating a sequence of 4 states twice over: graph states n<=3 "
              "(seeded sample) in all (target, state) representation combinations {dm,s}^2 (TraceDistance: target dm), and stabilizer "
              "states n<=2 with target and state in the same representation (any signs)",
        clause="the metric value is a function of (target, state): same value on every repetition and in every order, equal to "
               "1-|<t|s>|^2 (resp. sqrt of it); target and state are left bit-for-bit as they were (representation and data)")
def metric_repeat(inp):
    from graphiq.metrics import Infidelity, TraceDistance

    kind = inp[0]
    if kind == "graph":
        _, at, states, rt, reps = inp
        tq, tv = _graph_qstate(np.array(at), rt)
        sts = [_graph_qstate(np.array(a_), r_) for a_, r_ in zip(states, reps)]
    else:
        _, n, kt, ks, rep = inp
        tq, tv = _qstate(n, kt, rep)
        sts = [_qstate(n, k, rep) for k in ks]
    t0 = _qdata(tq)
    s0 = [_qdata(sq) for sq, _ in sts]
    inf = Infidelity(tq)
    td = TraceDistance(tq) if tq.rep_type == "dm" else None
    for rnd in (1, 2):
        for i, (sq, sv) in enumerate(sts):
            want = 1 - abs(np.vdot(tv, sv)) ** 2
            val = float(np.real(inf.evaluate(sq, None)))
            if abs(val - want) > TOL:
                return f"round {rnd}, state {i} ({sq.rep_type}), target {tq.rep_type}: Infidelity={val!r}, 1-|<t|s>|^2={want!r}"
            if td is not None:
                val = float(np.real(td.evaluate(sq, None)))
                if abs(val - np.sqrt(max(0.0, want))) > 1e-7:
                    return f"round {rnd}, state {i} ({sq.rep_type}): TraceDistance={val!r}, expected {np.sqrt(max(0.0, want))!r}"
            if _qdata(tq) != t0:
                return f"round {rnd}, state {i}: evaluate changed the target it holds (representation or data)"
            if _qdata(sq) != s0[i]:
                return f"round {rnd}, state {i}: evaluate changed the state it was given (representation or data)"
    return None


@S.item("Infidelity.mixed_stabilizer_state", site="graphiq.metrics:Infidelity.evaluate",
        bound="stabilizer states n<=2 (seeded sample): pure target held as s (any signs) x state = mixture of 2-3 stabilizer states "
              "held as MixedStabilizer (mixed=True) with weights summing to 1; and the same target / mixture held as density matrices",
        clause="the infidelity metric returns the same value whether target and state are held as density matrices or as stabilizers "
               "(state a mixture: sum_i p_i |<t|psi_i>|^2)")
def infid_mixed(inp):
    from graphiq.backends.stabilizer.clifford_tableau import CliffordTableau
    from graphiq.metrics import Infidelity
    from graphiq.state import QuantumState

    n, kt, ks, ws = inp
    fulls = _full(n)
    tq, tv = _qstate(n, kt, "s")
    mix = []
    rho = 0
    want = 0.0
    for k, w in zip(ks, ws):
        v, rows, full = fulls[k]
        t, p = f_stab.full_rows_to_table(full)
        mix.append((w, CliffordTableau(t, p)))
        rho = rho + w * core.dm(v)
        want += w * abs(np.vdot(tv, v)) ** 2
    sq = QuantumState(mix, rep_type="s", mixed=True)
    t0, s0 = _qdata(tq), _qdata(sq)
    for rnd in (1, 2):
        val = float(np.real(Infidelity(tq).evaluate(sq, None)))
        if abs(val - (1 - want)) > TOL:
            return f"target s, state MixedStabilizer (call {rnd}): Infidelity={val!r}, expected {1 - want!r}"
    if _qdata(tq) != t0 or _qdata(sq) != s0:
        return "evaluate changed the target or the mixture it was given"
    tqd, _ = _qstate(n, kt, "dm")
    sqd = QuantumState(np.array(rho), rep_type="dm")
    val = float(np.real(Infidelity(tqd).evaluate(sqd, None)))
    if abs(val - (1 - want)) > TOL:
        return f"target dm, state dm (same mixture): Infidelity={val!r}, expected {1 - want!r}"
    return None


# ------------------------------------------------------------------ domains
def _structured(n=2):
    fam = []
    ns = len(_full(n))
    fam += [["stab", n, k] for k in range(ns)]
    d = 2**n
    for r in range(2, d + 1):
        for idx in itertools.combinations(range(d), r):
            fam.append(["diag", n, list(idx)])
    for k in range(0, ns, 5):
        for p in (0.25, 0.5, 0.75):
            fam.append(["dep", ["stab", n, k], p])
    for s, idx in enumerate(itertools.combinations(range(d), 2)):
        fam.append(["rot", ["diag", n, list(idx)], 100 + s])
    for s, idx in enumerate(itertools.combinations(range(d), 3)):
        fam.append(["rot", ["diag", n, list(idx)], 200 + s])
    if n == 2:
        fam.append(["mix", [[0.6, ["stab", n, 7]], [0.4, ["stab", n, 23]]]])
        fam.append(["mix", [[0.2, ["stab", n, 11]], [0.5, ["stab", n, 40]], [0.3, ["stab", n, 55]]]])
    return fam


def _rand_spec(rng, n, rank):
    """a random state spec that is either exactly pure (rank 1) or clearly mixed (purity < 0.99): the band in between is
    where dmf.is_pure's allclose tolerance decides, which is outside the driven domain (module docstring)"""
    while True:
        spec = ["rand", n, rank, int(rng.integers(0, 2)), int(rng.integers(1 << 30))]
        if rank == 1 or dmref.purity(dmref.build(spec)[0]) < 0.99:
            return spec


def _random_specs(rng, count, nmax=3):
    out = []
    for _ in range(count):
        n = int(rng.integers(1, nmax + 1))
        rank = int(rng.integers(1, 2**n + 1))
        out.append(_rand_spec(rng, n, rank))
    return out


def _random_pairs(rng, count, nmax=3, mixed_only=False, one_pure=False):
    out = []
    for _ in range(count):
        n = int(rng.integers(1, nmax + 1))
        d = 2**n
        lo = 2 if mixed_only else 1
        ra = 1 if one_pure else int(rng.integers(lo, d + 1))
        rb = int(rng.integers(lo, d + 1))
        out.append([_rand_spec(rng, n, ra), _rand_spec(rng, n, rb)])
    return out


def _is_mixed(spec):
    rho = dmref.build(spec)[0]
    return dmref.purity(rho) < 0.99


def _is_pure(spec):
    return dmref.build(spec)[1].shape[1] == 1


def run(tier, seed):
    rng = np.random.default_rng(seed)
    thorough = tier == "thorough"
    # import the library once in the parent so that forked workers inherit it
    import graphiq.metrics  # noqa: F401
    import graphiq.state  # noqa: F401
    _dmf()
    fam = _structured(2)
    pairs = [[a, b] for i, a in enumerate(fam) for b in fam[i:]]
    nrand = 6000 if thorough else 3000
    rpairs = _random_pairs(rng, nrand)

    S.map("fidelity.symmetric_range", pairs + rpairs, nontrivial=lambda p: p[0] != p[1])
    S.map("fidelity.equal_states", fam + _structured(1) + _random_specs(rng, 600 if thorough else 200))

    pure = [s for s in fam if _is_pure(s)]
    ppairs = [[a, b] for a in pure for b in fam]
    ppairs += _random_pairs(rng, nrand, one_pure=True)
    S.map("fidelity.pure_overlap", ppairs, nontrivial=lambda p: p[0] != p[1])

    mixed = [s for s in fam if _is_mixed(s)]
    mpairs = [[a, b] for i, a in enumerate(mixed) for b in mixed[i:]]
    mpairs += [[b, a] for a, b in mpairs[:: 7]]
    mpairs += _random_pairs(rng, nrand, mixed_only=True)
    if thorough:
        fam3 = [["dep", ["stab", 3, k], p] for k in range(0, 1080, 45) for p in (0.25, 0.5)] + \
               [["rot", ["diag", 3, list(idx)], 300 + s] for s, idx in enumerate(itertools.combinations(range(8), 3)) if s % 4 == 0]
        mpairs += [[a, b] for i, a in enumerate(fam3) for b in fam3[i:]]
    S.map("fidelity.uhlmann_mixed", mpairs, nontrivial=lambda p: p[0] != p[1])

    S.map("trace_distance.value_axioms", pairs + rpairs, nontrivial=lambda p: p[0] != p[1])
    S.map("fuchs_van_de_graaf", pairs + rpairs, nontrivial=lambda p: p[0] != p[1])

    triples = []
    ntr = 4000 if thorough else 1200
    for _ in range(ntr):
        i, j, k = (int(x) for x in rng.integers(0, len(fam), size=3))
        triples.append([fam[i], fam[j], fam[k]])
    for _ in range(ntr):
        n = int(rng.integers(1, 4))
        triples.append([_rand_spec(rng, n, int(rng.integers(1, 2**n + 1))) for _ in range(3)])
    S.map("trace_distance.triangle", triples)

    # partial trace: every non-empty subset, n<=4
    pt = []
    reps = 6 if thorough else 2
    for n in (1, 2, 3, 4):
        specs = []
        for r in range(reps):
            specs.append(_rand_spec(rng, n, int(rng.integers(1, 2**n + 1))))
            specs.append(_rand_spec(rng, n, 2**n))
        if n <= 3:
            ns = len(_full(n))
            specs += [["stab", n, int(k)] for k in rng.integers(0, ns, size=4)]
        for spec in specs:
            for r in range(1, n + 1):
                for keep in itertools.combinations(range(n), r):
                    for route in ("dmf", "DensityMatrix", "QuantumState"):
                        pt.append([spec, list(keep), route])
    S.map("partial_trace.subsets", pt, nontrivial=lambda p: len(p[1]) < p[0][1] if p[0][0] != "stab" else len(p[1]) < p[0][1])

    # metrics across representations
    ss = [[1, a, b] for a in range(6) for b in range(6)] + [[2, a, b] for a in range(60) for b in range(60)]
    if thorough:
        ss += [[3, int(a), int(b)] for a, b in rng.integers(0, 1080, size=(1500, 2))]
    else:
        ss += [[3, int(a), int(b)] for a, b in rng.integers(0, 1080, size=(200, 2))]
    S.map("Infidelity.same_representation", ss, nontrivial=lambda p: p[1] != p[2])

    graphs = {n: [A.tolist() for A in core.all_graphs(n)] for n in (1, 2, 3, 4)}
    gp = []
    for n in (1, 2, 3, 4) if thorough else (1, 2, 3):
        gp += [[a, b] for a in graphs[n] for b in graphs[n]]
    if not thorough:
        idx = rng.integers(0, 64, size=(150, 2))
        gp += [[graphs[4][int(i)], graphs[4][int(j)]] for i, j in idx]
    S.map("Infidelity.cross_representation.graph_states", gp, nontrivial=lambda p: p[0] != p[1])

    cross = [[1, a, b] for a in range(6) for b in range(6)] + [[2, a, b] for a in range(60) for b in range(60)]

    def minus(p):
        return any(r for (_, _, r) in _full(p[0])[p[2]][1])

    gvecs = {n: [core.graph_state(np.array(g)) for g in graphs[n]] for n in (1, 2)}

    def is_graph(p):
        v = _full(p[0])[p[2]][0]
        return any(core.same_state(v, g) for g in gvecs[p[0]])

    S.map("Infidelity.cross_representation.state_s_target_dm.plus_signs", [p for p in cross if not minus(p)], nontrivial=lambda p: p[1] != p[2])
    S.map("Infidelity.cross_representation.state_dm_target_s.graph_states", [p for p in cross if is_graph(p)], nontrivial=lambda p: p[1] != p[2])
    # the two classes that touch known findings: small FIXED lists (no seed, same in both tiers)
    fixed_minus = [p for p in cross if p[0] == 1 and minus(p)] + [p for p in cross if p[0] == 2 and minus(p) and p[1] == p[2]][:6]
    S.map("Infidelity.cross_representation.state_s_target_dm.with_minus_signs", fixed_minus, nontrivial=lambda p: p[1] != p[2])
    non_graph_1 = sorted({p[2] for p in cross if p[0] == 1 and not is_graph(p)})[:4]
    fixed_other = [p for p in cross if p[0] == 1 and p[2] in non_graph_1]
    S.map("Infidelity.cross_representation.state_dm_target_s.other_stabilizer_states", fixed_other, nontrivial=lambda p: p[1] != p[2])

    gp3 = []
    for n in (1, 2, 3):
        gp3 += [[a, b] for a in graphs[n] for b in graphs[n]]
    S.map("TraceDistance.evaluate", gp3, nontrivial=lambda p: p[0] != p[1])

    # ---- hardening items
    forms = ["complex", "real", "fortran", "view"]
    fr = []
    sp = pairs[(seed % 97)::97]
    for i, (a, b) in enumerate(sp + _random_pairs(rng, 900 if thorough else 260)):
        n_ = dmref.build(a)[2]
        fr.append([a, b, forms[i % 4], _rand_spec(rng, n_, int(rng.integers(1, 2**n_ + 1)))])
    S.map("functions.arguments_unchanged_repeatable", fr, nontrivial=lambda p: p[0] != p[1])

    pc = []
    for n in (2, 3, 4):
        d = 2**n
        specs = [["rand", n, d, 1, int(rng.integers(1 << 30))], ["rand", n, 1, 1, int(rng.integers(1 << 30))],
                 ["rot", ["diag", n, [0, d - 1]], int(rng.integers(1 << 30))],
                 ["rot", ["diag", n, list(range(0, d, 2))], int(rng.integers(1 << 30))]]
        if thorough:
            specs += [["rand", n, int(rng.integers(2, d + 1)), 1, int(rng.integers(1 << 30))] for _ in range(6)]
        for spec in specs:
            for r in range(1, n):
                for keep in itertools.combinations(range(n), r):
                    pc.append([spec, list(keep)])
    S.map("partial_trace.complex_states_and_chains", pc)

    mr = []
    for n in (1, 2, 3):
        gs = graphs[n]
        for _ in range({1: 8, 2: 40, 3: 120}[n] * (3 if thorough else 1)):
            at = gs[int(rng.integers(len(gs)))]
            states = [gs[int(rng.integers(len(gs)))] for _ in range(3)] + [at]
            for rt in ("dm", "s"):
                mr.append(["graph", at, states, rt, [["dm", "s"][int(x)] for x in rng.integers(0, 2, size=4)]])
    for n, ns_ in ((1, 6), (2, 60)):
        for _ in range(30 if n == 1 else (300 if thorough else 120)):
            kt = int(rng.integers(ns_))
            for rep in ("dm", "s"):
                mr.append(["stab", n, kt, [int(x) for x in rng.integers(0, ns_, size=3)] + [kt], rep])
    S.map("metrics.repeated_use_and_frames", mr)

    mx = []
    for n, ns_ in ((1, 6), (2, 60)):
        for _ in range(60 if n == 1 else (600 if thorough else 240)):
            k = int(rng.integers(2, 4))
            w = rng.dirichlet(np.ones(k))
            mx.append([n, int(rng.integers(ns_)), [int(x) for x in rng.integers(0, ns_, size=k)], [float(x) for x in w]])
    S.map("Infidelity.mixed_stabilizer_state", mx)

    S.note("fidelity of two mixed states with a rank-deficient argument is compared with tolerance 1e-6 (sqrt of a "
           "numerically-zero eigenvalue, [N] in DESIGN 5/C17); all other comparisons use 1e-9")
    S.note("not driven: states with purity in (1-1e-5,1) (dmf.is_pure tolerance), the empty subset for partial_trace, "
           "non-qubit subsystem dimensions")
    return S
