"""C12 - the circuit DAG stays structurally consistent under any edit history  (bounded stand-in, tag [B]).

Every edit of the public CircuitDAG API is applied to the REAL object and, in lock-step, to the independent wire
model `refsem.dagmodel.WireModel`.  After every single edit the representation invariant WF of DESIGN.md section 5 C12
is recomputed from scratch from `circuit.dag` (own Kahn sort, own wire walk; no graphiq/networkx algorithm is trusted)
and the wires are compared with the model (view update of the edit).

input formats (JSON):
  history  {"regs":[ne,np,nc], "start":[op,...], "edits":[edit,...]}
  random   {"regs":[ne,np,nc], "seed":s, "len":L, "fam":"A"|"B"}      (the history is re-generated from the seed)
  random (two-digit registers)  {"regs":[ne,np,nc], "seed":s, "len":L, "focus":[[t,i],...], "cfocus":[c,...], "cap":[e,p,c]}
edits: ["add",op] ["ins",op,[pos..]] ["rm",k] ["rep",k,op] ["unwrap"] ["group"] ["rmid"] ["addreg",t] ["copy"]
op descriptors: see refsem/dagmodel.py
"""
from __future__ import annotations

import itertools

import numpy as np

from vf.bounded import Suite
from refsem import dagmodel as dm

S = Suite("C12")
SITE = "graphiq.circuit.circuit_dag:CircuitDAG"

CLS = {"I": "Identity", "H": "Hadamard", "P": "Phase", "PD": "PhaseDagger", "X": "SigmaX", "Y": "SigmaY", "Z": "SigmaZ"}
RCLS = {v: k for k, v in CLS.items()}
PAIR = {"cx": "CNOT", "cz": "CZ", "ccx": "ClassicalCNOT", "ccz": "ClassicalCZ", "mcr": "MeasurementCNOTandReset"}
RPAIR = {v: k for k, v in PAIR.items()}


# ---------------------------------------------------------------------------------------------- real objects
def mk_op(d, fixed=False):
    import graphiq.circuit.ops as ops

    k = d[0]
    if k == "g":
        op = getattr(ops, CLS[d[1]])(register=d[2][1], reg_type=d[2][0])
    elif k == "w":
        op = ops.OneQubitGateWrapper([getattr(ops, CLS[c]) for c in d[1]], register=d[2][1], reg_type=d[2][0])
    elif k in ("cx", "cz"):
        op = getattr(ops, PAIR[k])(control=d[1][1], control_type=d[1][0], target=d[2][1], target_type=d[2][0])
    elif k in ("ccx", "ccz", "mcr"):
        op = getattr(ops, PAIR[k])(
            control=d[1][1], control_type=d[1][0], target=d[2][1], target_type=d[2][0], c_register=d[3]
        )
    elif k == "mz":
        op = ops.MeasurementZ(register=d[1][1], reg_type=d[1][0], c_register=d[2])
    else:
        raise ValueError(d)
    if fixed:
        op.add_labels("Fixed")
    return op


def real_desc(op):
    """normalised descriptor of a real op object, read from its public attributes only"""
    nm = type(op).__name__
    q = [(t, r) for r, t in zip(op.q_registers, op.q_registers_type)]
    c = list(op.c_registers)
    if nm in RCLS:
        return ("g", RCLS[nm], q[0]) if len(q) == 1 and not c else ("?", nm)
    if nm == "OneQubitGateWrapper":
        return ("w", tuple(RCLS.get(g.__name__, "?") for g in op.operations), q[0])
    if nm in ("CNOT", "CZ"):
        return (RPAIR[nm], q[0], q[1])
    if nm in RPAIR:
        return (RPAIR[nm], q[0], q[1], c[0])
    if nm == "MeasurementZ":
        return ("mz", q[0], c[0])
    return ("?", nm)


# ---------------------------------------------------------------------------------------------- WF from scratch
def scan(c, deep=True):
    """Recompute everything from c.dag.  Returns (symptom | None, wires) with wires: key -> [node ids between in/out]."""
    g = c.dag
    reg = c.register
    if sorted(reg) != ["c", "e", "p"]:
        return f"register types {sorted(reg)}", None
    n = {t: len(reg[t]) for t in "epc"}
    for t in "epc":
        if any(x != 1 for x in reg[t]):
            return f"register sizes {t}: {reg[t]}", None
    if (c.n_emitters, c.n_photons, c.n_classical) != (n["e"], n["p"], n["c"]) or c.n_quantum != n["e"] + n["p"]:
        return "n_emitters/n_photons/n_classical disagree with register", None
    rd = c._register_depth
    if sorted(rd) != ["c", "e", "p"] or any(len(rd[t]) != n[t] for t in "epc"):
        return f"_register_depth lengths { {t: len(rd[t]) for t in rd} } vs registers {n}", None

    nodes = list(g.nodes)
    nodeset = set(nodes)
    if len(nodeset) != len(nodes):
        return "duplicate node ids", None
    edges = [(u, v, k, dict(a)) for u, v, k, a in g.edges(keys=True, data=True)]
    keys = [f"{t}{i}" for t in "epc" for i in range(n[t])]
    ins = {f"{k}_in": k for k in keys}
    outs = {f"{k}_out": k for k in keys}
    # in/out nodes: exactly one pair per register, with the right dummy op
    for nd, k in list(ins.items()) + list(outs.items()):
        if nd not in nodeset:
            return f"missing node {nd}", None
        op = g.nodes[nd].get("op")
        want = "Input" if nd in ins else "Output"
        if type(op).__name__ != want or f"{op.reg_type}{op.register}" != k:
            return f"node {nd} carries {type(op).__name__}", None
    opnodes = []
    for nd in nodes:
        if nd in ins or nd in outs:
            continue
        op = g.nodes[nd].get("op")
        if op is None or type(op).__name__ in ("Input", "Output"):
            return f"stray node {nd!r} ({type(op).__name__})", None
        opnodes.append(nd)
    # edges: key names a register, attributes agree with the key, endpoints exist
    out_by = {}
    in_by = {}
    for u, v, k, a in edges:
        if k not in keys:
            return f"edge {(u, v, k)} key is not a register", None
        if a.get("reg_type") != k[0] or a.get("reg") != int(k[1:]):
            return f"edge {(u, v, k)} attributes {a}", None
        if (u, k) in out_by or (v, k) in in_by:
            return f"wire {k} branches at {u if (u, k) in out_by else v}", None
        out_by[(u, k)] = v
        in_by[(v, k)] = u
    # (1) every wire is one simple path in -> out that uses all edges of that key
    wires = {}
    per_key = {}
    for u, v, k, a in edges:
        per_key[k] = per_key.get(k, 0) + 1
    for k in keys:
        path = []
        cur = f"{k}_in"
        seen = {cur}
        while cur != f"{k}_out":
            nxt = out_by.get((cur, k))
            if nxt is None:
                return f"wire {k} stops at {cur}", None
            if nxt in seen:
                return f"wire {k} revisits {nxt}", None
            seen.add(nxt)
            if nxt != f"{k}_out":
                path.append(nxt)
            cur = nxt
        if per_key.get(k, 0) != len(path) + 1:
            return f"wire {k}: {per_key.get(k, 0)} edges but path of {len(path) + 1}", None
        if any(p in ins or p in outs for p in path):
            return f"wire {k} passes through an in/out node", None
        wires[k] = path
    # (2) a node lies on quantum wire k iff k is one of its op's quantum registers; classical wires only of its own c regs
    on = {nd: set() for nd in opnodes}
    for k, path in wires.items():
        for nd in path:
            on[nd].add(k)
    for nd in opnodes:
        op = g.nodes[nd]["op"]
        qk = {f"{t}{r}" for r, t in zip(op.q_registers, op.q_registers_type)}
        ck = {f"c{r}" for r in op.c_registers}
        if len(qk) != len(op.q_registers):
            return f"node {nd}: op acts twice on a register {op.q_registers}", None
        got_q = {k for k in on[nd] if k[0] != "c"}
        got_c = {k for k in on[nd] if k[0] == "c"}
        if got_q != qk:
            return f"node {nd} ({type(op).__name__} on {sorted(qk)}) lies on quantum wires {sorted(got_q)}", None
        if not got_c <= ck:
            return f"node {nd} lies on classical wires {sorted(got_c)} but its op has {sorted(ck)}", None
    # (3) sources / sinks
    indeg = {nd: 0 for nd in nodes}
    outdeg = {nd: 0 for nd in nodes}
    for u, v, k, a in edges:
        outdeg[u] += 1
        indeg[v] += 1
    src = {nd for nd in nodes if indeg[nd] == 0}
    snk = {nd for nd in nodes if outdeg[nd] == 0}
    if src != set(ins):
        return f"sources {sorted(map(str, src ^ set(ins)))} differ from the input nodes", None
    if snk != set(outs):
        return f"sinks {sorted(map(str, snk ^ set(outs)))} differ from the output nodes", None
    # acyclic (own Kahn)
    deg = dict(indeg)
    succ = {nd: [] for nd in nodes}
    for u, v, k, a in edges:
        succ[u].append(v)
    ready = [nd for nd in nodes if deg[nd] == 0]
    done = 0
    while ready:
        u = ready.pop()
        done += 1
        for v in succ[u]:
            deg[v] -= 1
            if deg[v] == 0:
                ready.append(v)
    if done != len(nodes):
        return f"cycle: only {done} of {len(nodes)} nodes can be ordered", wires
    # (4) node_dict
    want = {"Input": sorted(ins), "Output": sorted(outs)}
    for nd in opnodes:
        op = g.nodes[nd]["op"]
        labs = set(op.labels) | {type(op).__name__, op.parse_q_reg_types()}
        for lab in labs:
            want.setdefault(lab, []).append(nd)
    nd_ = c.node_dict
    for lab in set(want) | set(nd_):
        got = list(nd_.get(lab, []))
        exp = want.get(lab, [])
        if sorted(map(str, got)) != sorted(map(str, exp)):
            return f"node_dict[{lab!r}] = {got} but the graph says {exp}", wires
    # (5) edge_dict
    for t in set("epc") | set(c.edge_dict):
        got = [tuple(e) for e in c.edge_dict.get(t, [])]
        exp = [(u, v, k) for u, v, k, a in edges if k[0] == t]
        if sorted(map(str, got)) != sorted(map(str, exp)):
            return f"edge_dict[{t!r}] = {got} but the graph says {exp}", wires
    # sequence(): every op exactly once, topological
    seq = c.sequence()
    byid = {}
    for nd in nodes:
        byid.setdefault(id(g.nodes[nd]["op"]), []).append(nd)
    if any(len(v) > 1 for v in byid.values()):
        return "two nodes share one op object", wires
    pos = {}
    for i, op in enumerate(seq):
        nd = byid.get(id(op))
        if nd is None or nd[0] in pos:
            return f"sequence() entry {i} ({type(op).__name__}) is not a distinct node's op", wires
        pos[nd[0]] = i
    if len(pos) != len(nodes):
        return f"sequence() has {len(seq)} entries for {len(nodes)} nodes", wires
    for u, v, k, a in edges:
        if pos[u] >= pos[v]:
            return f"sequence() not topological: {u} at {pos[u]} !< {v} at {pos[v]} (wire {k})", wires
    if deep:
        useq = c.sequence(unwrapped=True)
        exp = []
        for op in seq:
            d = real_desc(op)
            if d[0] == "w":
                exp += [("g", x, d[2]) for x in reversed(d[1])]
            elif type(op).__name__ in ("Input", "Output"):
                exp.append((type(op).__name__, op.reg_type, op.register))
            else:
                exp.append(d)
        got = [
            (type(op).__name__, op.reg_type, op.register) if type(op).__name__ in ("Input", "Output") else real_desc(op)
            for op in useq
        ]
        if got != exp:
            return f"sequence(unwrapped=True) = {got} expected {exp}", wires
        try:
            c.validate()
        except Exception as e:  # noqa: BLE001
            return f"validate() raised {type(e).__name__}: {e} on a well-formed circuit", wires
    return None, wires


def compare(c, wires, m, idmap):
    """real wires vs model wires; rebuilds idmap (model uid -> real node) and checks it is a bijection"""
    n = {t: len(c.register[t]) for t in "epc"}
    if n != m.n:
        return f"register counts {n}, specification says {m.n}"
    new = {}
    back = {}
    for k, mw in m.wires.items():
        rw = wires.get(k)
        if rw is None:
            return f"wire {k} missing"
        if k[0] == "c":
            exp = [u for u in mw if k in m.cwired[u]]
        else:
            exp = mw
        got_d = [real_desc(c.dag.nodes[nd]["op"]) for nd in rw]
        exp_d = [dm.norm(m.ops[u]) for u in exp]
        if got_d != exp_d:
            return f"wire {k} carries {got_d}, specification says {exp_d}"
        for u, nd in zip(exp, rw):
            if new.setdefault(u, nd) != nd or back.setdefault(nd, u) != u:
                return f"wire {k}: node {nd} / spec op {u} paired inconsistently across wires"
    if len(new) != len(m.ops):
        return f"{len(m.ops)} ops in the specification, {len(new)} matched"
    n_op = sum(1 for nd in c.dag.nodes if not isinstance(nd, str))
    if n_op != len(m.ops):
        return f"{n_op} op nodes in the graph, specification says {len(m.ops)}"
    idmap.clear()
    idmap.update(new)
    return None


# ---------------------------------------------------------------------------------------------- edit driver
class Run:
    def __init__(self, regs, deep=True):
        from graphiq.circuit.circuit_dag import CircuitDAG

        self.c = CircuitDAG(n_emitter=regs[0], n_photon=regs[1], n_classical=regs[2])
        self.m = dm.WireModel(*regs)
        self.idmap = {}
        self.deep = deep
        self.trace = []
        self.shadow = None  # (original circuit, specification snapshot, step) left behind by the last "copy" edit

    def check_shadow(self):
        """the circuit a copy was taken from must not have been touched by the edits made to the copy since"""
        if self.shadow is None:
            return None
        c0, m0, step = self.shadow
        s, wires = scan(c0, self.deep)
        if s is None:
            s = compare(c0, wires, m0, {})
        if s is not None:
            return f"the circuit that was copied at edit #{step} changed while its copy was edited: {s}"
        return None

    def check(self, what):
        s, wires = scan(self.c, self.deep)
        if s is None:
            s = compare(self.c, wires, self.m, self.idmap)
        if s is not None:
            return f"after {what}: {s}"
        return None

    def edge(self, k, p):
        """real edge at model position p of wire k"""
        w = self.m.wires[k]
        u = f"{k}_in" if p == 0 else self.idmap[w[p - 1]]
        v = f"{k}_out" if p == len(w) else self.idmap[w[p]]
        return (u, v, k)

    def nth(self, k):
        ids = self.m.op_ids()
        return ids[k % len(ids)] if ids else None

    def apply(self, ed):
        """apply one edit to both; returns symptom or None"""
        c, m = self.c, self.m
        kind = ed[0]
        self.trace.append(ed)
        what = f"edit #{len(self.trace)} {ed}"
        if kind in ("add", "ins"):
            d = ed[1]
            fixed = len(ed) > 3 and bool(ed[3]) if kind == "ins" else len(ed) > 2 and bool(ed[2])
            try:
                m.registers_needed(d)
                bad_reg = False
            except dm.RegisterError:
                bad_reg = True
            if bad_reg:
                before = dict(m.n)
                try:
                    if kind == "add":
                        c.add(mk_op(d))
                    else:
                        c.insert_at(mk_op(d), [])
                except ValueError:
                    # contract allows: numbering must be continuous.  Structure must still be WF; registers may only grow
                    after = {t: len(c.register[t]) for t in "epc"}
                    if any(after[t] < before[t] for t in "epc"):
                        return f"after rejected {what}: register counts shrank {before}->{after}"
                    for t in "epc":
                        while m.n[t] < after[t]:
                            m.add_register(t)
                    return self.check("rejected " + what)
                return f"{what}: a gap in the register numbering was accepted"
            if d[0] in ("g", "w", "mz"):
                m._ever_one = True  # from here on node_dict has the key "one-qubit"
            if kind == "add":
                c.add(mk_op(d, fixed))
                m.add(d)
            else:
                q = dm.qregs(d)
                # positions are taken modulo the wire length: an earlier insertion of the history may have been skipped
                # a quantum register the op names but the circuit does not have yet (next free index) is created by
                # insert_at itself; its only edge is (<key>_in, <key>_out, <key>)
                fresh = [dm.key(r) not in m.wires for r in q]
                pos = [0 if f else p % (len(m.wires[dm.key(r)]) + 1) for r, p, f in zip(q, ed[2], fresh)]
                # classical registers named by the op are created by insert_at before the edges are looked up
                es = [
                    (f"{dm.key(r)}_in", f"{dm.key(r)}_out", dm.key(r)) if f else self.edge(dm.key(r), p)
                    for r, p, f in zip(q, pos, fresh)
                ]
                if len(es) == 2 and not any(fresh):
                    bad = c.find_incompatible_edges(es[0])
                    if es[1] in bad:
                        self.trace[-1] = ed + ["skipped:incompatible"]
                        return None
                c.insert_at(mk_op(d, fixed), es)
                m.insert(d, pos)
        elif kind == "rm":
            u = self.nth(ed[1])
            if u is None:
                return None
            c.remove_op(self.idmap[u])
            m.remove(u)
        elif kind == "rep":
            u = self.nth(ed[1])
            if u is None:
                return None
            old = m.ops[u]
            d = retarget(ed[2], old)
            if d is None:
                return None
            c.replace_op(self.idmap[u], mk_op(d, len(ed) > 3 and bool(ed[3])))
            m.replace(u, d)
        elif kind == "unwrap":
            c.unwrap_nodes()
            m.unwrap()
        elif kind == "rmid":
            c.remove_identity()
            m.remove_identity()
        elif kind == "group":
            c.group_one_qubit_gates()
            m.group()
        elif kind == "addreg":
            {"e": c.add_emitter_register, "p": c.add_photonic_register, "c": c.add_classical_register}[ed[1]]()
            m.add_register(ed[1])
        elif kind == "copy":
            s = self.check_shadow()
            if s:
                return s
            self.shadow = (c, m.copy(), len(self.trace))
            self.c = c.copy()
        else:
            raise ValueError(ed)
        return self.check(what)


def retarget(d, old):
    """descriptor of kind/class d placed on the registers of old; None when the classes are not interchangeable
    (replace_op requires identical quantum and classical registers)"""
    ko, kn = old[0], d[0]
    if ko in ("g", "w") and kn in ("g", "w"):
        return [kn, d[1], list(old[2])]
    if ko in ("cx", "cz") and kn in ("cx", "cz"):
        return [kn, list(old[1]), list(old[2])]
    if ko in ("ccx", "ccz", "mcr") and kn in ("ccx", "ccz", "mcr"):
        return [kn, list(old[1]), list(old[2]), old[3]]
    if ko == "mz" and kn == "mz":
        return list(old)
    return None


def run_history(inp, deep=True):
    r = Run(inp["regs"], deep)
    s = r.check("construction")
    if s:
        return s
    for d in inp.get("start", []):  # the start circuit is built by add; it is checked once, when complete
        r.c.add(mk_op(d))
        r.m.add(d)
    if inp.get("start"):
        s = r.check("building the start circuit")
        if s:
            return s
    for ed in inp["edits"]:
        s = r.apply(list(ed))
        if s:
            return s
    return r.check_shadow()


def group_history(inp):
    """run_history, but an exception escaping the final group edit is reported together with what it left behind"""
    try:
        return run_history(inp)
    except (KeyError, AssertionError) as e:
        r = Run(inp["regs"])
        for d in inp.get("start", []):
            r.c.add(mk_op(d))
            r.m.add(d)
        r.check("start")
        for ed in inp["edits"][:-1]:
            r.apply(list(ed))
        before = [real_desc(op) for op in r.c.sequence() if type(op).__name__ not in ("Input", "Output")]
        try:
            r.c.group_one_qubit_gates()
            return f"not reproducible: {type(e).__name__}"
        except (KeyError, AssertionError) as e2:
            after = [real_desc(op) for op in r.c.sequence() if type(op).__name__ not in ("Input", "Output")]
            wf, _ = scan(r.c)
            return (
                f"group_one_qubit_gates raised {type(e2).__name__}({e2}); operations before {before}, left behind {after}; "
                f"structure afterwards: {'WF' if wf is None else wf}"
            )


# ---------------------------------------------------------------------------------------------- alphabets
def qubits(n):
    return [["e", i] for i in range(n["e"])] + [["p", i] for i in range(n["p"])]


def op_alphabet(n, fam, rich):
    """ops over the present registers (plus, when rich, ops that create the next free register)"""
    Q = qubits(n)
    one = ["H", "I"] + (["P", "X"] if rich else [])
    wr = [["H", "P"]] + ([["I"], ["P", "H", "X"]] if rich else [])
    out = []
    for q in Q:
        out += [["g", x, q] for x in one]
        out += [["w", w, q] for w in wr]
    cs = list(range(n["c"])) or [0]
    if fam == "A":
        for q in Q[: (None if rich else 1)]:
            out.append(["mz", q, cs[0]])
    pairs = [(a, b) for a in Q for b in Q if a != b]
    for a, b in pairs:
        out.append(["cx", a, b])
        if rich:
            out.append(["cz", a, b])
    for a, b in pairs:
        if a[0] == "e" and (rich or b[0] == "p"):
            out.append(["mcr", a, b, cs[-1]])
            if rich:
                out.append(["ccx", a, b, cs[0]])
    return out


def options(m, fam, rich):
    """all edits offered in model state m"""
    A = op_alphabet(m.n, fam, rich)
    eds = []
    for d in A:
        eds.append(["add", d])
    # ops that create the next free register (register-adding edits through add)
    eds.append(["add", ["g", "H", ["e", m.n["e"]]]])
    eds.append(["add", ["cx", ["e", 0], ["p", m.n["p"]]]] if m.n["e"] else ["add", ["g", "H", ["p", m.n["p"]]]])
    if fam == "A":
        eds.append(["add", ["mz", qubits(m.n)[0], m.n["c"]]] if qubits(m.n) else ["addreg", "e"])
    # a gap in the numbering must be refused
    eds.append(["add", ["g", "H", ["p", m.n["p"] + 1]]])
    for d in A:
        q = dm.qregs(d)
        spans = [range(len(m.wires[dm.key(r)]) + 1) for r in q]
        for pos in itertools.product(*spans):
            eds.append(["ins", d, list(pos)])
    ids = m.op_ids()
    for k in range(len(ids)):
        eds.append(["rm", k])
        old = m.ops[ids[k]]
        if old[0] in ("g", "w"):
            alts = [["g", "P", None], ["w", ["H", "X"], None]]
        elif old[0] in ("cx", "cz"):
            alts = [["cz" if old[0] == "cx" else "cx"]]
        elif old[0] in ("ccx", "ccz", "mcr"):
            alts = [["ccz"], ["mcr"]] if old[0] == "ccx" else [["ccx"]]
        else:
            alts = [["mz"]]
        for a in alts:
            eds.append(["rep", k, a])
            if rich and old[0] in ("g", "w"):
                eds.append(["rep", k, a, 1])  # the replacement carries an extra label ("Fixed"), as the solvers do
    eds += [["unwrap"], ["rmid"], ["addreg", "e"], ["addreg", "p"], ["addreg", "c"], ["copy"]]
    if group_allowed(m):
        eds.append(["group"])
    return eds


def group_allowed(m):
    """group_one_qubit_gates is offered in every state (since /repo 94c3214 a measurement ends a run and a circuit
    without one-qubit operations is left alone; before that commit the two situations were confined to the items
    group_one_qubit_gates.*, see C12.findings.md)"""
    return True


def model_apply(m, ed):
    """the specification side of Run.apply (used to enumerate histories without touching graphiq)"""
    kind = ed[0]
    if kind in ("add", "ins"):
        d = ed[1]
        try:
            m.registers_needed(d)
        except dm.RegisterError:
            return
        if d[0] in ("g", "w", "mz"):
            m._ever_one = True
        if kind == "add":
            m.add(d)
        else:
            m.insert(d, ed[2])  # an incompatible pair is skipped by the driver; the enumeration over-approximates
    elif kind == "rm":
        ids = m.op_ids()
        if ids:
            m.remove(ids[ed[1] % len(ids)])
    elif kind == "rep":
        ids = m.op_ids()
        if ids:
            u = ids[ed[1] % len(ids)]
            d = retarget(ed[2], m.ops[u])
            if d is not None:
                if d[0] in ("g", "w"):
                    m._ever_one = True
                m.replace(u, d)
    elif kind == "unwrap":
        m.unwrap()
    elif kind == "rmid":
        m.remove_identity()
    elif kind == "group":
        m.group()
    elif kind == "addreg":
        m.add_register(ed[1])


def clone(m):
    return m.copy()


def enumerate_histories(regs, start, fam, depth, rich_first):
    """all edit histories of length <= depth offered by options() from the start circuit.  Two-qubit insertions on a
    cyclic position pair are dropped here when the specification says they would create a cycle *and* would therefore
    be skipped by the driver too; to keep real and model in lock-step the enumeration only continues a history after a
    two-qubit insertion when the model says the pair is acyclic (the driver re-checks with find_incompatible_edges)."""
    m0 = dm.WireModel(*regs)
    for d in start:
        model_apply(m0, ["add", d])
    out = []

    def rec(m, hist, left):
        out.append(hist)
        if left == 0:
            return
        for ed in options(m, fam, rich_first and not hist):
            if ed[0] == "ins" and len(ed[2]) == 2 and m.insert_would_cycle(ed[1], ed[2]):
                # domain still contains the edit itself (it must be *refused* by find_incompatible_edges), as a leaf
                out.append(hist + [ed])
                continue
            m2 = clone(m)
            model_apply(m2, ed)
            rec(m2, hist + [ed], left - 1)

    rec(m0, [], depth)
    return [{"regs": list(regs), "start": start, "edits": h} for h in out]


# ---------------------------------------------------------------------------------------------- two-digit registers
# (H3) register indices >= 10: wire keys "p10", "e11", "c12" have two digits and share a prefix with "p1", "e1", "c1".
# The alphabets below range over a small FOCUS set of registers of a circuit with 10..14 registers per type, so that
# every edit kind is driven on two-digit wires (and on the one-digit wire with the same leading digit) while the
# enumeration stays small.
def focus_alphabet(Q, cs, fam, rich):
    """ops over the focus qubits Q and the focus classical registers cs (same op kinds as op_alphabet)"""
    one = ["H", "I"] + (["P", "X"] if rich else [])
    wr = [["H", "P"]] + ([["I"], ["P", "H", "X"]] if rich else [])
    out = []
    for q in Q:
        out += [["g", x, q] for x in one]
        out += [["w", w, q] for w in wr]
    cs = list(cs) or [0]
    if fam == "A":
        for q in Q[: (None if rich else 2)]:
            out.append(["mz", q, cs[0]])
    pairs = [(a, b) for a in Q for b in Q if a != b]
    for a, b in pairs:
        out.append(["cx", a, b])
        if rich:
            out.append(["cz", a, b])
    for a, b in pairs:
        if a[0] == "e" and (rich or b[0] == "p"):
            out.append(["mcr", a, b, cs[-1]])
            if rich:
                out.append(["ccx", a, b, cs[0]])
                out.append(["ccz", a, b, cs[len(cs) // 2]])
    return out


def focus_now(m, focus, cfocus):
    """the focus registers present in state m, plus the highest-index register of every type (so that a register
    created by an edit - addreg, or add of an op naming the next free index - is edited by the following edits)"""
    Q = [list(q) for q in focus if q[1] < m.n[q[0]]]
    for t in "ep":
        if m.n[t] and [t, m.n[t] - 1] not in Q:
            Q.append([t, m.n[t] - 1])
    C = [c for c in cfocus if c < m.n["c"]]
    if m.n["c"] and m.n["c"] - 1 not in C:
        C.append(m.n["c"] - 1)
    return Q, sorted(C)


def options_focus(m, focus, cfocus, fam, rich):
    """all edits offered in model state m, restricted to the focus registers"""
    Q, C = focus_now(m, focus, cfocus)
    A = focus_alphabet(Q, C, fam, rich)
    eds = [["add", d] for d in A]
    # ops that create the next free register of each type (register-adding edits through add / insert_at)
    eds.append(["add", ["g", "H", ["e", m.n["e"]]]])
    eds.append(["add", ["cx", Q[0], ["p", m.n["p"]]]])
    if fam == "A":
        eds.append(["add", ["mz", Q[-1], m.n["c"]]])
    else:
        eds.append(["add", ["ccx", Q[0], Q[-1], m.n["c"]]])
    eds.append(["add", ["mcr", ["e", m.n["e"]], ["p", m.n["p"]], m.n["c"]]])
    eds.append(["add", ["g", "H", ["p", m.n["p"] + 1]]])  # a gap in the numbering must be refused
    eds.append(["add", ["ccz", Q[0], Q[-1], m.n["c"] + 1]])  # gap in the classical numbering
    for d in A:
        q = dm.qregs(d)
        spans = [range(len(m.wires[dm.key(r)]) + 1) for r in q]
        for pos in itertools.product(*spans):
            eds.append(["ins", d, list(pos)])
    ids = m.op_ids()
    for k in range(len(ids)):
        eds.append(["rm", k])
        old = m.ops[ids[k]]
        if old[0] in ("g", "w"):
            alts = [["g", "P", None], ["w", ["H", "X"], None]]
        elif old[0] in ("cx", "cz"):
            alts = [["cz" if old[0] == "cx" else "cx"]]
        elif old[0] in ("ccx", "ccz", "mcr"):
            alts = [["ccz"], ["mcr"]] if old[0] == "ccx" else [["ccx"]]
        else:
            alts = [["mz"]]
        for a in alts:
            eds.append(["rep", k, a])
    eds += [["unwrap"], ["rmid"], ["group"], ["addreg", "e"], ["addreg", "p"], ["addreg", "c"], ["copy"]]
    return eds


def enumerate_focus_histories(regs, start, focus, cfocus, fam, depth, rich_first):
    """all edit histories of length <= depth offered by options_focus() from the start circuit (same treatment of
    cyclic two-qubit insertions as enumerate_histories)"""
    m0 = dm.WireModel(*regs)
    for d in start:
        model_apply(m0, ["add", d])
    out = []

    def rec(m, hist, left):
        out.append(hist)
        if left == 0:
            return
        for ed in options_focus(m, focus, cfocus, fam, rich_first and not hist):
            if ed[0] == "ins" and len(ed[2]) == 2 and m.insert_would_cycle(ed[1], ed[2]):
                out.append(hist + [ed])
                continue
            m2 = clone(m)
            model_apply(m2, ed)
            rec(m2, hist + [ed], left - 1)

    rec(m0, [], depth)
    return [{"regs": list(regs), "start": start, "edits": h} for h in out]


# start circuits on >= 10 registers per type: few operations, all on wires with index >= 9 or on the one-digit wire that
# shares their leading digit (e1/e10/e11, p1/p10/p12, c1/c10/c11)
HI_STARTS = [
    # (regs, focus qubits, focus classical registers, start ops)
    ((12, 13, 12), [["e", 1], ["e", 11], ["p", 10], ["p", 12]], [1, 11],
     [["g", "H", ["e", 11]], ["cx", ["e", 11], ["p", 10]], ["w", ["H", "P"], ["p", 12]], ["mcr", ["e", 11], ["p", 12], 11],
      ["g", "I", ["p", 10]], ["cx", ["e", 1], ["e", 11]]]),
    ((11, 11, 11), [["e", 10], ["p", 1], ["p", 10]], [1, 10],
     [["cx", ["e", 10], ["p", 10]], ["g", "H", ["p", 10]], ["cx", ["e", 10], ["p", 1]], ["mz", ["p", 10], 10], ["g", "I", ["e", 10]]]),
    ((2, 12, 1), [["e", 0], ["p", 1], ["p", 11]], [0],
     [["cx", ["e", 0], ["p", 11]], ["g", "H", ["p", 11]], ["g", "I", ["p", 11]], ["cx", ["e", 0], ["p", 1]], ["w", ["P", "H"], ["p", 1]]]),
    ((12, 1, 0), [["e", 1], ["e", 10], ["e", 11]], [],
     [["cx", ["e", 1], ["e", 10]], ["cz", ["e", 10], ["e", 11]], ["g", "H", ["e", 11]], ["w", ["I"], ["e", 10]]]),
    # the registers with index 10 are created by the edits themselves (addreg / add of an op naming the next free index)
    ((10, 10, 10), [["e", 1], ["e", 9], ["p", 9]], [1, 9],
     [["cx", ["e", 9], ["p", 9]], ["g", "H", ["p", 9]], ["mcr", ["e", 9], ["p", 9], 9]]),
]


# ---------------------------------------------------------------------------------------------- items
@S.item(
    "history.exhaustive",
    site=SITE + " (add, insert_at, remove_op, replace_op, unwrap_nodes, group_one_qubit_gates, remove_identity, add_*_register, copy)",
    bound="every edit history offered by the edit alphabet options() (all add/insert positions, every removable node, class "
    "replacements, unwrap, group, remove_identity, register additions, copy; next-free and gapped register indices): "
    "length <= 2 from each of the 4 start circuits STARTS, families A (with MeasurementZ) and B, first edit over the rich "
    "alphabet for the two small starts (thorough: all four); length <= 3 from the empty (1e,1p,1c) circuit, family B "
    "(thorough: also family A, and length <= 3 from the starts [H e0; CNOT e0->p0] on (2e,1p,1c), [measure-reset e0->p1] on "
    "(1e,2p,1c), [I e0; H e0] on (1e,1p,0c)); quick 111 k, thorough 1.7 M histories; WF + view update checked after every edit",
    exhaustive=True,
    clause="after any sequence of edits: DAG, sources/sinks, wires, indexes, sequence() topological, register counts",
)
def history_case(inp):
    return run_history(inp)


@S.item(
    "history.random_long",
    site=SITE,
    bound="seeded random histories (quick: 160 x 200 edits, thorough: 500 x 300 edits) over the rich alphabet on <= 3+3+2 "
    "registers, families A (with MeasurementZ) and B (without); WF + view after every edit",
    clause="after any sequence of edits (long histories)",
)
def random_case(inp):
    rng = np.random.default_rng([inp["seed"], 12])
    r = Run(inp["regs"], deep=False)
    s = r.check("construction")
    if s:
        return s
    fam = inp["fam"]
    for step in range(inp["len"]):
        m = r.m
        n_ops = len(m.ops)
        x = rng.random()
        target = 14  # keeps the circuit around a dozen ops so that every edit kind stays enabled
        p_add = 0.5 if n_ops < target else 0.25
        A = op_alphabet(m.n, fam, True)
        if x < p_add:
            d = A[rng.integers(len(A))]
            if rng.random() < 0.45:
                ed = ["add", d] + ([1] if rng.random() < 0.1 else [])
            else:
                pos = [int(rng.integers(len(m.wires[dm.key(q)]) + 1)) for q in dm.qregs(d)]
                ed = ["ins", d, pos]
        elif x < p_add + 0.25:
            ed = ["rm", int(rng.integers(max(1, n_ops)))]
        elif x < p_add + 0.37:
            ids = m.op_ids()
            if not ids:
                continue
            k = int(rng.integers(len(ids)))
            old = m.ops[ids[k]]
            cands = {"g": [["g", "Z"], ["w", ["P", "H"]], ["g", "I"]], "w": [["g", "Y"], ["w", ["X"]]], "cx": [["cz"]], "cz": [["cx"]],
                     "ccx": [["mcr"], ["ccz"]], "ccz": [["ccx"]], "mcr": [["ccx"]], "mz": [["mz"]]}[old[0]]
            a = cands[rng.integers(len(cands))]
            ed = ["rep", k, a + [None] if a[0] in ("g", "w") else a] + ([1] if rng.random() < 0.3 else [])
        else:
            y = rng.random()
            if y < 0.2:
                ed = ["unwrap"]
            elif y < 0.4:
                ed = ["rmid"]
            elif y < 0.6:
                ed = ["group"] if group_allowed(m) else ["copy"]
            elif y < 0.75:
                ed = ["copy"]
            elif y < 0.9:
                t = "epc"[rng.integers(3)]
                if m.n[t] >= {"e": 3, "p": 3, "c": 2}[t]:
                    continue
                ed = ["addreg", t]
            elif y < 0.95:
                ed = ["add", ["g", "H", ["e", m.n["e"] + 1]]]  # gap: must be refused
            else:
                if m.n["p"] >= 3:
                    continue
                ed = ["add", ["cx", ["e", 0], ["p", m.n["p"]]]] if m.n["e"] else ["add", ["g", "X", ["p", m.n["p"]]]]
        s = r.apply(ed)
        if s:
            return f"{s} | last edits {r.trace[-6:]}"
    return r.check_shadow()


@S.item(
    "find_incompatible_edges.no_cycle",
    site=SITE + ".find_incompatible_edges / insert_at",
    bound="for each of the STARTS circuits and 160 (thorough 1500) seeded random circuits of <= 12 ops: EVERY ordered pair of "
    "edges on two different quantum wires that find_incompatible_edges reports compatible is used for a CNOT insertion "
    "(on a copy); the result must be acyclic and WF; pairs the textbook criterion calls cyclic must be reported incompatible",
    exhaustive=False,
    clause="inserting a two-qubit operation on an edge pair reported compatible never creates a cycle",
)
def compat_case(inp):
    r = Run(inp["regs"], deep=False)
    for ed in inp["edits"]:
        s = r.apply(list(ed))
        if s:
            return s
    m = r.m
    Q = qubits(m.n)
    n_ok = 0
    for a in Q:
        for b in Q:
            if a == b:
                continue
            for pa in range(len(m.wires[dm.key(a)]) + 1):
                ea = r.edge(dm.key(a), pa)
                bad = r.c.find_incompatible_edges(ea)
                for pb in range(len(m.wires[dm.key(b)]) + 1):
                    eb = r.edge(dm.key(b), pb)
                    d = ["cx", a, b]
                    cyc = m.insert_would_cycle(d, [pa, pb])
                    if eb in bad:
                        continue
                    if cyc:
                        return f"edges {ea},{eb} reported compatible but a node there closes a cycle"
                    r2 = Run.__new__(Run)
                    r2.c, r2.m, r2.idmap, r2.deep, r2.trace = r.c.copy(), clone(m), dict(r.idmap), False, []
                    r2.c.insert_at(mk_op(d), [ea, eb])
                    r2.m.insert(d, [pa, pb])
                    s = r2.check(f"insert_at(CNOT {a}->{b}) on compatible edges {ea},{eb}")
                    if s:
                        return s
                    n_ok += 1
    return None


# two focus registers and 2-3 start ops: small enough for all histories of length 2
HI_SMALL = [
    ((1, 12, 1), [["e", 0], ["p", 11]], [0], [["cx", ["e", 0], ["p", 11]], ["g", "H", ["p", 11]]]),
    ((12, 1, 0), [["e", 1], ["e", 11]], [], [["cx", ["e", 1], ["e", 11]], ["g", "H", ["e", 11]]]),
    ((1, 11, 1), [["e", 0], ["p", 10]], [0], [["cx", ["e", 0], ["p", 10]], ["g", "I", ["p", 10]], ["mcr", ["e", 0], ["p", 10], 0]]),
    ((1, 1, 12), [["e", 0], ["p", 0]], [1, 11], [["cx", ["e", 0], ["p", 0]], ["mcr", ["e", 0], ["p", 0], 11], ["mz", ["p", 0], 1]]),
]


@S.item(
    "history.two_digit_registers",
    site=SITE + " (add, insert_at, remove_op, replace_op, unwrap_nodes, group_one_qubit_gates, remove_identity, add_*_register, copy)",
    bound="circuits with 10..13 registers of a type: (a) HI_STARTS - (12e,13p,12c), (11e,11p,11c), (2e,12p,1c), (12e,1p,0c), and "
    "(10e,10p,10c) where index 10 is created by the edits - start circuits of 3-6 ops on the wires e1/e10/e11, p1/p9/p10/p11/p12, "
    "c1/c9/c10/c11: every single edit offered by options_focus() over the rich alphabet, families A and B (thorough: every "
    "history of length <= 2, reduced alphabet, family B); (b) HI_SMALL - (1e,12p,1c), (12e,1p,0c), (1e,11p,1c), (1e,1p,12c) with two "
    "focus registers and 2-3 start ops: every history of length <= 2, family A (thorough: first edit over the rich alphabet).  options_focus() "
    "= all add / insert positions of every op kind on the focus wires, every removable node, class replacements, unwrap, group, "
    "remove_identity, register additions (also through ops naming the next free index, gaps refused), copy; WF (incl. EVERY "
    "edge's reg/reg_type attributes against its key and wire, node_dict, edge_dict) + view update checked after every edit; "
    "quick 34 k histories",
    exhaustive=True,
    clause="after any sequence of edits: wires, indexes, edge attributes - on registers whose index has two digits",
)
def hi_history_case(inp):
    return run_history(inp)


HI_RANDOM = [
    # (start registers, focus qubits, focus classical registers); the highest-index register of each type is always in focus
    ((12, 13, 12), [["e", 1], ["e", 10], ["p", 1], ["p", 11], ["p", 12]], [1, 10]),
    ((9, 9, 9), [["e", 1], ["e", 8], ["p", 1], ["p", 8]], [1, 8]),
    ((11, 11, 11), [["e", 0], ["e", 10], ["p", 9], ["p", 10]], [0, 10]),
    ((2, 12, 1), [["e", 0], ["e", 1], ["p", 1], ["p", 10], ["p", 11]], [0]),
    ((12, 2, 12), [["e", 1], ["e", 10], ["e", 11], ["p", 1]], [1, 11]),
    ((10, 10, 10), [["e", 9], ["p", 1], ["p", 9]], [9]),
    ((0, 12, 11), [["p", 1], ["p", 10], ["p", 11]], [1, 10]),
    ((13, 0, 0), [["e", 1], ["e", 10], ["e", 12]], []),
]


@S.item(
    "history.two_digit_registers_random",
    site=SITE,
    bound="seeded random histories (quick: 128 x 150 edits, thorough: 300 x 300 edits) of all edit kinds on circuits that start with "
    "9..12 registers per type and grow to at most 14 (addreg, ops naming the next free index), the ops drawn over a focus of 5-6 "
    "quantum and 3 classical registers most of which have index >= 10 (plus index 1 and 9); families A and B; WF + view after every edit",
    clause="after any sequence of edits (long histories) on registers whose index has two digits",
)
def random_hi_case(inp):
    rng = np.random.default_rng([inp["seed"], 1210])
    r = Run(inp["regs"], deep=False)
    s = r.check("construction")
    if s:
        return s
    fam = inp["fam"]
    cap = dict(zip("epc", inp["cap"]))
    for step in range(inp["len"]):
        m = r.m
        n_ops = len(m.ops)
        Q, C = focus_now(m, inp["focus"], inp["cfocus"])
        A = focus_alphabet(Q, C, fam, True)
        x = rng.random()
        p_add = 0.5 if n_ops < 14 else 0.25
        if x < p_add:
            d = A[rng.integers(len(A))]
            if rng.random() < 0.45:
                ed = ["add", d] + ([1] if rng.random() < 0.1 else [])
            else:
                pos = [int(rng.integers(len(m.wires[dm.key(q)]) + 1)) for q in dm.qregs(d)]
                ed = ["ins", d, pos]
        elif x < p_add + 0.25:
            ed = ["rm", int(rng.integers(max(1, n_ops)))]
        elif x < p_add + 0.37:
            ids = m.op_ids()
            if not ids:
                continue
            k = int(rng.integers(len(ids)))
            old = m.ops[ids[k]]
            cands = {"g": [["g", "Z"], ["w", ["P", "H"]], ["g", "I"]], "w": [["g", "Y"], ["w", ["X"]]], "cx": [["cz"]], "cz": [["cx"]],
                     "ccx": [["mcr"], ["ccz"]], "ccz": [["ccx"]], "mcr": [["ccx"]], "mz": [["mz"]]}[old[0]]
            a = cands[rng.integers(len(cands))]
            ed = ["rep", k, a + [None] if a[0] in ("g", "w") else a] + ([1] if rng.random() < 0.3 else [])
        else:
            y = rng.random()
            if y < 0.2:
                ed = ["unwrap"]
            elif y < 0.4:
                ed = ["rmid"]
            elif y < 0.6:
                ed = ["group"]
            elif y < 0.72:
                ed = ["copy"]
            elif y < 0.84:
                t = "epc"[rng.integers(3)]
                if m.n[t] >= cap[t]:
                    continue
                ed = ["addreg", t]
            elif y < 0.88:
                ed = ["add", ["g", "H", ["e", m.n["e"] + 1]]]  # gap: must be refused
            else:
                # an op naming the next free register of one type (created by add / insert_at itself)
                t = "epc"[rng.integers(3)]
                if m.n[t] >= cap[t]:
                    continue
                if t == "c":
                    d = ["ccx", Q[0], Q[-1], m.n["c"]] if fam == "B" or rng.random() < 0.5 else ["mz", Q[0], m.n["c"]]
                elif t == "e":
                    d = ["cx", ["e", m.n["e"]], Q[-1]]
                else:
                    d = ["cx", Q[0], ["p", m.n["p"]]]
                ed = ["add", d] if rng.random() < 0.6 else ["ins", d, [0, 0][: len(dm.qregs(d))]]
        s = r.apply(ed)
        if s:
            return f"{s} | last edits {r.trace[-6:]}"
    return r.check_shadow()


GROUP_NO_LABEL = [
    {"regs": [2, 1, 1], "start": [["cx", ["e", 0], ["e", 1]]], "edits": [["group"]]},
    {"regs": [1, 1, 1], "start": [["cx", ["e", 0], ["p", 0]], ["mcr", ["e", 0], ["p", 0], 0]], "edits": [["group"]]},
    {"regs": [1, 1, 0], "start": [["cz", ["e", 0], ["p", 0]]], "edits": [["group"]]},
    {"regs": [1, 1, 0], "start": [], "edits": [["group"]]},
]
GROUP_MZ = [
    {"regs": [1, 0, 1], "start": [["g", "H", ["e", 0]], ["mz", ["e", 0], 0]], "edits": [["group"]]},
    {"regs": [1, 0, 1], "start": [["mz", ["e", 0], 0]], "edits": [["group"]]},
    {"regs": [1, 0, 1], "start": [["mz", ["e", 0], 0], ["g", "H", ["e", 0]]], "edits": [["group"]]},
    {"regs": [1, 1, 1], "start": [["g", "H", ["p", 0]], ["mz", ["e", 0], 0]], "edits": [["group"]]},
    {"regs": [1, 1, 1], "start": [["g", "H", ["e", 0]], ["cx", ["e", 0], ["p", 0]], ["g", "P", ["p", 0]], ["mz", ["p", 0], 0]], "edits": [["group"]]},
    {"regs": [1, 1, 1], "start": [["g", "H", ["e", 0]], ["g", "X", ["e", 0]]], "edits": [["ins", ["mz", ["e", 0], 0], [1]], ["group"]]},
]


@S.item(
    "group_one_qubit_gates.no_one_qubit_label",
    site=SITE + ".group_one_qubit_gates",
    bound="4 fixed circuits to which no one-qubit operation was ever added (GROUP_NO_LABEL)",
    exhaustive=True,
    clause="after a group edit the circuit is WF and unchanged when there is nothing to group",
)
def group_nolabel_case(inp):
    return group_history(inp)


@S.item(
    "group_one_qubit_gates.with_measurementZ",
    site=SITE + ".group_one_qubit_gates",
    bound="6 fixed circuits containing a MeasurementZ (GROUP_MZ); the measurement is not a gate and must stay where it is",
    exhaustive=True,
    clause="after a group edit every wire visits, in order, exactly the operations acting on it",
)
def group_mz_case(inp):
    return group_history(inp)


STARTS = [
    ((1, 1, 1), []),
    ((2, 1, 1), [["g", "H", ["e", 0]], ["cx", ["e", 0], ["p", 0]], ["w", ["H", "P"], ["p", 0]], ["cx", ["e", 0], ["e", 1]]]),
    ((1, 2, 1), [["w", ["P", "H"], ["e", 0]], ["cx", ["e", 0], ["p", 0]], ["g", "I", ["p", 0]], ["mcr", ["e", 0], ["p", 1], 0]]),
    ((1, 1, 0), [["g", "I", ["e", 0]], ["g", "H", ["e", 0]], ["cz", ["e", 0], ["p", 0]], ["g", "X", ["e", 0]]]),
]


def nontrivial_history(inp):
    return len(inp.get("edits", [])) + len(inp.get("start", [])) >= 2


def random_circuit_edits(rng, regs, n_ops):
    m = dm.WireModel(*regs)
    eds = []
    for _ in range(n_ops):
        A = op_alphabet(m.n, "A", True)
        d = A[rng.integers(len(A))]
        if rng.random() < 0.5:
            ed = ["add", d]
        else:
            ed = ["ins", d, [int(rng.integers(len(m.wires[dm.key(q)]) + 1)) for q in dm.qregs(d)]]
            if len(ed[2]) == 2 and m.insert_would_cycle(d, ed[2]):
                ed = ["add", d]
        model_apply(m, ed)
        eds.append(ed)
    return eds


def run(tier, seed):
    import graphiq.circuit.circuit_dag  # noqa: F401  (imported before the pool forks)

    thorough = tier == "thorough"
    hs = []
    for i, (regs, start) in enumerate(STARTS):
        for fam in ("A", "B"):
            # length <= 2 from every start circuit; the first edit ranges over the rich alphabet for the small starts
            # (quick) / for all starts (thorough)
            hs += enumerate_histories(regs, start, fam, 2, rich_first=thorough or i in (0, 3))
    hs += enumerate_histories((1, 1, 1), [], "B", 3, rich_first=False)
    if thorough:
        hs += enumerate_histories((1, 1, 1), [], "A", 3, rich_first=False)
        hs += enumerate_histories((2, 1, 1), STARTS[1][1][:2], "B", 3, rich_first=False)
        hs += enumerate_histories((1, 2, 1), STARTS[2][1][3:], "A", 3, rich_first=False)
        hs += enumerate_histories((1, 1, 0), STARTS[3][1][:2], "B", 3, rich_first=False)
    seen = set()
    uniq = []
    for h in hs:
        k = repr(h)
        if k not in seen:
            seen.add(k)
            uniq.append(h)
    S.map("history.exhaustive", uniq, nontrivial=nontrivial_history)

    # (H3) the same on registers whose index has two digits
    hh = []
    for regs, focus, cf, start in HI_STARTS:
        for fam in ("A", "B"):
            hh += enumerate_focus_histories(regs, start, focus, cf, fam, 1, True)
        if thorough:
            hh += enumerate_focus_histories(regs, start, focus, cf, "B", 2, False)
    for i, (regs, focus, cf, start) in enumerate(HI_SMALL):
        hh += enumerate_focus_histories(regs, start, focus, cf, "A", 2, thorough)
    seen = set()
    uniq = []
    for h in hh:
        k = repr(h)
        if k not in seen:
            seen.add(k)
            uniq.append(h)
    S.map("history.two_digit_registers", uniq, nontrivial=nontrivial_history)

    hr = []
    for j in range(300 if thorough else 128):
        regs, focus, cfocus = HI_RANDOM[j % len(HI_RANDOM)]
        hr.append({"regs": list(regs), "seed": seed * 100003 + j, "len": 300 if thorough else 150, "fam": "AB"[(j // len(HI_RANDOM)) % 2],
                   "focus": focus, "cfocus": cfocus, "cap": [14, 14, 14]})
    S.map("history.two_digit_registers_random", hr, chunksize=1)

    n_rand, length = (500, 300) if thorough else (160, 200)
    rinp = []
    for j in range(n_rand):
        regs = [(1, 1, 1), (2, 2, 1), (3, 3, 2), (2, 1, 0), (0, 2, 1)][j % 5]
        rinp.append({"regs": list(regs), "seed": seed * 100003 + j, "len": length, "fam": "AB"[j % 2]})
    S.map("history.random_long", rinp, chunksize=1)

    rng = np.random.default_rng([seed, 1212])
    cinp = [{"regs": list(r), "edits": [["add", d] for d in st]} for r, st in STARTS]
    for j in range(1500 if thorough else 160):
        regs = [(2, 1, 1), (2, 2, 1), (3, 2, 1), (1, 3, 1)][j % 4]
        cinp.append({"regs": list(regs), "edits": random_circuit_edits(rng, regs, int(rng.integers(3, 13)))})
    S.map("find_incompatible_edges.no_cycle", cinp, chunksize=1)

    S.map("group_one_qubit_gates.no_one_qubit_label", GROUP_NO_LABEL)
    S.map("group_one_qubit_gates.with_measurementZ", GROUP_MZ)
    S.note(
        "classical wires: an op placed by insert_at is never connected to its classical register's wire (DESIGN C12 'to "
        "triage'); the property speaks of quantum wires only, so the contract demands classical-wire membership exactly for "
        "ops placed by add and only 'subset of the op's c_registers' otherwise"
    )
    S.note("depth / register_depth values are checked under C18 (their _max_depth recursion is exponential on long histories)")
    return S
