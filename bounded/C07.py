"""C07 - a Clifford tableau stays valid and tracks the right state under any history.   Bounded stand-ins [B].

Contracts (from the property statement) monitored on the REAL functions of
graphiq.backends.stabilizer.functions.transformation / .clifford, CliffordTableau and the Stabilizer / MixedStabilizer
wrappers:

  VALID   after every operation the tableau is a CliffordTableau with n_qubits = expected n, a (2n x 2n) table of bits that
          is symplectic with destabilizer i paired to stabilizer i, sign vectors of 2n bits;
  STATE   every signed stabilizer row stabilises the state obtained by applying the textbook operation to the previous
          state (oracle: state vectors for n <= 6, refsem.tabref.RefTableau - an independent Aaronson-Gottesman
          simulator, self-tested against state vectors - for larger n).  With VALID (n independent rows) this is
          equality of states, signs included.

  FRAME   (hardening H1/H2/H5) an operation applies to the tableau it is given: the caller's arrays, the other operands of
          tensor(), keep / dims, the source of a copy are bit-for-bit unchanged; a second use of the same input gives the same
          result; run_circuit on a StabilizerTableau and on a CliffordTableau describe the same state
          (items frames.arguments_unchanged, run_circuit.stabilizer_tableau_and_large).
  SIZE    (hardening H3) walk.rowsum_above_64_qubits: histories on 65..130 qubits built from the operations that go through
          row_sum, from tableaux in a mixed presentation, mirrored by refsem.tabref.RefTableau.

Measurement-like operations have several legitimate results; the oracle produces the candidates:
  z_measurement_gate   outcome must have non-zero probability; if both outcomes are possible and the caller forces 0/1 the
                       forced one must be returned; third result is non-zero exactly when the outcome was random;
  reset_x/y/z          qubit q ends in the requested eigenstate, the others in the post-measurement state of AN outcome of
                       non-zero probability (the statement does not say which one a forced mode selects: see findings);
  remove_qubit / partial_trace   unentangled qubits: the others are unchanged; entangled: measure (forced outcome if
                       random and a mode is forced) and drop.
"""
from __future__ import annotations

import itertools

import numpy as np

from vf.bounded import Suite
from refsem import core
from refsem import tabref as R

S = Suite("C07")

TR = "graphiq.backends.stabilizer.functions.transformation"
CL = "graphiq.backends.stabilizer.functions.clifford"
ST = "graphiq.backends.stabilizer.state"

GATE1 = ["H", "P", "PD", "X", "Y", "Z", "I"]
GATE2 = ["CX", "CZ", "CY"]


# ------------------------------------------------------------------------------------------------------------
# real-code adapters
# ------------------------------------------------------------------------------------------------------------
def _g():
    import graphiq.backends.stabilizer.functions.transformation as tr
    import graphiq.backends.stabilizer.functions.clifford as sfc
    from graphiq.backends.stabilizer.clifford_tableau import CliffordTableau
    from graphiq.backends.stabilizer.tableau import StabilizerTableau

    return tr, sfc, CliffordTableau, StabilizerTableau


def mk(tab, ph):
    _, _, CliffordTableau, _ = _g()
    return CliffordTableau(np.array(tab, dtype=int), np.array(ph, dtype=int))


def _gate_fn(name):
    tr = _g()[0]
    return {
        "H": tr.hadamard_gate, "P": tr.phase_gate, "PD": tr.phase_dagger_gate, "X": tr.x_gate, "Y": tr.y_gate,
        "Z": tr.z_gate, "I": tr.identity, "CX": tr.cnot_gate, "CZ": tr.control_z_gate, "CY": tr.control_y_gate,
    }[name]


NAMED = {"ket0": "create_n_ket0_state", "ket1": "create_n_ket1_state", "plus": "create_n_plus_state"}


def real_apply(T, op):
    """apply op (JSON list) with the real functions; returns (tableau, observed) - observed = measurement outcome/flag"""
    tr, sfc, _, _ = _g()
    k = op[0]
    if k in GATE1 or k in GATE2:
        return _gate_fn(k)(T, *op[1:]), None
    if k == "SWAP":
        return sfc.swap_gate(T, op[1], op[2]), None
    if k == "M":
        T2, o, p = sfc.z_measurement_gate(T, op[1], op[2])
        return T2, (o, p)
    if k == "RESET":
        fn = {"z": sfc.reset_z, "x": sfc.reset_x, "y": sfc.reset_y}[op[1]]
        return fn(T, op[2], op[3], op[4]), None
    if k == "INS":
        return sfc.insert_qubit(T, op[1]), None
    if k == "ADD":
        return sfc.add_qubit(T), None
    if k == "REM":
        return sfc.remove_qubit(T, op[1], op[2]), None
    if k == "PT":
        return sfc.partial_trace(T, op[1], [2] * T.n_qubits, op[2]), None
    if k == "TENSOR":
        other = getattr(sfc, NAMED[op[1]])(op[2])
        return sfc.tensor([T, other]), None
    if k == "CIRC":
        return tr.run_circuit(T, [tuple(g) for g in op[1]], reverse=bool(op[2])), None
    raise ValueError(op)


WRAP = {"H": "apply_hadamard", "P": "apply_phase", "PD": "apply_phase_dagger", "X": "apply_sigmax", "Y": "apply_sigmay",
        "Z": "apply_sigmaz", "CX": "apply_cnot", "CZ": "apply_cz"}


def wrapper_apply(st, op, get, put):
    """apply op through a Stabilizer / MixedStabilizer object where the wrapper has a method for it; otherwise through the
    plain function on the wrapped tableau(x).  get(st) -> list of tableaux, put(st, list)."""
    k = op[0]
    if k in WRAP:
        getattr(st, WRAP[k])(*op[1:])
        return None
    if k == "M":
        return st.apply_measurement(op[1], op[2])
    if k == "RESET" and op[1] == "z" and op[3] == 0:
        st.reset_qubit(op[2], op[4])
        return None
    if k == "REM":
        st.remove_qubit(op[1], op[2])
        return None
    if k == "PT":
        if op[2] == "probabilistic" and op[3:] == ["pt"]:
            st.partial_trace(op[1], [2] * st.n_qubits)
        else:
            st.trace_out_qubits(op[1], op[2])
        return None
    if k == "CIRC" and hasattr(st, "apply_circuit"):
        st.apply_circuit([tuple(g) for g in op[1]], reverse=bool(op[2]))
        return None
    outs = []
    new = []
    for t in get(st):
        t2, obs = real_apply(t, op)
        new.append(t2)
        outs.append(obs)
    put(st, new)
    return outs


# ------------------------------------------------------------------------------------------------------------
# oracle models: SV (state vector, n <= 6) and REF (RefTableau);  step(op) -> list of (observed_constraint, model)
# ------------------------------------------------------------------------------------------------------------
_NAMED_SV = {"ket0": R.EIG[("z", 0)], "ket1": R.EIG[("z", 1)], "plus": R.EIG[("x", 0)]}
_INV = {"H": "H", "P": "PD", "PD": "P", "X": "X", "Y": "Y", "Z": "Z", "I": "I", "CNOT": "CNOT", "CZ": "CZ", "P_dag": "P"}
_CIRC_NAME = {"H": "H", "P": "P", "P_dag": "PD", "X": "X", "Y": "Y", "Z": "Z", "I": "I", "CNOT": "CX", "CZ": "CZ"}


def circ_textbook(glist, reverse):
    """textbook reading of run_circuit: forward = the gates in list order; reverse = the inverse circuit (reversed order,
    each gate inverted: P <-> P_dag, all other listed gates are self-inverse).  Returns [(refsem name, qubits)]."""
    seq = [(g[0], list(g[1:])) for g in glist]
    if reverse:
        seq = [({"P": "P_dag", "P_dag": "P"}.get(nm, nm), qs) for nm, qs in reversed(seq)]
    return [(_CIRC_NAME[nm], qs) for nm, qs in seq]


class SV:
    def __init__(self, v, n):
        self.v = v
        self.n = n

    def _restrict(self, br, mode):
        if len(br) == 2 and mode in (0, 1):
            return {mode: br[mode]}
        return br

    def step(self, op):
        v, n, k = self.v, self.n, op[0]
        if k in GATE1 or k in GATE2 or k == "SWAP":
            return [(None, SV(R.sv_gate(v, n, k, op[1:]), n))]
        if k == "M":
            br = R.sv_measure_branches(v, n, op[1])
            rnd = len(br) == 2
            return [((o, rnd), SV(w, n)) for o, w in self._restrict(br, op[2]).items()]
        if k == "RESET":
            br = R.sv_measure_branches(v, n, op[2])
            return [(None, SV(R.sv_set_qubit(w, n, op[2], R.EIG[(op[1], op[3])]), n)) for w in br.values()]
        if k == "INS":
            return [(None, SV(R.sv_insert0(v, n, op[1]), n + 1))]
        if k == "ADD":
            return [(None, SV(R.sv_insert0(v, n, n), n + 1))]
        if k == "REM":
            br = self._restrict(R.sv_measure_branches(v, n, op[1]), op[2])
            return [(None, SV(R.sv_drop(w, n, op[1]), n - 1)) for w in br.values()]
        if k == "PT":
            cur = [self]
            for q in sorted(set(range(n)) - set(op[1]), reverse=True):
                cur = [m2 for m in cur for _, m2 in m.step(["REM", q, op[2]])]
            return [(None, m) for m in cur]
        if k == "TENSOR":
            w = R.sv_tensor([v] + [_NAMED_SV[op[1]]] * op[2])
            return [(None, SV(w, n + op[2]))]
        if k == "CIRC":
            w = v
            for nm, qs in circ_textbook(op[1], op[2]):
                w = R.sv_gate(w, n, nm, qs)
            return [(None, SV(w, n))]
        raise ValueError(op)

    def mismatch(self, tab, ph):
        return R.rows_describe(self.v, self.n, tab[self.n:], ph[self.n:])


class REF:
    def __init__(self, t):
        self.t = t
        self.n = t.n

    def step(self, op):
        k = op[0]
        t = self.t.copy()
        if k in GATE1 or k in GATE2 or k == "SWAP":
            t.gate(k, op[1:])
            return [(None, REF(t))]
        if k == "M":
            probe = t.copy()
            _, rnd = probe.measure(op[1], 0)
            outs = [0, 1] if (rnd and op[2] not in (0, 1)) else [op[2] if rnd else None]
            res = []
            for f in outs:
                t2 = t.copy()
                o, _ = t2.measure(op[1], f if f is not None else 0)
                res.append(((o, rnd), REF(t2)))
            return res
        if k == "RESET":
            probe = t.copy()
            _, rnd = probe.measure(op[2], 0)
            res = []
            for f in ([0, 1] if rnd else [0]):
                t2 = t.copy()
                t2.measure(op[2], f)
                t2.set_after_measure(op[2], op[1], op[3])
                res.append((None, REF(t2)))
            return res
        if k == "INS":
            t.insert0(op[1])
            return [(None, REF(t))]
        if k == "ADD":
            t.insert0(t.n)
            return [(None, REF(t))]
        if k == "REM":
            probe = t.copy()
            _, rnd = probe.measure(op[1], 0)
            outs = [0, 1] if (rnd and op[2] not in (0, 1)) else [op[2] if rnd else 0]
            res = []
            for f in outs:
                t2 = t.copy()
                t2.remove(op[1], f)
                res.append((None, REF(t2)))
            return res
        if k == "PT":
            cur = [self]
            for q in sorted(set(range(self.n)) - set(op[1]), reverse=True):
                cur = [m2 for m in cur for _, m2 in m.step(["REM", q, op[2]])]
            return [(None, m) for m in cur]
        if k == "TENSOR":
            for _ in range(op[2]):
                o = R.RefTableau(1)
                if op[1] == "ket1":
                    o.x(0)
                elif op[1] == "plus":
                    o.h(0)
                t.tensor(o)
            return [(None, REF(t))]
        if k == "CIRC":
            for nm, qs in circ_textbook(op[1], op[2]):
                t.gate(nm, qs)
            return [(None, REF(t))]
        raise ValueError(op)

    def mismatch(self, tab, ph):
        return self.t.same_state_as_rows(tab[self.n:], ph[self.n:])


# ------------------------------------------------------------------------------------------------------------
# the contract
# ------------------------------------------------------------------------------------------------------------
def _labels(tab, ph, n):
    out = []
    for i in range(n, 2 * n):
        s = "".join("IZXY"[2 * int(tab[i, j]) + int(tab[i, n + j])] for j in range(n))
        out.append(("-" if ph[i] else "+") + s)
    return out


def valid_symptom(T, n):
    CliffordTableau = _g()[2]
    if not isinstance(T, CliffordTableau):
        return f"result is {type(T).__name__}, not a CliffordTableau"
    if T.n_qubits != n:
        return f"n_qubits={T.n_qubits}, expected {n}"
    tab = np.asarray(T.table)
    if tab.shape != (2 * n, 2 * n):
        return f"table shape {tab.shape}, expected {(2 * n, 2 * n)}"
    if tuple(T.shape) != (2 * n, 2 * n):
        return f"shape attribute {T.shape}, expected {(2 * n, 2 * n)}"
    if not R.valid_clifford(tab, n):
        return "VALID broken: table is not binary/symplectic with destabilizer i paired to stabilizer i" + (
            f" table={tab.tolist()}" if n <= 3 else "")
    if not R.valid_phase(T.phase, 2 * n):
        return f"VALID broken: phase vector is not 2n bits: {np.asarray(T.phase).tolist() if n <= 4 else np.asarray(T.phase).shape}"
    if not R.valid_phase(T.iphase, 2 * n):
        return f"VALID broken: iphase vector is not 2n bits (shape {np.asarray(T.iphase).shape})"
    return None


def conforms(T, cands, observed=None):
    """None if the real tableau T is VALID and describes one of the candidate models (whose constraint agrees with the
    observed measurement result); else a symptom.  Returns (symptom, chosen model)."""
    if not cands:
        return "oracle produced no candidate", None
    n = cands[0][1].n
    s = valid_symptom(T, n)
    if s:
        return s, None
    tab = np.asarray(T.table)
    ph = np.asarray(T.phase)
    why = []
    for cons, m in cands:
        if cons is not None and observed is not None:
            o, p = observed
            exp_o, rnd = cons
            if int(o) != exp_o:
                why.append(f"outcome {int(o)} returned, candidate outcome {exp_o}")
                continue
            if bool(p) != rnd:
                why.append(f"third result {p} but outcome was {'random' if rnd else 'deterministic'}")
                continue
        bad = m.mismatch(tab, ph)
        if bad is None:
            return None, m
        why.append(f"stabilizer row {bad} does not stabilise the expected state")
    got = _labels(tab, ph, n) if n <= 6 else f"(n={n})"
    return f"STATE wrong: got stabilizers {got}; " + " | ".join(why[:3]), None


def run_ops(T, model, ops, via=None):
    """apply ops one by one to the real tableau and the oracle; symptom or None"""
    for i, op in enumerate(ops):
        cands = model.step(op)
        T, obs = real_apply(T, op)
        s, model = conforms(T, cands, obs)
        if s:
            return f"step {i} op={op}: {s}"
    return None


def start_sv(tab, ph):
    n = len(tab) // 2
    tabn = np.array(tab, dtype=int)
    v = core.stabilizer_state(tabn[n:, :n], tabn[n:, n:], np.array(ph)[n:])
    assert v is not None and R.valid_clifford(tabn, n), "harness: input tableau is not a valid stabilizer tableau"
    return SV(v, n)


def _seed(inp):
    import hashlib
    from vf.bounded import jkey

    return int(hashlib.sha1(jkey(inp).encode()).hexdigest()[:8], 16)


MODES = [0, 1, "probabilistic"]


# ------------------------------------------------------------------------------------------------------------
# items: single operations on all two-qubit tableaux
# ------------------------------------------------------------------------------------------------------------
def _ops_gates(n):
    ops = [[g, q] for g in GATE1 for q in range(n)]
    ops += [[g, c, t] for g in GATE2 for c in range(n) for t in range(n) if c != t]
    return ops


@S.item("gates.clifford_tableau", site=f"{TR}:hadamard_gate", exhaustive=True,
        bound="all 11520 two-qubit Clifford tableaux (all 24 one-qubit ones) x {H,P,P_dag,X,Y,Z,identity} x every qubit, "
              "{CNOT,CZ,CY} x both orientations",
        clause="after any gate the tableau is valid and its stabilizer half describes U|psi>")
def gates_case(inp):
    tab, ph = inp
    n = len(tab) // 2
    m0 = start_sv(tab, ph)
    for op in _ops_gates(n):
        s = run_ops(mk(tab, ph), m0, [op])
        if s:
            return s
    return None


@S.item("gates.stabilizer_tableau", site=f"{TR}:hadamard_gate", exhaustive=True,
        bound="the stabilizer halves of all 11520 two-qubit tableaux as StabilizerTableau x the same gate placements",
        clause="the gate rules are applicable to StabilizerTableau as well (used by inverse_circuit): rows stay commuting, "
               "independent and describe U|psi>")
def gates_stab_case(inp):
    tab, ph = inp
    n = len(tab) // 2
    StabilizerTableau = _g()[3]
    m0 = start_sv(tab, ph)
    for op in _ops_gates(n):
        t = StabilizerTableau(np.array(tab, dtype=int)[n:], np.array(ph, dtype=int)[n:])
        t2 = _gate_fn(op[0])(t, *op[1:])
        (_, m), = m0.step(op)
        if not isinstance(t2, StabilizerTableau) or t2.n_qubits != n:
            return f"op={op}: result {type(t2).__name__} n={getattr(t2, 'n_qubits', None)}"
        if not R.valid_stabilizer_rows(t2.table, n) or not R.valid_phase(t2.phase, n):
            return f"op={op}: rows not commuting/independent/binary: {np.asarray(t2.table).tolist()} {np.asarray(t2.phase).tolist()}"
        bad = R.rows_describe(m.v, n, np.asarray(t2.table), np.asarray(t2.phase))
        if bad is not None:
            return f"op={op}: row {bad} of {np.asarray(t2.table).tolist()} phase {np.asarray(t2.phase).tolist()} does not stabilise U|psi>"
    return None


@S.item("z_measurement_gate.outcome_state_flag", site=f"{CL}:z_measurement_gate", exhaustive=True,
        bound="all 11520 two-qubit tableaux x qubit x mode in {0,1,'probabilistic' (2 numpy seeds)}",
        clause="measurement: outcome of non-zero probability (forced one if random), post-measurement state, valid, "
               "third result non-zero iff random")
def meas_case(inp):
    tab, ph = inp
    n = len(tab) // 2
    m0 = start_sv(tab, ph)
    for q in range(n):
        for mode in MODES:
            for rep in range(2 if mode == "probabilistic" else 1):
                np.random.seed((_seed(inp) + 7 * q + rep) % 2**32)
                s = run_ops(mk(tab, ph), m0, [["M", q, mode]])
                if s:
                    return s
    return None


@S.item("reset.xyz", site=f"{CL}:reset_z", exhaustive=True,
        bound="all 11520 two-qubit tableaux x {reset_z,reset_x,reset_y} x qubit x intended in {0,1} x mode in {0,1,'probabilistic'}",
        clause="reset: qubit in the requested eigenstate, the others in a post-measurement state; valid")
def reset_case(inp):
    tab, ph = inp
    n = len(tab) // 2
    m0 = start_sv(tab, ph)
    np.random.seed(_seed(inp) % 2**32)
    for basis in "zxy":
        for q in range(n):
            for want in (0, 1):
                for mode in MODES:
                    s = run_ops(mk(tab, ph), m0, [["RESET", basis, q, want, mode]])
                    if s:
                        return s
    return None


@S.item("swap_gate.semantics", site=f"{CL}:swap_gate", exhaustive=True,
        bound="all 11520 two-qubit tableaux x (q1,q2) in {0,1}^2",
        clause="swap exchanges the two qubits")
def swap_case(inp):
    tab, ph = inp
    n = len(tab) // 2
    m0 = start_sv(tab, ph)
    for a in range(n):
        for b in range(n):
            s = run_ops(mk(tab, ph), m0, [["SWAP", a, b]])
            if s:
                return s
    return None


@S.item("insert_qubit.every_position", site=f"{CL}:insert_qubit", exhaustive=True,
        bound="all 11520 two-qubit tableaux x new_position in {0,1,2}, add_qubit; plus one chain of three insertions at hashed positions",
        clause="inserting a qubit adds an unentangled |0> at the requested position")
def insert_case(inp):
    tab, ph = inp
    n = len(tab) // 2
    m0 = start_sv(tab, ph)
    for pos in range(n + 1):
        s = run_ops(mk(tab, ph), m0, [["INS", pos]])
        if s:
            return s
    s = run_ops(mk(tab, ph), m0, [["ADD"]])
    if s:
        return s
    k = _seed(inp)
    s = run_ops(mk(tab, ph), m0, [["INS", k % (n + 1)], ["INS", (k // 7) % (n + 2)], ["ADD"]])
    return s


def remove_case(inp):
    tab, ph, q = inp
    m0 = start_sv(tab, ph)
    for mode in MODES:
        for rep in range(2 if mode == "probabilistic" else 1):
            np.random.seed((_seed(inp) + rep) % 2**32)
            s = run_ops(mk(tab, ph), m0, [["REM", q, mode]])
            if s:
                return s
    return None


S.item("remove_qubit.unentangled", site=f"{CL}:remove_qubit", exhaustive=False,
       bound="all (two-qubit tableau, qubit) with the qubit unentangled x 3 modes; plus 3- and 4-qubit product tableaux in "
             "mixed presentations (sampled)",
       clause="removing an unentangled qubit leaves the state of the others unchanged")(remove_case)
S.item("remove_qubit.entangled_measure_and_remove", site=f"{CL}:remove_qubit", exhaustive=False,
       bound="all (two-qubit tableau, qubit) with the qubit entangled x 3 modes; plus sampled 3-4 qubit tableaux",
       clause="removal of an entangled qubit = Z measurement (forced outcome if random) followed by removal; valid")(remove_case)


@S.item("partial_trace.keep", site=f"{CL}:partial_trace",
        bound="sampled 3-5 qubit tableaux (products of random blocks in mixed presentations, random qubit order) x every "
              "keep set that drops an unentangled block or single qubits x 3 modes",
        clause="tracing out unentangled qubits leaves the state of the others unchanged (entangled: measure and drop)")
def ptrace_case(inp):
    tab, ph, keep, mode = inp
    np.random.seed(_seed(inp) % 2**32)
    return run_ops(mk(tab, ph), start_sv(tab, ph), [["PT", keep, mode]])


@S.item("tensor.product", site=f"{CL}:tensor",
        bound="all 11520 two-qubit tableaux (x) a one-qubit tableau (24, cycled) in both orders, sampled pairs and triples "
              "of 1-3 qubit tableaux",
        clause="tensor products: valid and describes |a>|b>...")
def tensor_case(inp):
    sfc = _g()[1]
    parts = [mk(t, p) for t, p in inp]
    vs = [start_sv(t, p).v for t, p in inp]
    n = sum(len(t) // 2 for t, _ in inp)
    T = sfc.tensor(parts)
    s, _ = conforms(T, [(None, SV(R.sv_tensor(vs), n))])
    return s


@S.item("create_states.named", site=f"{CL}:create_n_plus_state", exhaustive=True,
        bound="create_n_ket0_state / ket1 / plus for n = 1..6 (state) and n in {10, 50, 200} (against RefTableau)",
        clause="the created tableaux are valid and are |0..0>, |1..1>, |+..+>")
def create_case(inp):
    kind, n = inp
    sfc = _g()[1]
    T = getattr(sfc, NAMED[kind])(n)
    if n <= 6:
        m = SV(R.sv_tensor([_NAMED_SV[kind]] * n), n)
    else:
        t = R.RefTableau(n)
        for q in range(n):
            if kind == "ket1":
                t.x(q)
            elif kind == "plus":
                t.h(q)
        m = REF(t)
    s, _ = conforms(T, [(None, m)])
    return s


@S.item("CliffordTableau.construct_copy_to_stabilizer", site="graphiq.backends.stabilizer.clifford_tableau:CliffordTableau.__init__",
        exhaustive=True, bound="all 11520 two-qubit tableaux",
        clause="construction from (table, phase) / from another tableau, copy(), to_stabilizer() keep the state and do not alias")
def construct_case(inp):
    tab, ph = inp
    n = len(tab) // 2
    tr, sfc, CliffordTableau, StabilizerTableau = _g()
    m0 = start_sv(tab, ph)
    a = mk(tab, ph)
    b = CliffordTableau(a)
    c = a.copy()
    for nm, t in (("ndarray", a), ("CliffordTableau(T)", b), ("copy()", c)):
        s, _ = conforms(t, [(None, m0)])
        if s:
            return f"{nm}: {s}"
        if not (np.array_equal(t.table, np.array(tab)) and np.array_equal(t.phase, np.array(ph))):
            return f"{nm}: table/phase differ from the data given"
    st = a.to_stabilizer()
    if not isinstance(st, StabilizerTableau) or not np.array_equal(st.table, np.array(tab)[n:]) or not np.array_equal(st.phase, np.array(ph)[n:]):
        return "to_stabilizer: not the stabilizer half with its signs"
    # no aliasing: a history applied to one object must not move the others
    tr.x_gate(b, 0)
    tr.hadamard_gate(c, n - 1)
    tr.x_gate(st, 0)
    tr.hadamard_gate(st, 0)
    st.phase[:] = 1 - st.phase
    # measurements / resets write sign bits IN PLACE (gates rebind the vectors), so they are applied first on fresh copies:
    # a copy that shares its table or sign vectors with the original would show here
    for q in range(n):
        for maker in (lambda: CliffordTableau(a), lambda: a.copy()):
            d = maker()
            sfc.z_measurement_gate(d, q, 1)
            d = maker()
            sfc.reset_z(d, q, 1, 1)
            d = maker()
            d.phase[:] = 1 - d.phase
            d.iphase[:] = 1
            d.table[:] = 1 - d.table
    s, _ = conforms(a, [(None, m0)])
    if s or not np.array_equal(a.table, np.array(tab)) or not np.array_equal(a.phase, np.array(ph)):
        return "operations on CliffordTableau(T) / copy() / to_stabilizer() changed the original tableau"
    return None


@S.item("run_circuit.forward_and_reverse", site=f"{TR}:run_circuit",
        bound="sampled two-qubit tableaux x random gate lists (length <= 10 over H,P,P_dag,X,Y,Z,I,CNOT,CZ) x reverse in "
              "{False, True}; unknown gate name raises ValueError",
        clause="a sequence of gates = the fold of the single gates; reverse runs the inverse circuit")
def circuit_case(inp):
    tab, ph, glist, reverse = inp
    tr = _g()[0]
    s = run_ops(mk(tab, ph), start_sv(tab, ph), [["CIRC", glist, reverse]])
    if s:
        return s
    try:
        tr.run_circuit(mk(tab, ph), [("H", 0), ("T", 0)])
    except ValueError:
        return None
    return "run_circuit accepted the unknown gate name 'T'"


@S.item("single_ops.n3_to_5_sampled", site=f"{CL}:z_measurement_gate",
        bound="seeded random tableaux (random circuit + mixed presentation) with 3 <= n <= 5 x one operation of every kind "
              "(each gate, measurement, the three resets, swap, insert, add, remove, partial trace, tensor, circuit) at random positions / modes",
        clause="every single operation on more than two qubits (e.g. measurements whose outcome is a product of >= 3 generators)")
def single_ops_case(inp):
    n, seed = inp
    rng = np.random.default_rng([seed, n, 3])
    np.random.seed(seed % 2**32)
    ref = R.RefTableau.random(n, rng)
    tab, ph = ref.table().tolist(), ref.R.tolist()
    m0 = start_sv(tab, ph)
    q = lambda: int(rng.integers(0, n))  # noqa: E731
    pair = lambda: [int(a) for a in rng.choice(n, size=2, replace=False)]  # noqa: E731
    mode = lambda: MODES[int(rng.integers(0, 3))]  # noqa: E731
    ops = [[g, q()] for g in GATE1] + [[g] + pair() for g in GATE2]
    ops += [["SWAP"] + pair(), ["INS", int(rng.integers(0, n + 1))], ["ADD"], ["TENSOR", ["ket0", "ket1", "plus"][int(rng.integers(0, 3))], 1]]
    for qq in range(n):
        ops += [["M", qq, 0], ["M", qq, 1], ["M", qq, "probabilistic"], ["REM", qq, mode()]]
    ops += [["RESET", b, q(), int(rng.integers(0, 2)), mode()] for b in "zxy"]
    keep = sorted(int(a) for a in rng.choice(n, size=int(rng.integers(1, n)), replace=False))
    ops += [["PT", keep, mode()]]
    for op in ops:
        s = run_ops(mk(tab, ph), m0, [op])
        if s:
            return s
    return None


# ------------------------------------------------------------------------------------------------------------
# items: histories (random walks)
# ------------------------------------------------------------------------------------------------------------
def gen_op(rng, n, nmax, allow_prob=True, allow_tensor=True, nmin=1):
    """one random operation for a register of n qubits (n stays within [nmin, nmax])"""
    modes = MODES if allow_prob else [0, 1]
    mode = modes[int(rng.integers(0, len(modes)))]
    r = rng.random()
    q = int(rng.integers(0, n))
    if r < 0.30:
        return [GATE1[int(rng.integers(0, len(GATE1)))], q]
    if r < 0.52 and n >= 2:
        c, t = (int(a) for a in rng.choice(n, size=2, replace=False))
        return [GATE2[int(rng.integers(0, 3))], c, t]
    if r < 0.58:
        return ["SWAP", q, int(rng.integers(0, n))]
    if r < 0.70:
        return ["M", q, mode]
    if r < 0.78:
        return ["RESET", "zxy"[int(rng.integers(0, 3))], q, int(rng.integers(0, 2)), mode]
    if r < 0.86:
        if n < nmax:
            return ["INS", int(rng.integers(0, n + 1))] if rng.random() < 0.8 else ["ADD"]
        return ["REM", q, mode]
    if r < 0.93:
        if n > nmin:
            return ["REM", q, mode]
        return ["INS", int(rng.integers(0, n + 1))]
    if r < 0.96 and n > nmin + 1:
        drop = set(int(a) for a in rng.choice(n, size=int(rng.integers(1, 3)), replace=False))
        return ["PT", [j for j in range(n) if j not in drop], mode if mode in (0, 1) or rng.random() < 0.5 else 0]
    if r < 0.98 and allow_tensor and n + 2 <= nmax:
        return ["TENSOR", ["ket0", "ket1", "plus"][int(rng.integers(0, 3))], int(rng.integers(1, 3))]
    glist = []
    for _ in range(int(rng.integers(1, 6))):
        nm = ["H", "P", "P_dag", "X", "Y", "Z", "I", "CNOT", "CZ"][int(rng.integers(0, 9))]
        if nm in ("CNOT", "CZ"):
            if n < 2:
                continue
            c, t = (int(a) for a in rng.choice(n, size=2, replace=False))
            glist.append([nm, c, t])
        else:
            glist.append([nm, int(rng.integers(0, n))])
    return ["CIRC", glist, bool(rng.integers(0, 2))]


def _walk(inp):
    n0, seed, steps, nmax, tensor_ok = inp
    small = nmax <= 6  # state vectors up to 6 qubits, the RefTableau mirror above
    rng = np.random.default_rng([seed, n0, steps])
    np.random.seed(seed % 2**32)
    ref = R.RefTableau.random(n0, rng)
    T = mk(ref.table(), ref.R)
    model = start_sv(ref.table().tolist(), ref.R.tolist()) if small else REF(ref)
    hist = []
    for i in range(steps):
        op = gen_op(rng, model.n, nmax, allow_prob=True, allow_tensor=bool(tensor_ok))
        hist.append(op)
        cands = model.step(op)
        T, obs = real_apply(T, op)
        s, model = conforms(T, cands, obs)
        if s:
            tail = hist[-4:]
            return f"step {i} (n={cands[0][1].n}) op={op}: {s}; last ops {tail}"
    return None


@S.item("walk.small_state", site=f"{CL}:z_measurement_gate",
        bound="seeded random histories (gates, measurements, resets, swaps, insertions, removals, partial traces, circuits; "
              "without tensor) from random tableaux, 1 <= n <= 6, state vector compared after every step",
        clause="after ANY sequence of operations: valid and describes the right state")
def walk_small_case(inp):
    return _walk(inp)


@S.item("walk.large_valid_and_state", site=f"{CL}:z_measurement_gate",
        bound="seeded random histories of the same operations (without tensor) from random tableaux with n up to 200 (register size moves "
              "by insert/remove); VALID and the stabilizer group (vs the RefTableau mirror) after every step",
        clause="... of any size, up to hundreds of qubits")
def walk_large_case(inp):
    return _walk(inp)


@S.item("walk.with_tensor", site=f"{CL}:tensor",
        bound="seeded random histories that also use tensor(): n <= 6 (state vectors) and n up to 60 (RefTableau mirror)",
        clause="histories including tensor products")
def walk_tensor_case(inp):
    return _walk(inp)


# ---- H3: more than 64 qubits, histories made of the operations that go through row_sum -----------------------------
def heavy_start(n, k, rng):
    """n-qubit tableau whose measurements are non-trivial: |0>^k (x) random (n-k)-qubit state, then a layer of gates that keep
    Z-type group elements Z-type (CX, CZ, CY, P, X, Z, SWAP across the whole register - so Z-measurements with a determined
    outcome stay frequent), then a thorough mix of the presentation (row products: generators carry X/Y/Z on many qubits, so the
    row sums of a measurement meet every kind of overlap)."""
    t = R.RefTableau(k)
    if n > k:
        t.tensor(R.RefTableau.random(n - k, rng, depth=3 * (n - k)))
    for _ in range(4 * n):
        g = ["CX", "CZ", "CY", "P", "X", "Z", "SWAP"][int(rng.integers(0, 7))]
        if g in ("P", "X", "Z"):
            t.gate(g, [int(rng.integers(0, n))])
        else:
            a, b = (int(x) for x in rng.choice(n, size=2, replace=False))
            t.gate(g, [a, b])
    t.mix_presentation(rng, moves=6 * n)
    return t


def gen_op_heavy(rng, n, nmin, nmax, recent):
    mode = MODES[int(rng.integers(0, 3))]
    r = rng.random()
    q = int(rng.integers(0, n))
    if recent and rng.random() < 0.25:
        q = min(recent[int(rng.integers(0, len(recent)))], n - 1)
    if r < 0.34:
        return ["M", q, mode]
    if r < 0.48:
        return ["RESET", "zxy"[int(rng.integers(0, 3))], q, int(rng.integers(0, 2)), mode]
    if r < 0.60:
        return ["REM", q, mode] if n > nmin else ["INS", int(rng.integers(0, n + 1))]
    if r < 0.66:
        if n > nmin + 3:
            drop = set(int(a) for a in rng.choice(n, size=int(rng.integers(1, 4)), replace=False))
            return ["PT", [j for j in range(n) if j not in drop], mode]
        return ["INS", n if rng.random() < 0.3 else int(rng.integers(0, n + 1))]
    if r < 0.72:
        return ["INS", int(rng.integers(0, n + 1))] if n < nmax else ["REM", q, mode]
    if r < 0.76:
        return ["SWAP", q, int(rng.integers(0, n))]
    if r < 0.88:
        c, t = (int(a) for a in rng.choice(n, size=2, replace=False))
        return [GATE2[int(rng.integers(0, 3))], c, t]
    return [["H", "P", "PD", "X", "Y", "Z"][int(rng.integers(0, 6))], q]


def heavy_history(inp, stats=None):
    n0, k, seed, steps = inp
    nmin, nmax = 65, 130
    rng = np.random.default_rng([seed, n0, k, steps, 65])
    np.random.seed(seed % 2**32)
    ref = heavy_start(n0, k, rng)
    T = mk(ref.table(), ref.R)
    model = REF(ref)
    recent = []
    hist = []
    for i in range(steps):
        op = gen_op_heavy(rng, model.n, nmin, nmax, recent)
        hist.append(op)
        if op[0] in ("M", "RESET"):
            recent.append(op[1] if op[0] == "M" else op[2])
            recent = recent[-6:]
        elif op[0] in ("REM", "PT", "INS"):
            recent = []
        if stats is not None and op[0] in ("M", "RESET", "REM"):
            qq = op[2] if op[0] == "RESET" else op[1]
            tt = model.t
            rnd = bool(np.any(tt.X[tt.n:, qq]))
            stats.append((op[0], rnd, int(np.sum(tt.X[:, qq]))))
        cands = model.step(op)
        T, obs = real_apply(T, op)
        s, model = conforms(T, cands, obs)
        if s:
            return f"step {i} (n={cands[0][1].n}) op={op}: {s}; last ops {[o if o[0] != 'PT' else ['PT', '...', o[2]] for o in hist[-4:]]}"
    return None


@S.item("walk.rowsum_above_64_qubits", site="graphiq.backends.stabilizer.functions.linalg:row_sum",
        bound="seeded histories on 65..130 qubits made of measurements (3 modes, repeated on recently measured qubits), resets "
              "(x,y,z), removals, partial traces dropping 1-3 qubits, insertions, swaps and entangling gates, from tableaux in a "
              "thoroughly mixed presentation (generators with X/Y/Z on many qubits; a |0>^k block spread by CX/CZ/CY keeps outcomes "
              "that are products of many generators frequent); VALID and the signed stabilizer group against the RefTableau "
              "mirror after every step",
        clause="... of any size, up to hundreds of qubits: the row sums of measurement / reset / removal / partial trace above 64 qubits")
def heavy_case(inp):
    return heavy_history(inp)


# ---- H2 / H1 / H5: argument frames, repeated use of the same input, StabilizerTableau vs CliffordTableau ------------
def _snap(T):
    return (np.array(T.table).copy(), np.array(T.phase).copy(), np.array(T.iphase).copy() if hasattr(T, "iphase") else None,
            T.n_qubits, tuple(T.shape), np.asarray(T.table).dtype.kind)


def _same_snap(a, b):
    return (np.array_equal(a[0], b[0]) and np.array_equal(a[1], b[1]) and (a[2] is None or np.array_equal(a[2], b[2]))
            and a[3:5] == b[3:5])


def _short_history(rng, n):
    """operations that write sign bits / table rows in place or rebuild the arrays"""
    q = lambda: int(rng.integers(0, n))  # noqa: E731
    ops = [["H", q()], ["M", q(), 1], ["X", q()], ["RESET", "z", q(), 1, 0], ["P", q()], ["M", q(), 0], ["Y", q()]]
    if n >= 2:
        a, b = (int(x) for x in rng.choice(n, size=2, replace=False))
        ops += [["CX", a, b], ["SWAP", a, b], ["M", a, 1], ["CZ", b, a], ["RESET", "y", b, 1, 1]]
    return ops


def _model_of(ref, small):
    return start_sv(ref.table().tolist(), ref.R.tolist()) if small else REF(ref.copy())


@S.item("frames.arguments_unchanged", site=f"{CL}:tensor",
        bound="seeded random tableaux with n in 1..5 (state vectors) and 33..70 (RefTableau; tensor products cross 64 qubits): "
              "CliffordTableau / StabilizerTableau built from the caller's int64, float64 and bool arrays, then a 7-12 step history "
              "(gates, forced measurements, resets, swap) on the object, a second object built from the same arrays; "
              "tensor([A,B,C]); partial_trace(T, keep, dims) with list and ndarray keep; CliffordTableau(T), T.copy(), to_stabilizer()",
        clause="each operation applies to the tableau it is given: the caller's arrays, the other operands of tensor (B, C and the "
               "list), keep / dims and the source of a copy are bit-for-bit unchanged, and a second use of the same input gives "
               "the same result")
def frames_case(inp):
    n, seed = inp
    tr, sfc, CliffordTableau, StabilizerTableau = _g()
    rng = np.random.default_rng([seed, n, 41])
    np.random.seed(seed % 2**32)
    small = n <= 5
    ref = R.RefTableau.random(n, rng)
    tab0, ph0 = ref.table(), ref.R.copy()
    m0 = _model_of(ref, small)
    # 1. the caller's arrays (int: astype may alias; float / bool: must be converted)
    for dt in (np.int64, np.float64, np.bool_):
        arr, ph = tab0.astype(dt), ph0.astype(dt)
        arr_c, ph_c = arr.copy(), ph.copy()
        T = CliffordTableau(arr, ph)
        s, _ = conforms(T, [(None, m0)])
        if s:
            return f"CliffordTableau from {dt.__name__} arrays: {s}"
        s = run_ops(T, m0, _short_history(rng, n))
        if s:
            return f"history on a tableau built from {dt.__name__} arrays: {s}"
        if not (np.array_equal(arr, arr_c) and np.array_equal(ph, ph_c) and arr.dtype == dt and ph.dtype == dt):
            return f"operations on CliffordTableau(table, phase) wrote into the caller's {dt.__name__} arrays"
        T2 = CliffordTableau(arr, ph)  # H1: the same arrays serve a second tableau
        if not (np.array_equal(T2.table, tab0) and np.array_equal(T2.phase, ph0)):
            return f"second CliffordTableau from the same {dt.__name__} arrays differs from the data"
        rows, rph = arr[n:], ph[n:]
        rows_c, rph_c = rows.copy(), rph.copy()
        st = StabilizerTableau(rows, rph)
        for g, qs in (("H", [0]), ("P", [n - 1]), ("X", [0]), ("Y", [n - 1]), ("Z", [0])) + ((("CX", [0, n - 1]), ("CZ", [n - 1, 0])) if n > 1 else ()):
            st = _gate_fn(g)(st, *qs)
        if not (np.array_equal(rows, rows_c) and np.array_equal(rph, rph_c) and np.array_equal(arr, arr_c)):
            return f"gates on StabilizerTableau(rows, phase) wrote into the caller's {dt.__name__} arrays"
    # 2. copies: the source is a frame
    A = CliffordTableau(tab0.copy(), ph0.copy())
    sA = _snap(A)
    for nm, maker in (("CliffordTableau(T)", lambda: CliffordTableau(A)), ("T.copy()", lambda: A.copy())):
        B = maker()
        s = run_ops(B, m0, _short_history(rng, n))
        if s:
            return f"history on {nm}: {s}"
        if not _same_snap(_snap(A), sA):
            return f"a history on {nm} changed the tableau it was copied from"
    S1 = A.to_stabilizer()
    tr.hadamard_gate(S1, 0)
    tr.x_gate(S1, n - 1)
    S1.phase[:] = 1 - S1.phase
    S1.table[:] = 1 - S1.table
    if not _same_snap(_snap(A), sA):
        return "operations on to_stabilizer() changed the CliffordTableau"
    # 3. tensor: B, C and the list are frames; the product is |a>|b>|c>
    nb, nc = (int(rng.integers(1, 3)), int(rng.integers(1, 3))) if small and n <= 3 else (
        (1, 1) if small else (int(rng.integers(1, 40)), int(rng.integers(1, 12))))
    rb, rc = R.RefTableau.random(nb, rng), R.RefTableau.random(nc, rng)
    B, C = mk(rb.table(), rb.R), mk(rc.table(), rc.R)
    sB, sC = _snap(B), _snap(C)
    A2 = A.copy()
    lst = [A2, B, C]
    out = sfc.tensor(lst)
    if len(lst) != 3 or lst[0] is not A2 or lst[1] is not B or lst[2] is not C:
        return "tensor changed the caller's list"
    tot = ref.copy()
    tot.tensor(rb)
    tot.tensor(rc)
    mt = _model_of(tot, tot.n <= 6)
    s, _ = conforms(out, [(None, mt)])
    if s:
        return f"tensor of {n}+{nb}+{nc} qubits: {s}"
    if not (_same_snap(_snap(B), sB) and _same_snap(_snap(C), sC)):
        return "tensor modified its second / third operand"
    s = run_ops(out, mt, _short_history(rng, tot.n))
    if s:
        return f"history on the tensor product: {s}"
    if not (_same_snap(_snap(B), sB) and _same_snap(_snap(C), sC)):
        return "a history on the tensor product changed the second / third operand (shared arrays)"
    out2 = sfc.tensor([A.copy(), B, C])  # H1: the same operands in a second product
    s, _ = conforms(out2, [(None, mt)])
    if s:
        return f"second tensor product with the same operands: {s}"
    # 4. partial_trace / remove_qubit: keep and dims are frames
    if n >= 2:
        keep = sorted(int(a) for a in rng.choice(n, size=int(rng.integers(1, n)), replace=False))
        for kp in (list(keep), np.array(keep)):
            kp_c = np.array(kp).copy()
            dims = [2] * n
            Tp = A.copy()
            cands = m0.step(["PT", keep, 1])
            Tp = sfc.partial_trace(Tp, kp, dims, 1)
            s, _ = conforms(Tp, cands)
            if s:
                return f"partial_trace keep={keep} ({type(kp).__name__}): {s}"
            if not np.array_equal(np.array(kp), kp_c) or dims != [2] * n:
                return "partial_trace modified keep / dims"
            if not _same_snap(_snap(A), sA):
                return "partial_trace of a copy changed the original"
    return None


@S.item("run_circuit.stabilizer_tableau_and_large", site=f"{TR}:run_circuit",
        bound="seeded random tableaux n in 1..5 (state vectors) and 65..130 (RefTableau) x random gate lists (length <= 12 over "
              "H,P,P_dag,X,Y,Z,I,CNOT,CZ) x reverse in {False,True}: the same list run on the CliffordTableau and on its "
              "stabilizer half as StabilizerTableau (the form inverse_circuit uses), twice in a row on the same object",
        clause="run_circuit accepts CliffordTableau or StabilizerTableau: both describe U|psi> (signs included); reverse = inverse "
               "circuit, so forward then reverse gives back the state")
def circuit_stab_case(inp):
    n, seed, reverse = inp
    tr, sfc, CliffordTableau, StabilizerTableau = _g()
    rng = np.random.default_rng([seed, n, 43])
    small = n <= 5
    ref = R.RefTableau.random(n, rng) if small else heavy_start(n, n // 3, rng)
    names = ["H", "P", "P_dag", "X", "Y", "Z", "I", "CNOT", "CZ"]
    glist = []
    for _ in range(int(rng.integers(1, 13))):
        nm = names[int(rng.integers(0, 9))]
        if nm in ("CNOT", "CZ"):
            if n < 2:
                continue
            a, b = (int(x) for x in rng.choice(n, size=2, replace=False))
            glist.append([nm, a, b])
        else:
            glist.append([nm, int(rng.integers(0, n))])
    m0 = _model_of(ref, small)
    (_, m1), = m0.step(["CIRC", glist, reverse])
    (_, m2), = m1.step(["CIRC", glist, reverse])
    (_, mback), = m1.step(["CIRC", glist, not reverse])
    T = mk(ref.table(), ref.R)
    St = StabilizerTableau(ref.table()[n:].copy(), ref.R[n:].copy())

    def stab_symptom(t, m, what):
        if not isinstance(t, StabilizerTableau) or t.n_qubits != n or tuple(t.shape) != (n, 2 * n):
            return f"{what}: result {type(t).__name__} n={getattr(t, 'n_qubits', None)} shape={getattr(t, 'shape', None)}"
        if not R.valid_stabilizer_rows(t.table, n) or not R.valid_phase(t.phase, n):
            return f"{what}: rows not binary / commuting / independent"
        bad = (R.rows_describe(m.v, n, np.asarray(t.table), np.asarray(t.phase)) if small
               else m.t.same_state_as_rows(np.asarray(t.table), np.asarray(t.phase)))
        return None if bad is None else f"{what}: StabilizerTableau row {bad} does not stabilise the expected state (gates {glist}, reverse={reverse})"

    for rnd, m in ((1, m1), (2, m2)):
        T = tr.run_circuit(T, [tuple(g) for g in glist], reverse=bool(reverse))
        s, _ = conforms(T, [(None, m)])
        if s:
            return f"CliffordTableau, run {rnd} (gates {glist}, reverse={reverse}): {s}"
        St = tr.run_circuit(St, [tuple(g) for g in glist], reverse=bool(reverse))
        s = stab_symptom(St, m, f"run {rnd}")
        if s:
            return s
    # forward then reverse on a fresh pair
    T = tr.run_circuit(mk(ref.table(), ref.R), [tuple(g) for g in glist], reverse=bool(reverse))
    T = tr.run_circuit(T, [tuple(g) for g in glist], reverse=not reverse)
    s, _ = conforms(T, [(None, m0)])
    if s:
        return f"circuit followed by its inverse (gates {glist}): {s}"
    St = StabilizerTableau(ref.table()[n:].copy(), ref.R[n:].copy())
    St = tr.run_circuit(St, [tuple(g) for g in glist], reverse=bool(reverse))
    St = tr.run_circuit(St, [tuple(g) for g in glist], reverse=not reverse)
    return stab_symptom(St, m0, "circuit followed by its inverse")


# ------------------------------------------------------------------------------------------------------------
# items: wrappers
# ------------------------------------------------------------------------------------------------------------
@S.item("Stabilizer.wrapper_history", site=f"{ST}:Stabilizer",
        bound="seeded random histories n <= 5 through the Stabilizer methods (apply_hadamard/cnot/cz/phase/phase_dagger/"
              "sigmax/y/z, apply_measurement, reset_qubit, remove_qubit, trace_out_qubits, partial_trace, apply_circuit); "
              "operations without a method go through the function on .tableau",
        clause="the Stabilizer wrapper tracks the same state as the tableau functions")
def stabilizer_wrapper_case(inp):
    n0, seed, steps, nmax = inp
    from graphiq.backends.stabilizer.state import Stabilizer

    rng = np.random.default_rng([seed, n0, steps, 17])
    np.random.seed(seed % 2**32)
    ref = R.RefTableau.random(n0, rng)
    st = Stabilizer(mk(ref.table(), ref.R))
    model = start_sv(ref.table().tolist(), ref.R.tolist())
    if st.n_qubits != n0:
        return "Stabilizer.n_qubits wrong"
    hist = []
    for i in range(steps):
        op = gen_op(rng, model.n, nmax, allow_prob=True, allow_tensor=False)
        if op[0] == "PT" and op[2] == "probabilistic" and rng.random() < 0.5:
            op = op + ["pt"]  # -> Stabilizer.partial_trace(keep, dims)
        hist.append(op)
        cands = model.step(op[:3] if op[0] == "PT" else op)
        obs = wrapper_apply(st, op, lambda s_: [s_.tableau], lambda s_, ts: setattr(s_, "tableau", ts[0]))
        if op[0] == "M":
            if isinstance(obs, list):
                obs = obs[0]
            else:
                # Stabilizer.apply_measurement returns only the outcome
                obs = (obs, cands[0][0][1])
        else:
            obs = None
        s, model = conforms(st.tableau, cands, obs)
        if s:
            return f"step {i} op={op}: {s}; last ops {hist[-4:]}"
        if st.n_qubits != model.n or st.data is not st.tableau:
            return f"step {i} op={op}: Stabilizer.n_qubits/data inconsistent"
    return None


@S.item("MixedStabilizer.wrapper_history", site=f"{ST}:MixedStabilizer",
        bound="seeded random histories n <= 4 on mixtures of 2-3 tableaux through the MixedStabilizer methods (gates, "
              "apply_measurement -> list of outcomes, apply_conditioned_gate, reset_qubit, remove_qubit, trace_out_qubits, "
              "partial_trace); probabilities untouched",
        clause="the MixedStabilizer wrapper applies every operation to every branch and keeps the weights")
def mixed_wrapper_case(inp):
    n0, seed, steps, nmax, k = inp
    from graphiq.backends.stabilizer.state import MixedStabilizer

    rng = np.random.default_rng([seed, n0, steps, 29])
    np.random.seed(seed % 2**32)
    refs = [R.RefTableau.random(n0, rng) for _ in range(k)]
    w = rng.dirichlet(np.ones(k))
    probs = [float(a) for a in w]
    st = MixedStabilizer([(probs[i], mk(refs[i].table(), refs[i].R)) for i in range(k)])
    models = [start_sv(r.table().tolist(), r.R.tolist()) for r in refs]
    hist = []
    for i in range(steps):
        op = gen_op(rng, models[0].n, nmax, allow_prob=True, allow_tensor=False)
        if op[0] == "CIRC":
            continue
        if op[0] == "PT" and op[2] == "probabilistic" and rng.random() < 0.5:
            op = op + ["pt"]
        hist.append(op)
        cands = [m.step(op[:3] if op[0] == "PT" else op) for m in models]
        obs = wrapper_apply(st, op, lambda s_: [t for _, t in s_.mixture],
                            lambda s_, ts: setattr(s_, "mixture", [(p, t) for (p, _), t in zip(s_.mixture, ts)]))
        mix = st.mixture
        if len(mix) != k:
            return f"step {i} op={op}: mixture has {len(mix)} branches, expected {k}"
        outcomes = None
        for j in range(k):
            o = None
            if op[0] == "M":
                if not isinstance(obs, list) or len(obs) != k:
                    return f"step {i} op={op}: apply_measurement returned {obs!r}, expected a list of {k} outcomes"
                o = obs[j] if isinstance(obs[j], tuple) else (obs[j], cands[j][0][0][1])
            if mix[j][0] != probs[j]:
                return f"step {i} op={op}: weight of branch {j} changed {probs[j]} -> {mix[j][0]}"
            s, models[j] = conforms(mix[j][1], cands[j], o)
            if s:
                return f"step {i} op={op} branch {j}: {s}; last ops {hist[-4:]}"
        if op[0] == "M":
            outcomes = [int(x[0]) if isinstance(x, tuple) else int(x) for x in obs]
            g = ["x", "y", "z", "h"][int(rng.integers(0, 4))]
            q = int(rng.integers(0, models[0].n))
            st.apply_conditioned_gate(q, outcomes, g)
            for j in range(k):
                c = models[j].step([g.upper(), q]) if outcomes[j] == 1 else [(None, models[j])]
                s, models[j] = conforms(st.mixture[j][1], c)
                if s:
                    return f"step {i} conditioned {g} on q{q} outcomes {outcomes} branch {j}: {s}"
        if abs(st.probability - sum(probs)) > 1e-12 or st.n_qubits != models[0].n:
            return f"step {i} op={op}: probability/n_qubits of the mixture wrong"
    return None


# ------------------------------------------------------------------------------------------------------------
# domains
# ------------------------------------------------------------------------------------------------------------
def _tabs(n):
    out = []
    for T in core.all_clifford_tableaux(n):
        tab, ph = core.tableau_arrays(T)
        out.append([tab.tolist(), ph.tolist()])
    return out


def _product_tableau(rng, sizes):
    """random product of blocks (sizes), qubits shuffled, presentation mixed.  Returns (tab, ph, blocks) where blocks is
    the list of qubit-position lists of the factors."""
    t = R.RefTableau.random(sizes[0], rng)
    for s in sizes[1:]:
        t.tensor(R.RefTableau.random(s, rng))
    n = t.n
    pos = list(range(n))
    for _ in range(2 * n):
        a, b = int(rng.integers(0, n)), int(rng.integers(0, n))
        t.swap(a, b)
        pos[a], pos[b] = pos[b], pos[a]
    t.mix_presentation(rng)
    # pos[j] = original index of the qubit now at position j
    blocks = []
    lo = 0
    for s in sizes:
        blocks.append(sorted(j for j in range(n) if lo <= pos[j] < lo + s))
        lo += s
    assert t.valid()
    return t.table().tolist(), t.R.tolist(), blocks


def _nontrivial_signs(inp):
    return any(inp[1])


def run(tier, seed):
    thorough = tier == "thorough"
    rng = np.random.default_rng([seed, 7])
    _g()  # import graphiq once in the parent so that the forked workers inherit it
    import graphiq.backends.stabilizer.state  # noqa: F401
    assert R.selftest(seed, trials=10), "harness: refsem.tabref selftest failed"
    t1 = _tabs(1)
    t2 = _tabs(2)
    assert len(t1) == 24 and len(t2) == 11520
    every = t1 + t2
    sub = lambda k: t1 + (t2 if thorough else t2[(seed % k)::k])  # noqa: E731  deterministic subsample for the quick tier

    S.map("gates.clifford_tableau", every, nontrivial=_nontrivial_signs)
    S.map("gates.stabilizer_tableau", sub(4), nontrivial=_nontrivial_signs)
    S.map("z_measurement_gate.outcome_state_flag", every, nontrivial=_nontrivial_signs)
    S.map("reset.xyz", sub(4), nontrivial=_nontrivial_signs)
    S.map("swap_gate.semantics", sub(2), nontrivial=_nontrivial_signs)
    S.map("insert_qubit.every_position", sub(2), nontrivial=_nontrivial_signs)
    S.map("CliffordTableau.construct_copy_to_stabilizer", sub(4), nontrivial=_nontrivial_signs)
    if not thorough:
        for nm in ("gates.stabilizer_tableau", "reset.xyz", "CliffordTableau.construct_copy_to_stabilizer", "swap_gate.semantics",
                   "insert_qubit.every_position"):
            S.items[nm].exhaustive = False
            S.items[nm].bound += " [quick tier: deterministic 1/k subsample of the two-qubit tableaux]"

    # remove_qubit: classify (tableau, qubit) by entanglement of the qubit (oracle side)
    unent, ent = [], []
    for tab, ph in t2:
        tn = np.array(tab)
        v = core.stabilizer_state(tn[2:, :2], tn[2:, 2:], np.array(ph)[2:])
        for q in range(2):
            (unent if R.sv_unentangled(v, 2, q) else ent).append([tab, ph, q])
    n_big = 3000 if thorough else 500
    for _ in range(n_big):
        sizes = [[2, 1], [1, 2], [1, 1, 1], [3, 1], [2, 1, 1], [2, 2]][int(rng.integers(0, 6))]
        tab, ph, blocks = _product_tableau(rng, sizes)
        for b in blocks:
            if len(b) == 1:
                unent.append([tab, ph, b[0]])
            else:
                ent.append([tab, ph, b[int(rng.integers(0, len(b)))]])
    for _ in range(n_big // 2):
        n = int(rng.integers(3, 5))
        t = R.RefTableau.random(n, rng)
        q = int(rng.integers(0, n))
        (unent if R.sv_unentangled(t.state_vector(), n, q) else ent).append([t.table().tolist(), t.R.tolist(), q])
    S.map("remove_qubit.unentangled", unent, nontrivial=_nontrivial_signs)
    S.map("remove_qubit.entangled_measure_and_remove", ent, nontrivial=_nontrivial_signs)

    # partial_trace
    pt = []
    for _ in range(4000 if thorough else 700):
        sizes = [[2, 1], [1, 2], [2, 2], [1, 1, 1], [3, 1], [2, 1, 1], [3, 2], [2, 2, 1]][int(rng.integers(0, 8))]
        tab, ph, blocks = _product_tableau(rng, sizes)
        n = sum(sizes)
        choice = int(rng.integers(0, 3))
        if choice == 0:  # drop one whole factor (unentangled from the rest)
            b = blocks[int(rng.integers(0, len(blocks)))]
            keep = [j for j in range(n) if j not in b]
        elif choice == 1:  # drop all but one factor
            b = blocks[int(rng.integers(0, len(blocks)))]
            keep = list(b)
        else:  # arbitrary subset (may cut through a factor: measure and drop)
            keep = [j for j in range(n) if rng.random() < 0.6]
        if len(keep) == 0:
            keep = [int(rng.integers(0, n))]
        pt.append([tab, ph, keep, MODES[int(rng.integers(0, 3))]])
    for tab, ph in t2[:: (1 if thorough else 16)]:
        for keep in ([0], [1], [0, 1]):
            pt.append([tab, ph, keep, MODES[int(rng.integers(0, 3))]])
    S.map("partial_trace.keep", pt, nontrivial=_nontrivial_signs)

    # tensor
    tens = []
    for i, (tab, ph) in enumerate(t2 if thorough else t2[(seed % 8)::8]):
        o = t1[i % 24]
        tens.append([[tab, ph], o] if i % 2 == 0 else [o, [tab, ph]])
    for _ in range(2000 if thorough else 300):
        k = int(rng.integers(2, 4))
        parts = []
        for _j in range(k):
            t = R.RefTableau.random(int(rng.integers(1, 4 if k == 2 else 3)), rng)
            parts.append([t.table().tolist(), t.R.tolist()])
        tens.append(parts)
    S.map("tensor.product", tens, nontrivial=lambda x: any(any(p[1]) for p in x))

    S.map("single_ops.n3_to_5_sampled", [[int(rng.integers(3, 6)), int(rng.integers(0, 2**31))] for _ in range(6000 if thorough else 650)])

    S.map("create_states.named", [[k, n] for k in NAMED for n in [1, 2, 3, 4, 5, 6, 10, 50, 200]])

    # run_circuit
    circ = []
    gl = ["H", "P", "P_dag", "X", "Y", "Z", "I", "CNOT", "CZ"]
    for tab, ph in (t2[(seed % 5)::5] if thorough else t2[(seed % 40)::40]):
        glist = []
        for _ in range(int(rng.integers(1, 11))):
            nm = gl[int(rng.integers(0, 9))]
            if nm in ("CNOT", "CZ"):
                c = int(rng.integers(0, 2))
                glist.append([nm, c, 1 - c])
            else:
                glist.append([nm, int(rng.integers(0, 2))])
        for rev in (False, True):
            circ.append([tab, ph, glist, rev])
    S.map("run_circuit.forward_and_reverse", circ, nontrivial=lambda x: any(g[0] in ("P", "P_dag") for g in x[2]))

    # walks
    nw = 1200 if thorough else 160
    S.map("walk.small_state", [[int(rng.integers(1, 6)), int(rng.integers(0, 2**31)), 120 if thorough else 60, 6, 0] for _ in range(nw)])
    S.map("walk.with_tensor", [[int(rng.integers(1, 4)), int(rng.integers(0, 2**31)), 60, 6, 1] for _ in range(nw // 2)]
          + [[int(rng.integers(8, 50)), int(rng.integers(0, 2**31)), 100, 60, 1] for _ in range(nw // 8)])
    large = []
    plan = ([(200, 200, 300, 24), (100, 120, 300, 40), (40, 60, 300, 80), (12, 20, 300, 160)] if thorough
            else [(198, 200, 100, 4), (100, 110, 100, 4), (40, 50, 150, 12), (12, 20, 150, 24)])  # 65..130 qubits: walk.rowsum_above_64_qubits
    for n0, nmax, steps, cnt in plan:
        for _ in range(cnt):
            large.append([n0, int(rng.integers(0, 2**31)), steps, nmax, 0])
    S.map("walk.large_valid_and_state", large, chunksize=1)

    nh = 400 if thorough else 90
    S.map("walk.rowsum_above_64_qubits",
          [[n_, int(rng.integers(2, n_ // 2)), int(rng.integers(0, 2**31)), 60 if thorough else 40]
           for n_ in (int(rng.integers(66, 131)) for _ in range(nh))], chunksize=1)
    S.map("frames.arguments_unchanged", [[int(rng.integers(1, 6)), int(rng.integers(0, 2**31))] for _ in range(1500 if thorough else 220)]
          + [[int(rng.integers(33, 71)), int(rng.integers(0, 2**31))] for _ in range(200 if thorough else 30)])
    S.map("run_circuit.stabilizer_tableau_and_large",
          [[int(rng.integers(1, 6)), int(rng.integers(0, 2**31)), bool(i % 2)] for i in range(2000 if thorough else 300)]
          + [[int(rng.integers(65, 131)), int(rng.integers(0, 2**31)), bool(i % 2)] for i in range(200 if thorough else 40)])
    S.map("Stabilizer.wrapper_history", [[int(rng.integers(1, 5)), int(rng.integers(0, 2**31)), 60, 5] for _ in range(nw // 2)])
    S.map("MixedStabilizer.wrapper_history",
          [[int(rng.integers(1, 4)), int(rng.integers(0, 2**31)), 40, 4, int(rng.integers(2, 4))] for _ in range(nw // 2)])
    S.note("reset_*: when the Z measurement inside a reset is random, graphiq overwrites the sign with the intended state, "
           "i.e. the others end in the branch 'outcome = intended_state' whatever measurement_determinism says; the "
           "contract accepts any branch of non-zero probability (see C07.findings.md, observation O1)")
    return S
