"""C10 - Every alternate-target result generates the relabelled target.   [B] run-time contract monitors.

One call of AlternateTargetSolver.solve is judged against all clauses of the statement at once (`_evaluate`), with
refsem only: the circuit is read as abstract ops (refsem.core.graphiq_ops), run on |0..0> over ALL measurement-outcome
branches that have non-zero probability (refsem.core.run_ops) and compared with  |G_T> (x) |0..0>_emitters  where
T = target with its vertices renamed by the entry's map; the listed graph must be in the BFS LC orbit of T.

The per-clause items share one solver call per input through a memo that `run` pre-fills on the process pool
(`_prefill`); a checker called without the memo (e.g. --replay) simply evaluates the input itself.

Input (JSON): [adjacency, lc_method, n_iso, n_lc, seed, sort_emit, lc_orbit_depth]     lc_method: string or null
              default-setting item: [adjacency, "setting-object" | "none", seed]
              optional 8th field {"form": ..., "twice": ..., "order": [...], constructor options}; "order" (also as optional 4th field
              of the default-setting form): the target is a networkx graph with labels 0..n-1, adjacency BY LABEL, whose nodes were
              INSERTED in that order (insertion order != sorted label order; the map and the clauses speak about LABELS)
"""
from __future__ import annotations

import itertools
import math
import multiprocessing as mp
import os
import time
import traceback
import warnings

import networkx as nx
import numpy as np

from refsem import core as R
from refsem import lc as L
from vf.bounded import Suite, jkey

from graphiq.solvers.alternate_target_solver import AlternateTargetSolver, AlternateTargetSolverSetting

S = Suite("C10")
S.max_failures_per_item = 200
_SITE = "graphiq.solvers.alternate_target_solver:AlternateTargetSolver.solve"

METHODS = [None, "lc_with_iso", "random", "random_with_iso", "random_with_rep", "depth_first", "linear", "rgs"]
CLAUSES = ("returns", "circuit", "orbit", "distinct", "frame")


def _A(a):
    return np.array(a, dtype=int).reshape(len(a), len(a))


def _is_repeater(A):
    n = len(A)
    return n >= 4 and n % 2 == 0 and L.find_isomorphism(L.repeater_graph(n // 2), A) is not None


def _is_path(A):
    n = len(A)
    return n >= 3 and L.find_isomorphism(L.path_graph(n), A) is not None


def _entry_checks(A, entries, view):
    """entries: list of (circuit, graph, map).  Returns {clause: symptom or None} for circuit / orbit / distinct."""
    n = len(A)
    res = {"circuit": None, "orbit": None, "distinct": None}
    keys = []
    for i, (circ, g, m) in enumerate(entries):
        tag = f"{view} entry {i}"
        # ---- the map must rename the vertices
        try:
            perm = [int(m[u]) for u in range(n)]
            okperm = sorted(perm) == list(range(n))
        except Exception:  # noqa: BLE001
            perm, okperm = None, False
        if not okperm:
            msg = f"{tag}: relabel map {m!r} is not a renaming of the vertices 0..{n - 1}"
            res["circuit"] = res["circuit"] or msg
            res["orbit"] = res["orbit"] or msg
            continue
        T = L.relabelled(A, perm)
        # ---- listed graph
        if not isinstance(g, nx.Graph) or sorted(g.nodes) != list(range(n)):
            res["orbit"] = res["orbit"] or f"{tag}: listed graph is not a graph on 0..{n - 1}"
        else:
            G = (nx.to_numpy_array(g, nodelist=list(range(n))) != 0).astype(int)
            keys.append(L.key(G))
            if res["orbit"] is None and not L.same_orbit(T, G):
                res["orbit"] = f"{tag}: listed graph {G.tolist()} is not in the LC orbit of the target renamed by {perm} = {T.tolist()}"
        # ---- circuit
        if res["circuit"] is None:
            res["circuit"] = _circuit_check(circ, T, perm, tag)
    if len(set(keys)) != len(keys):
        dup = [i for i, k in enumerate(keys) if keys.index(k) != i]
        res["distinct"] = f"{view}: entries {dup} list a graph that an earlier entry lists already"
    return res


def _circuit_check(circ, T, perm, tag):
    n = len(T)
    if circ.n_photons != n:
        return f"{tag}: circuit has {circ.n_photons} photons, target has {n} vertices"
    ne = circ.n_emitters
    ops = R.graphiq_ops(circ)
    ntot = n + ne
    want = R.graph_state(T)
    if ne:
        want = np.kron(want, R.ket0(ne))
    nm = len(R.measuring(ops))
    if nm > 12:
        return f"{tag}: {nm} measurements - too many branches to enumerate"
    seen = 0
    for outs in itertools.product([0, 1], repeat=nm):
        r = R.run_ops(ntot, ops, outcomes=outs)
        if r is None:
            continue
        seen += 1
        if not R.same_state(r[0], want):
            return (f"{tag}: with measurement outcomes {list(outs)} the circuit does not prepare the target renamed by {perm} "
                    f"(= {T.tolist()}) with emitters in |0>; |overlap| = {abs(np.vdot(r[0], want)):.4f}")
    if seen == 0:
        return f"{tag}: no measurement branch has non-zero probability"
    return None


FORMS = ("graph_np", "graph_np_float", "graph_plain", "qs_g", "qs_s", "qs_dm")


def _ordered_graph(A, order):
    """labels 0..n-1, adjacency A by LABEL, nodes inserted in the order `order` (g.nodes() lists `order`); no edge attributes"""
    n = len(A)
    g = nx.Graph()
    g.add_nodes_from([int(u) for u in order])
    g.add_edges_from([(i, j) for i in range(n) for j in range(i + 1, n) if A[i][j]])
    assert list(g.nodes) == [int(u) for u in order] and sorted(g.nodes) == list(range(n))
    return g


def _make_target(A, form, order=None):
    """the target handed to the solver: the same labelled graph state, constructed in different ways (vertex i = row i of A)"""
    from graphiq.state import QuantumState

    n = len(A)
    if order is not None:
        g = _ordered_graph(A, order)
        return QuantumState(g, rep_type="g") if form == "qs_g" else g
    if form == "graph_np":
        return nx.from_numpy_array(A.copy())  # edges carry integer 'weight' attributes
    if form == "graph_np_float":
        return nx.from_numpy_array(A.astype(float))
    g = nx.Graph()
    g.add_nodes_from(range(n))
    g.add_edges_from([(i, j) for i in range(n) for j in range(i + 1, n) if A[i, j]])  # no edge attributes
    if form == "graph_plain":
        return g
    if form == "qs_g":
        return QuantumState(g, rep_type="g")
    if form == "qs_s":
        from graphiq.backends.stabilizer.clifford_tableau import CliffordTableau

        table = np.zeros((2 * n, 2 * n), dtype=int)  # destabilizers Z_i, stabilizers K_i = X_i Z_N(i), built by hand
        table[:n, n:] = np.eye(n, dtype=int)
        table[n:, :n] = np.eye(n, dtype=int)
        table[n:, n:] = A
        return QuantumState(CliffordTableau(table, np.zeros(2 * n, dtype=int)), rep_type="s")
    if form == "qs_dm":
        return QuantumState(np.array(R.dm(R.graph_state(A))), rep_type="dm")
    raise ValueError(form)


def _snapshot(target):
    """a value that determines the caller's target object (for a networkx graph: nodes in order, edges, edge attributes;
    graphiq's graph representation adopts the caller's graph and annotates its NODES with an 'LC' attribute - node
    attributes are therefore not part of the frame)"""
    if isinstance(target, nx.Graph):
        return ("graph", list(target.nodes), sorted((min(u, v), max(u, v), repr(sorted(d.items()))) for u, v, d in target.edges(data=True)))
    rep = target.rep_type
    data = target.rep_data.data
    if rep == "g":
        gd = data if isinstance(data, nx.Graph) else data.data
        nodes = sorted(repr(u) for u in gd.nodes)
        edges = sorted(repr(tuple(sorted((repr(u), repr(v))))) for u, v in gd.edges)
        return ("qs", rep, nodes, edges)
    if rep == "s":
        return ("qs", rep, np.array(data.table).tolist(), np.array(data.phase).tolist())
    return ("qs", rep, np.round(np.array(data), 9).tolist())


def _solve(A, setting, seed, form="graph_np", twice=False, order=None):
    target = _make_target(A, form, order)
    before = _snapshot(target)
    solver = AlternateTargetSolver(target=target, solver_setting=setting, seed=seed)
    np.random.seed(0 if seed is None else seed)  # the "random*" orbit methods draw from the global numpy generator
    with warnings.catch_warnings():
        warnings.simplefilter("ignore")
        out = solver.solve()
        if twice:  # the same solver object once more: the second answer must be just as good
            np.random.seed(0 if seed is None else seed)
            out = solver.solve()
    solver._verif_frame = None if _snapshot(target) == before else f"the target object handed to the solver ({form}) was modified"
    return solver, out


def _judge(A, solver, out):
    res = {c: None for c in CLAUSES}
    if not isinstance(out, list) or len(out) == 0:
        res["returns"] = f"solve returned {type(out).__name__} of length {len(out) if hasattr(out, '__len__') else '?'}; at least the target itself is due"
        return res
    entries = []
    for i, e in enumerate(out):
        if not (isinstance(e, tuple) and len(e) == 2 and isinstance(e[1], dict) and "g" in e[1] and "map" in e[1]):
            res["returns"] = f"entry {i} is not (circuit, {{'g':..., 'map':...}}): {e!r}"
            return res
        entries.append((e[0], e[1]["g"], e[1]["map"]))
    res.update(_entry_checks(A, entries, "returned list"))
    res["frame"] = getattr(solver, "_verif_frame", None)
    # the same claims hold for solver.result
    sr = solver.result
    try:
        rows = list(zip(sr["circuit"], sr["g"], sr["map"]))
    except Exception as e:  # noqa: BLE001
        res["returns"] = f"solver.result has no circuit/g/map columns: {type(e).__name__}: {e}"
        return res
    if len(rows) != len(entries):
        res["returns"] = f"solver.result has {len(rows)} rows, the returned list {len(entries)} entries"
    if any(r[0] is not e[0] or r[1] is not e[1] or r[2] is not e[2] for r, e in zip(rows, entries)) or len(rows) != len(entries):
        r2 = _entry_checks(A, rows, "solver.result")
        for c in ("circuit", "orbit", "distinct"):
            res[c] = res[c] or r2[c]
    return res


def _evaluate(inp):
    """-> {clause: symptom|None}; exceptions of the solver are a failure of 'returns' unless they are the documented refusals"""
    res = {c: None for c in CLAUSES}
    try:
        order = None
        if len(inp) in (3, 4) and isinstance(inp[1], str) and inp[1] in ("setting-object", "none"):  # default-setting form
            a, how, seed = inp[:3]
            order = inp[3] if len(inp) == 4 else None
            A = _A(a)
            setting = AlternateTargetSolverSetting() if how == "setting-object" else None
            method, n_iso = "default", (10 if how == "setting-object" else 1)
        else:
            a, method, n_iso, n_lc, seed, sort_emit, depth = inp[:7]
            extra = dict(inp[7]) if len(inp) > 7 else {}
            form, twice = extra.pop("form", "graph_np"), bool(extra.pop("twice", False))
            order = extra.pop("order", None)
            A = _A(a)
            setting = AlternateTargetSolverSetting(n_iso_graphs=n_iso, n_lc_graphs=n_lc, lc_method=method, sort_emit=bool(sort_emit),
                                                   lc_orbit_depth=depth, **extra)  # extra: further constructor options (label_map, ...)
        try:
            if method == "default":
                solver, out = _solve(A, setting, seed, order=order)
            else:
                solver, out = _solve(A, setting, seed, form, twice, order)
        except AssertionError as e:
            msg = str(e)
            if "more than the maximum possible" in msg and n_iso > math.factorial(len(A)):
                return res  # iso_finder's documented guard: more labellings asked than exist
            if method == "rgs" and "not a repeater graph" in msg and not _is_repeater(A):
                return res  # the method's own guard on a target outside its family
            if method == "linear" and "not a linear graph" in msg and not _is_path(A):
                return res
            raise
        res = _judge(A, solver, out)
    except Exception as e:  # noqa: BLE001  every other exception: the setting was accepted, the solver did not deliver
        tb = traceback.format_exc(limit=5)
        res["returns"] = f"EXC {type(e).__name__}: {e} | {tb[-700:]}"
    return res


_MEMO = {}


def _clause(inp, name):
    r = _MEMO.get(jkey(inp))
    if r is None:
        r = _evaluate(inp)
    return r[name]


def _prefill(inputs):
    inputs = [i for i in inputs if jkey(i) not in _MEMO]
    procs = int(os.environ.get("VERIF_PROCS", "16"))
    t0 = time.time()
    if len(inputs) < 8 or procs <= 1:
        results = [_evaluate(i) for i in inputs]
    else:
        with mp.get_context("fork").Pool(procs) as pool:
            results = pool.map(_evaluate, inputs, 1)
    for i, r in zip(inputs, results):
        _MEMO[jkey(i)] = r
    return time.time() - t0


_BOUND = ("fixed list, seed-independent (touches known finding KF-C10-1 through the single-vertex target): ALL 43 connected labelled graphs on 2..4 vertices (+ the single vertex once) x 8 lc_method values (None, lc_with_iso, random, random_with_iso, random_with_rep, "
          "depth_first, linear, rgs) x (n_iso,n_lc) in {(1,1),(2,3),(3,2)} (quick) / {1,2,3}^2 (thorough), seed 1; + connected graphs on 5 "
          "vertices (quick: one per isomorphism class = 21, thorough: all 728) x 8 methods x (2,2); + seeds {0,2,None}, "
          "sort_emit False, lc_orbit_depth 1, n_iso above n! on a fixed sub-list; paths / repeater graphs for the two scripted methods"
          "; HARDENING (fixed): every 2nd connected 4-vertex graph x target given as nx.Graph without edge attributes / from a float matrix / "
          "QuantumState in graph, stabilizer (hand-built CliffordTableau) and density-matrix form x lc_method in {None, random_with_rep} x "
          "(n_iso,n_lc)=(3,2); 12 graphs on 5..6 vertices (7 five-vertex classes, C6, K_{3,3}, prism, S6, P6) x 6 orbit methods x n_iso=4, "
          "n_lc=3, sort_emit on/off alternating, lc_orbit_depth in {None,2,3}; solve() called twice on one solver object (10 inputs); "
          "constructor options label_map / allow_exhaustive / rel_inc_thresh / iso_thresh on {P4, C5, K4, S5} x n_iso in {2, 8} (label_map also 20; former finding KF-C10-3, repaired by 706ab41)"
          "; INSERTION ORDER (fixed): 9 targets (P4 P5 P6, trees K1,3 / 5-fork / 6-spider, C4 C5 C6 with a chord) as networkx graphs (2 of 3 plain, 1 of 3 "
          "inside a QuantumState) whose nodes were inserted in 3 orders != sorted label order (first: 0,n-1,1,..,n-2) x n_iso in {1,3}, n_lc=2, lc_method None")


@S.item("solve.returns", site=_SITE, bound=_BOUND, exhaustive=True,
        clause="for every target graph and every accepted solver setting a list of (circuit, graph, relabel map) entries is returned (also in solver.result)")
def c_returns(inp):
    return _clause(inp, "returns")


@S.item("solve.circuit_generates_relabelled_target", site=_SITE, bound=_BOUND + "; all measurement-outcome branches of every circuit", exhaustive=True,
        clause="the circuit generates exactly the target graph state with its vertices renamed by the map")
def c_circuit(inp):
    return _clause(inp, "circuit")


@S.item("solve.graph_in_orbit_of_relabelled_target", site=_SITE, bound=_BOUND, exhaustive=True,
        clause="the listed graph is LC-equivalent to that renamed target")
def c_orbit(inp):
    return _clause(inp, "orbit")


@S.item("solve.no_duplicate_graphs", site=_SITE, bound=_BOUND, exhaustive=True, clause="no two entries list the same graph")
def c_distinct(inp):
    return _clause(inp, "distinct")


@S.item("solve.target_unchanged", site=_SITE, bound=_BOUND, exhaustive=True,
        clause="(frame) the caller's target - networkx graph (nodes, edges, edge attributes) or QuantumState (representation and data) - is what it was before the call")
def c_frame(inp):
    return _clause(inp, "frame")


@S.item("solve.default_setting", site="graphiq.solvers.alternate_target_solver:AlternateTargetSolverSetting.__init__",
        bound="fixed list: default settings (AlternateTargetSolverSetting() and solver_setting=None) x {path P4, star K1,3, cycle C4, complete K4, path P5, cycle C5} x seed 1",
        exhaustive=True, clause="... every accepted solver setting, including the default one (all clauses judged on the result)")
def c_default(inp):
    r = _MEMO.get(jkey(inp)) or _evaluate(inp)
    for c in CLAUSES:
        if r[c]:
            return f"[{c}] {r[c]}"
    return None


@S.item("solve.default_setting.insertion_order", site="graphiq.solvers.alternate_target_solver:AlternateTargetSolver.solve;graphiq.utils.relabel_module:get_relabel_map",
        bound="fixed list: default settings (AlternateTargetSolverSetting() and solver_setting=None) x 9 targets (paths P4 P5 P6, trees K1,3 / "
              "5-vertex fork / 6-vertex spider, cycles C4 C5 C6 with one chord) x 3 insertion orders of the networkx nodes that differ from "
              "sorted label order and move the edge set, seed 1; solver_setting=None on all 27, AlternateTargetSolverSetting() (10 isomorphs) on the "
              "three 4-vertex targets x first 2 orders (6) (the non-default settings n_iso in {1,3} on the same targets run in the solve.* items)",
        exhaustive=True,
        clause="... including the default setting: every entry (also the single entry coming from the isomorph equal to the target) carries a map "
               "on the target's LABELS under which the circuit generates the renamed target (all clauses judged on the result)")
def c_default_order(inp):
    return c_default(inp)


def _relabel_graphs(inp):
    """-> (A1 by label, g1, g2 as handed over, label adjacency of g2 as a dict of frozenset edges, labels of g2)"""
    a, order, kind, par = inp
    A = _A(a)
    n = len(A)
    o = [int(u) for u in order]
    P = A[np.ix_(o, o)]  # adjacency of g1 by insertion position
    g1 = _ordered_graph(A, o)
    if kind in ("same_by_position", "array"):  # what solve() does: the isomorph equal to the target, rebuilt from the matrix
        Q, o2 = P, list(range(n))
    elif kind == "same_by_position_shuffled":  # g2: other labels in another insertion order, same matrix by position
        Q, o2 = P, [int(u) for u in par]
    else:  # "isomorph": vertex at position i of g1 becomes vertex par[i]
        Q, o2 = L.relabelled(P, [int(u) for u in par]), list(range(n))
    g2 = nx.Graph()
    g2.add_nodes_from(o2)
    e2 = {frozenset((o2[i], o2[j])) for i in range(n) for j in range(i + 1, n) if Q[i][j]}
    g2.add_edges_from([tuple(sorted(e)) for e in sorted(e2, key=sorted)])
    if kind == "array":
        return A, g1, np.array(Q, dtype=int), e2, o2
    return A, g1, g2, e2, o2


@S.item("get_relabel_map.edges_by_label", site="graphiq.utils.relabel_module:get_relabel_map",
        bound="g1: all connected non-complete labelled graphs on 3..4 vertices (40) + one per isomorphism class on 5 vertices (20) + P6, C6+chord, 6-spider, as "
              "networkx graphs with labels 0..n-1 in 3 fixed insertion orders != sorted order that move the edge set, x 4 kinds of g2 (756); + seeded "
              "(graph, order, kind, permutation) draws: quick 60, thorough 400; "
              "g2: the same adjacency by position rebuilt as nx.from_numpy_array would (labels 0..n-1 in order), as an ndarray, with other "
              "insertion-ordered labels, and a relabelled isomorph; the function cannot reach known finding KF-C10-1 (no solver call)",
        clause="the relabel map m of an entry renames the target's vertices: (m[u], m[v]) is an edge of g2 iff (u, v) is an edge of g1, for LABELS "
               "u, v; m is a bijection from g1's labels onto g2's; g1 and g2 are not modified")
def c_relabel_map(inp):
    from graphiq.utils.relabel_module import get_relabel_map

    A, g1, g2, e2, labels2 = _relabel_graphs(inp)
    n = len(A)
    isg = isinstance(g2, nx.Graph)
    before = (list(g1.nodes), sorted(map(sorted, g1.edges)), (list(g2.nodes), sorted(map(sorted, g2.edges))) if isg else g2.tobytes())
    m = get_relabel_map(g1, g2)
    after = (list(g1.nodes), sorted(map(sorted, g1.edges)), (list(g2.nodes), sorted(map(sorted, g2.edges))) if isg else g2.tobytes())
    if before != after:
        return "get_relabel_map modified a graph it was given"
    try:
        img = [m[u] for u in range(n)]
    except Exception:  # noqa: BLE001
        return f"map {m!r} does not map every label 0..{n - 1} of g1"
    if sorted(img) != sorted(labels2):
        return f"map {m!r} is not a bijection from g1's labels onto g2's labels {sorted(labels2)}"
    for u in range(n):
        for v in range(u + 1, n):
            if bool(A[u][v]) != (frozenset((img[u], img[v])) in e2):
                return (f"g1 (nodes inserted as {list(g1.nodes)}) {'has' if A[u][v] else 'has no'} edge ({u},{v}) but g2 "
                        f"{'has' if frozenset((img[u], img[v])) in e2 else 'has no'} edge ({img[u]},{img[v]}) under the returned map {m!r}")
    return None


# ------------------------------------------------------------------ domain
def _iso_classes(graphs):
    reps = []
    for A in graphs:
        if not any(L.find_isomorphism(B, A) is not None for B in reps):
            reps.append(A)
    return reps


def _chorded_cycle(n):
    A = L.path_graph(n)
    A[0, n - 1] = A[n - 1, 0] = 1
    A[0, 2] = A[2, 0] = 1
    return A


def _tree(n, edges):
    A = np.zeros((n, n), dtype=int)
    for i, j in edges:
        A[i, j] = A[j, i] = 1
    return A


def _orders(A, k=3):
    """k fixed insertion orders (no run seed): [0, n-1, 1, ..., n-2] first, then draws of a fixed generator; each moves the edge set"""
    A = np.array(A, dtype=int)
    n = len(A)
    rng = np.random.default_rng(1000 + n + int(A.sum()))
    out = []
    cand = [[0, n - 1] + list(range(1, n - 1))]
    while len(out) < k:
        o = cand.pop(0) if cand else [int(x) for x in rng.permutation(n)]
        if o not in out and not np.array_equal(A[np.ix_(o, o)], A):
            out.append(o)
    return out


def order_targets():
    return [L.path_graph(4), L.path_graph(5), L.path_graph(6),
            _tree(4, [(0, 1), (0, 2), (0, 3)]), _tree(5, [(0, 1), (1, 2), (1, 3), (3, 4)]), _tree(6, [(0, 1), (0, 2), (0, 3), (3, 4), (2, 5)]),
            _chorded_cycle(4), _chorded_cycle(5), _chorded_cycle(6)]


def order_inputs():
    """FIXED list (H5): targets whose networkx nodes were inserted in another order than sorted label order"""
    out, dflt = [], []
    for k, A in enumerate(order_targets()):
        for j, o in enumerate(_orders(A)):
            for n_iso in (1, 3):
                out.append([A.tolist(), None, n_iso, 2, 1, True, None, {"form": ("graph_plain", "qs_g")[(k + j) % 3 == 2], "order": o}])
            for how in ("setting-object", "none"):
                if how == "none" or (len(A) == 4 and j < 2):  # AlternateTargetSolverSetting(): 10 isomorphs, costly on 6 vertices
                    dflt.append([A.tolist(), how, 1, o])
    return out, dflt


def hardening_inputs(conn):
    """FIXED list (the same in both tiers, independent of the run seed); 8th field = {"form": ..., "twice": ..., constructor options}"""
    from refsem import cutrank as CR

    out = []
    # H5: the same target constructed differently
    for k, A in enumerate([A.tolist() for A in conn[4]][::2]):
        for form in FORMS[1:]:
            for m in (None, "random_with_rep"):
                out.append([A, m, 3, 2, 1 + k % 2, True, None, {"form": form}])
    # H6: more isomorphs, every orbit method, sort_emit on/off, deeper orbits, on 5..6 vertices
    five = [A.tolist() for A in _iso_classes(conn[5])][::3]
    six = [CR.cycle(6), CR.complete_bipartite(3, 3), CR.prism(), [[1 if (i == 0) != (j == 0) and 0 in (i, j) else 0 for j in range(6)] for i in range(6)],
           L.path_graph(6).tolist()]
    methods = [None, "lc_with_iso", "random", "random_with_iso", "random_with_rep", "depth_first"]
    for k, A in enumerate(five + six):
        for j, m in enumerate(methods):
            out.append([A, m, 4, 3, (k + j) % 3, (k + j) % 2 == 0, (None, 2, 3)[(k + j) % 3], {"form": FORMS[(k + j) % 2 * 2]}])
    # H1: the same solver object asked twice
    for k, A in enumerate([A.tolist() for A in conn[4]][1::8] + five[:5]):
        out.append([A, methods[k % len(methods)], 3, 2, k % 2, True, None, {"form": FORMS[k % len(FORMS)], "twice": True}])
    # H6: further constructor options
    def cyc(n):
        return CR.cycle(n)

    star5 = [[1 if (i == 0) != (j == 0) and 0 in (i, j) else 0 for j in range(5)] for i in range(5)]
    k4 = [[int(i != j) for j in range(4)] for i in range(4)]
    for A in (L.path_graph(4).tolist(), cyc(5), k4, star5):
        for n_iso in (2, 8):
            for opt in ({"label_map": True}, {"allow_exhaustive": True}, {"rel_inc_thresh": 0.9}, {"iso_thresh": 3}):
                out.append([A, None, n_iso, 2, 1, True, None, dict(opt, form="graph_np")])
        out.append([A, None, 20, 2, 1, True, None, {"label_map": True, "form": "graph_np"}])
    return out


def run(tier, seed):
    thorough = tier == "thorough"
    conn = {n: L.connected_graphs(n) for n in range(1, 6)}
    le4 = [A.tolist() for n in range(2, 5) for A in conn[n]]
    inputs = [[[[0]], None, 1, 1, 1, True, None]]  # the single-vertex target: one input (method None)
    pairs = [(1, 1), (2, 3), (3, 2)] if not thorough else [(i, j) for i in (1, 2, 3) for j in (1, 2, 3)]
    for a in le4:
        for m in METHODS:
            for (ni, nl) in pairs:
                inputs.append([a, m, ni, nl, 1, True, None])
    g5 = [A.tolist() for A in (conn[5] if thorough else _iso_classes(conn[5]))]
    for a in g5:
        for m in METHODS:
            inputs.append([a, m, 2, 2, 1, True, None])
    # option / seed variations on a fixed sub-list (every 3rd connected graph on 4 vertices)
    sub = [A.tolist() for A in conn[4]][::3]
    for a in sub:
        for m in (None, "lc_with_iso", "random", "depth_first"):
            for sd in (0, 2, None):
                inputs.append([a, m, 3, 3, sd, True, None])
            inputs.append([a, m, 3, 3, 1, False, None])
            inputs.append([a, m, 2, 4, 1, True, 1])
        inputs.append([a, None, 30, 2, 1, True, None])  # more isomorphs asked than labellings exist: refusal or a correct result
        inputs.append([a, None, 24, 2, 1, False, None])
    # the families of the two scripted methods, relabelled as well
    rng = np.random.default_rng(12345)  # fixed: this sub-list does not depend on the run seed
    fam = [L.path_graph(n) for n in (3, 4, 5, 6)] + [L.repeater_graph(2), L.repeater_graph(3)]
    fam += [L.relabelled(F, rng.permutation(len(F))) for F in fam]
    for F in fam:
        for m in ("linear", "rgs", None):
            inputs.append([F.tolist(), m, 2, 4, 1, True, None])
    inputs += hardening_inputs(conn)
    ord_inputs, ord_defaults = order_inputs()
    inputs += ord_inputs
    seen = set()
    uniq = []
    for i in inputs:
        k = jkey(i)
        if k not in seen:
            seen.add(k)
            uniq.append(i)
    inputs = uniq

    def P(n):
        return L.path_graph(n)

    def C(n):
        A = L.path_graph(n)
        A[0, n - 1] = A[n - 1, 0] = 1
        return A

    star = np.zeros((4, 4), dtype=int)
    star[0, 1:] = star[1:, 0] = 1
    K4 = np.ones((4, 4), dtype=int) - np.eye(4, dtype=int)
    defaults = [[G.tolist(), how, 1] for G in (P(4), star, C(4), K4, P(5), C(5)) for how in ("setting-object", "none")]

    dt = _prefill(inputs + defaults + ord_defaults)
    nontrivial = lambda i: len(i[0]) >= 3 and (i[2] > 1 or i[3] > 1)  # noqa: E731
    for name in ("solve.returns", "solve.circuit_generates_relabelled_target", "solve.graph_in_orbit_of_relabelled_target",
                 "solve.no_duplicate_graphs", "solve.target_unchanged"):
        S.map(name, inputs, nontrivial=nontrivial, procs=1)
    S.map("solve.default_setting", defaults, procs=1)
    S.map("solve.default_setting.insertion_order", ord_defaults, procs=1)
    # get_relabel_map directly
    rng = np.random.default_rng(seed)
    g1s = [A for n in (3, 4) for A in conn[n]] + _iso_classes(conn[5]) + [L.path_graph(6), _chorded_cycle(6), order_targets()[5]]
    rm = []
    for A in g1s:
        n = len(A)
        if np.array_equal(A, np.ones((n, n), dtype=int) - np.eye(n, dtype=int)):
            continue  # complete graph: every order leaves the edge set where it is
        for j, o in enumerate(_orders(A)):
            o2 = [int(x) for x in np.random.default_rng(7 * n + j).permutation(n)]
            rm += [[A.tolist(), o, "same_by_position", None], [A.tolist(), o, "array", None],
                   [A.tolist(), o, "same_by_position_shuffled", o2], [A.tolist(), o, "isomorph", o2]]
    for _ in range(400 if thorough else 60):
        A = g1s[int(rng.integers(len(g1s)))]
        n = len(A)
        kind = ("same_by_position", "array", "same_by_position_shuffled", "isomorph")[int(rng.integers(4))]
        rm.append([A.tolist(), [int(x) for x in rng.permutation(n)], kind, [int(x) for x in rng.permutation(n)]])
    S.map("get_relabel_map.edges_by_label", rm, nontrivial=lambda i: not np.array_equal(_A(i[0])[np.ix_(i[1], i[1])], _A(i[0])))
    S.items["solve.returns"].wall_s += dt  # the shared solver calls
    S.note(f"one solver call per input shared by the clause items ({len(inputs) + len(defaults)} calls, {dt:.1f}s on the pool)")
    S.note("accepted refusals: iso_finder's assert when n_iso > n!; the 'rgs' / 'linear' methods' own asserts on targets outside their family")
    S.note("global numpy generator seeded from the input's seed before each call (the random* orbit methods use np.random)")
    return S
