"""C08 bounded stand-ins [B]: conversions among graph, stabilizer and density-matrix forms preserve the state.

Contracts (from the property statement) on the REAL functions
    graphiq.backends.state_rep_conversion: graph_to_density, graph_to_stabilizer, density_to_graph, density_to_stabilizer,
        stabilizer_to_graph, stabilizer_to_density, state_to_graph
    graphiq.backends.stabilizer.functions.rep_conversion: get_stabilizer_tableau_from_graph, get_clifford_tableau_from_graph
    graphiq.backends.density_matrix.state: DensityMatrix.from_graph
    graphiq.state: QuantumState.convert_representation (all 9 ordered pairs)
Oracles (refsem, nothing from graphiq): core.graph_state (CZ on |+>^n), core.stabilizer_projector / stabilizer_state (signed
Pauli matrices), f_stab.change_generators (other generating sets of the same group; signs from the Pauli matrices),
f_stab.all_stabilizer_states (BFS), textbook H / P^dagger / Z matrices for returned gate lists.

What "denotes the state" means for a returned object:
    adjacency / nx.Graph  -> |G> = prod CZ |+>^n  (vertex i = qubit i, vertices 0..n-1)
    density matrix        -> the matrix itself
    StabilizerTableau     -> projector prod_i (1 + (-1)^{phase_i} P(x_i,z_i))/2  (signs included)
    CliffordTableau       -> same with its stabilizer half; the tableau must also be a valid (symplectic, paired) tableau

Hardening items (STRENGTHEN_BRIEF H1/H2/H5): graph_conversions.input_forms_repeat_frames (weighted / attributed networkx
graphs, int / float matrices), density_conversions.input_forms_repeat_frames (dtype / memory layout),
stabilizer_conversions.repeat_frames, convert_representation.chains_copies (chains of conversions, alias names, copies) -
every conversion twice on the same object, arguments bit-for-bit unchanged; graph_conversions.insertion_order (networkx
graphs whose nodes were inserted in another order than sorted label order: every graph entry point must use ONE qubit
numbering, the k-th inserted node = qubit k); their domains are restricted by construction
to the classes the known findings cannot reach (canonical or validate=False / + signs / qubit 0 with X / mixed=False).

Where the unchanged tree fails a clause for a whole, describable class of inputs, that class is driven by its own item so
that (a) the rest of the domain stays a must-pass item and (b) the failing class stays visible (see C08.findings.md).
"""
from __future__ import annotations

import numpy as np

from refsem import core, f_stab
from vf.bounded import Suite

S = Suite("C08")
ATOL = 1e-9

GATE = {"H": core.H, "P_dag": core.PD, "Z": core.Z, "P": core.P, "X": core.X, "Y": core.Y}


# ------------------------------------------------------------------ helpers
def _nx():
    import networkx as nx

    return nx


def _graph_dm(adj):
    return core.dm(core.graph_state(np.array(adj, dtype=int)))


def _nxgraph(adj):
    nx = _nx()
    A = np.array(adj, dtype=int)
    g = nx.Graph()
    g.add_nodes_from(range(len(A)))
    for i in range(len(A)):
        for j in range(i + 1, len(A)):
            if A[i, j]:
                g.add_edge(i, j)
    return g


def _adj_of(obj, n):
    """adjacency matrix (vertex order 0..n-1) of a returned graph-like object, or a symptom string"""
    nx = _nx()
    if hasattr(obj, "data") and not isinstance(obj, np.ndarray) and not isinstance(obj, nx.Graph):
        obj = obj.data
    if isinstance(obj, nx.Graph):
        if sorted(obj.nodes()) != list(range(n)):
            return f"graph has vertices {sorted(obj.nodes())}, expected 0..{n - 1}"
        return nx.to_numpy_array(obj, nodelist=list(range(n)), weight=None).astype(int)
    A = np.asarray(obj)
    if A.shape != (n, n):
        return f"adjacency of shape {A.shape}, expected {(n, n)}"
    if not np.all((A == 0) | (A == 1)):
        return "adjacency is not a 0/1 matrix"
    return A.astype(int)


def _stab_tab_dm(tab):
    from graphiq.backends.stabilizer.tableau import StabilizerTableau

    if not isinstance(tab, StabilizerTableau):
        return f"expected a StabilizerTableau, got {type(tab).__name__}"
    return core.stabilizer_projector(np.array(tab.x_matrix), np.array(tab.z_matrix), np.array(tab.phase))


def _cliff_tab_dm(tab, n):
    from graphiq.backends.stabilizer.clifford_tableau import CliffordTableau

    if not isinstance(tab, CliffordTableau):
        return f"expected a CliffordTableau, got {type(tab).__name__}"
    if not core.clifford_valid(np.array(tab.table), n):
        return "returned Clifford tableau is not a valid (symplectic, paired) tableau"
    return core.stabilizer_projector(np.array(tab.stabilizer_x), np.array(tab.stabilizer_z), np.array(tab.phase)[n:])


def _cmp_dm(got, want, what):
    if isinstance(got, str):
        return got
    got = np.asarray(got)
    if got.shape != want.shape:
        return f"{what}: shape {got.shape}, expected {want.shape}"
    if not np.allclose(got, want, atol=ATOL, rtol=0):
        ov = float(np.real(np.trace(got @ want)))
        return f"{what}: does not denote the expected state (Tr(got.want)={ov:.6f}, Tr(got)={np.real(np.trace(got)):.6f})"
    return None


def _mk_tab(rows):
    from graphiq.backends.stabilizer.tableau import StabilizerTableau

    xm, zm, ph = f_stab.rows_to_arrays(rows)
    return StabilizerTableau([xm, zm], ph)


def _mk_cliff(full_rows):
    from graphiq.backends.stabilizer.clifford_tableau import CliffordTableau

    t, p = f_stab.full_rows_to_table(full_rows)
    return CliffordTableau(t, p)


def _rows_json(rows):
    return [[list(map(int, x)), list(map(int, z)), int(r)] for (x, z, r) in rows]


# ------------------------------------------------------------------ graph -> dm / stabilizer
@S.item("graph_to_density.state", site="graphiq.backends.state_rep_conversion:graph_to_density",
        bound="all labelled graphs n<=4 (75; thorough n<=5: 1099) x input as nx.Graph / adjacency ndarray / one-element "
              "mixture list / DensityMatrix.from_graph",
        exhaustive=True,
        clause="for every graph the graph-to-density-matrix conversion produces the graph state |G>")
def g2dm(inp):
    import graphiq.backends.state_rep_conversion as rc

    adj, form = inp
    want = _graph_dm(adj)
    A = np.array(adj, dtype=int)
    if form == "nx":
        got = rc.graph_to_density(_nxgraph(adj))
    elif form == "array":
        A0 = A.copy()
        got = rc.graph_to_density(A)
        if not np.array_equal(A, A0):
            return "graph_to_density changed the adjacency matrix it was given"
    elif form == "list":
        got = rc.graph_to_density([(1.0, _nxgraph(adj))])
    else:
        from graphiq.backends.density_matrix.state import DensityMatrix

        got = DensityMatrix.from_graph(_nxgraph(adj)).data
    return _cmp_dm(got, want, f"graph_to_density[{form}]")


@S.item("graph_to_stabilizer.state", site="graphiq.backends.state_rep_conversion:graph_to_stabilizer",
        bound="all labelled graphs n<=4 (thorough n<=5) x {graph_to_stabilizer(nx), graph_to_stabilizer(ndarray), "
              "get_stabilizer_tableau_from_graph, get_clifford_tableau_from_graph}",
        exhaustive=True,
        clause="for every graph the graph-to-stabilizer conversion produces the graph state |G>")
def g2s(inp):
    import graphiq.backends.state_rep_conversion as rc
    import graphiq.backends.stabilizer.functions.rep_conversion as src

    adj, form = inp
    n = len(adj)
    want = _graph_dm(adj)
    if form in ("nx", "array"):
        out = rc.graph_to_stabilizer(_nxgraph(adj) if form == "nx" else np.array(adj, dtype=int))
        if not (isinstance(out, list) and len(out) == 1 and len(out[0]) == 2):
            return f"graph_to_stabilizer returned {type(out).__name__}, expected [(1.0, StabilizerTableau)]"
        if out[0][0] != 1.0:
            return f"weight {out[0][0]!r}, expected 1.0"
        return _cmp_dm(_stab_tab_dm(out[0][1]), want, f"graph_to_stabilizer[{form}]")
    if form == "tab_from_graph":
        return _cmp_dm(_stab_tab_dm(src.get_stabilizer_tableau_from_graph(_nxgraph(adj))), want, form)
    return _cmp_dm(_cliff_tab_dm(src.get_clifford_tableau_from_graph(_nxgraph(adj)), n), want, form)


# ------------------------------------------------------------------ dm -> graph / stabilizer
@S.item("density_to_graph.recover", site="graphiq.backends.state_rep_conversion:density_to_graph",
        bound="all labelled graphs n<=4 (thorough n<=5): |G><G| built by refsem -> density_to_graph (validate default) and "
              "density_to_stabilizer",
        exhaustive=True,
        clause="density-matrix-to-graph recovers G from |G>")
def dm2g(inp):
    import graphiq.backends.state_rep_conversion as rc

    adj, form = inp
    n = len(adj)
    rho = _graph_dm(adj)
    rho0 = rho.copy()
    if form == "graph":
        out = rc.density_to_graph(rho)
        if isinstance(out, list):
            return "density_to_graph returned a mixture for a pure graph state"
        B = _adj_of(out, n)
        if isinstance(B, str):
            return B
        if not np.array_equal(B, np.array(adj, dtype=int)):
            return f"recovered adjacency {B.tolist()} != {adj}"
    else:
        out = rc.density_to_stabilizer(rho)
        if not (isinstance(out, list) and len(out) == 1):
            return f"density_to_stabilizer returned {type(out).__name__} of length {len(out) if isinstance(out, list) else '-'}"
        r = _cmp_dm(_stab_tab_dm(out[0][1]), rho0, "density_to_stabilizer")
        if r:
            return r
    if not np.array_equal(rho, rho0):
        return "the input density matrix was modified"
    return None


# ------------------------------------------------------------------ stabilizer -> graph / dm (any generating set)
def _s2g(inp):
    import graphiq.backends.state_rep_conversion as rc

    adj, M, validate, form = inp
    n = len(adj)
    rows = f_stab.change_generators(f_stab.graph_rows(adj), M)
    tab = _mk_tab(rows)
    t0, p0 = np.array(tab.table).copy(), np.array(tab.phase).copy()
    arg = tab if form == "tableau" else [(1.0, tab)]
    out = rc.stabilizer_to_graph(arg) if validate is None else rc.stabilizer_to_graph(arg, validate=validate)
    if not (isinstance(out, list) and len(out) == 1 and len(out[0]) == 2):
        return f"stabilizer_to_graph returned {out!r:.80}"
    B = _adj_of(out[0][1], n)
    if isinstance(B, str):
        return B
    if not np.array_equal(B, np.array(adj, dtype=int)):
        return f"recovered adjacency {B.tolist()} != {adj}"
    if not (np.array_equal(tab.table, t0) and np.array_equal(tab.phase, p0)):
        return "the input tableau was modified"
    return None


S.item("stabilizer_to_graph.recover.canonical_generators", site="graphiq.backends.state_rep_conversion:stabilizer_to_graph",
       bound="all labelled graphs n<=4 (thorough n<=5), generators K_i = X_i Z_N(i) in vertex order, default arguments "
             "(validate=True), tableau and one-element-list inputs",
       exhaustive=True,
       clause="stabilizer-to-graph recovers G from |G>")(_s2g)
S.item("stabilizer_to_graph.recover.other_generators", site="graphiq.backends.state_rep_conversion:stabilizer_to_graph",
       bound="fixed sample, seed-independent (touches known finding C08-F1): 18 evenly spaced of the 1346 (graph n<=3, generating "
             "set != canonical) pairs; row products, signs included; default arguments (validate=True)",
       clause="stabilizer-to-graph recovers G from |G> presented in any generating set")(_s2g)
S.item("stabilizer_to_graph.recover.any_generators_novalidate", site="graphiq.backends.state_rep_conversion:stabilizer_to_graph,_graph_finder",
       bound="graphs n<=3 x all of GL(n,2) (exhaustive), sampled generating sets for n=4 (thorough also n=5), validate=False",
       clause="stabilizer-to-graph recovers G from |G> presented in any generating set")(_s2g)


def _s2dm(inp):
    import graphiq.backends.state_rep_conversion as rc

    adj, M, form = inp
    rows = f_stab.change_generators(f_stab.graph_rows(adj), M)
    tab = _mk_tab(rows)
    want = _graph_dm(adj)
    if form == "tableau":
        got = rc.stabilizer_to_density(tab)
    else:
        got = rc.stabilizer_to_density([(1.0, tab)])
    if got is None:
        return "stabilizer_to_density returned None"
    return _cmp_dm(got, want, f"stabilizer_to_density[{form}]")


S.item("stabilizer_to_density.graph_state.plus_signs", site="graphiq.backends.state_rep_conversion:stabilizer_to_density",
       bound="graphs n<=3 x all generating sets whose signs are all + (n=4 sampled), tableau and mixture-list inputs",
       clause="conversions preserve the state (stabilizer -> density matrix of a graph state in any generating set)")(_s2dm)
S.item("stabilizer_to_density.graph_state.with_minus_signs", site="graphiq.backends.state_rep_conversion:stabilizer_to_density,_stabilizer_to_density_pure",
       bound="fixed sample, seed-independent (touches known finding C08-F2): 18 evenly spaced of the (graph n<=3, generating set) "
             "pairs that contain a generator with sign - (e.g. K1K2K3 = -XXX of the triangle)",
       clause="conversions preserve the state (stabilizer -> density matrix of a graph state in any generating set)")(_s2dm)


# ------------------------------------------------------------------ state_to_graph
def _run_gates(v, n, gate_list):
    for g in gate_list:
        if not (isinstance(g, (tuple, list)) and len(g) == 2 and g[0] in GATE):
            return None, f"unknown gate entry {g!r}"
        q = int(g[1])
        if not 0 <= q < n:
            return None, f"gate {g!r} addresses a qubit outside 0..{n - 1}"
        v = core.apply1(v, n, q, GATE[g[0]])
    return v, None


def _s2graph(inp):
    import graphiq.backends.state_rep_conversion as rc

    n, full_rows, form = inp
    full_rows = [(x, z, r) for x, z, r in full_rows]
    stab_rows = full_rows[n:]
    xm, zm, ph = f_stab.rows_to_arrays(stab_rows)
    v = core.stabilizer_state(xm, zm, ph)
    assert v is not None, "checker input is not a stabilizer state"
    arg = _mk_tab(stab_rows) if form == "stabilizer" else _mk_cliff(full_rows)
    t0, p0 = np.array(arg.table).copy(), np.array(arg.phase).copy()
    out = rc.state_to_graph(arg)
    if not (isinstance(out, tuple) and len(out) == 3):
        return f"state_to_graph returned {type(out).__name__}, expected (graph, tableau, gate_list)"
    graph, tab, gates = out
    B = _adj_of(graph, n)
    if isinstance(B, str):
        return B
    if not np.array_equal(B, B.T) or np.any(np.diag(B)):
        return f"returned graph is not simple: {B.tolist()}"
    if not isinstance(gates, list):
        return f"gate list is {type(gates).__name__}"
    w, err = _run_gates(v, n, gates)
    if err:
        return err
    if not core.same_state(w, core.graph_state(B)):
        # say whether it is only a sign problem
        P = core.dm(w)
        x2, z2 = np.eye(n, dtype=int), B
        signs = [int(round(float(np.real(np.trace(P @ core.pauli(x2[i], z2[i])))))) for i in range(n)]
        return (f"gates {gates} do not map the input state onto |graph> {B.tolist()} "
                f"(expectation of K_i on the mapped state: {signs})")
    r = _cmp_dm(_stab_tab_dm(tab), core.dm(v), "returned input-state tableau")
    if r:
        return r
    if not (np.array_equal(arg.table, t0) and np.array_equal(arg.phase, p0)):
        return "the input tableau was modified"
    return None


S.item("state_to_graph.gates.qubit0_has_x", site="graphiq.backends.state_rep_conversion:state_to_graph,_graph_finder,_position_finder,_phase_correction",
       bound="all stabilizer states n<=2 in every ordered generating set (signs included) in which some generator acts with "
             "X or Y on qubit 0, as StabilizerTableau and as complete CliffordTableau; seeded sample for n=3 (thorough n=4)",
       clause="for every stabilizer state state_to_graph returns a graph and single-qubit Clifford gates that map the input "
              "state exactly, signs included, onto that graph's state")(_s2graph)
S.item("state_to_graph.gates.qubit0_z_eigenstate", site="graphiq.backends.state_rep_conversion:state_to_graph,_position_finder",
       bound="fixed sample, seed-independent (touches known finding C08-F3): 18 evenly spaced of the n<=2 (state, generating set, "
             "input type) triples in which no generator acts with X or Y on qubit 0 (qubit 0 is |0> or |1>)",
       clause="for every stabilizer state state_to_graph returns a graph and single-qubit Clifford gates ...")(_s2graph)


def _s2graph_graphinput(inp):
    import graphiq.backends.state_rep_conversion as rc

    adj, form = inp
    n = len(adj)
    A = np.array(adj, dtype=int)
    v = core.graph_state(A)
    out = rc.state_to_graph(_nxgraph(adj) if form == "nx" else A.copy())
    if not (isinstance(out, tuple) and len(out) == 3):
        return f"state_to_graph returned {type(out).__name__}"
    graph, tab, gates = out
    B = _adj_of(graph, n)
    if isinstance(B, str):
        return B
    if not isinstance(gates, list):
        return f"third component (gate list) is a {type(gates).__name__}; documented return is (graph, tableau, gate_list)"
    w, err = _run_gates(v, n, gates)
    if err:
        return err
    if not core.same_state(w, core.graph_state(B)):
        return f"gates {gates} do not map |G> onto |graph> {B.tolist()}"
    return _cmp_dm(_stab_tab_dm(tab), core.dm(v), "second component (input-state tableau)")


S.item("state_to_graph.graph_input.nx", site="graphiq.backends.state_rep_conversion:state_to_graph",
       bound="all labelled graphs n<=4 given as networkx graphs", exhaustive=True,
       clause="state_to_graph returns a graph together with gates mapping the input state onto that graph's state")(_s2graph_graphinput)
S.item("state_to_graph.graph_input.adjacency", site="graphiq.backends.state_rep_conversion:state_to_graph",
       bound="fixed list, seed-independent (touches known finding C08-F4): all labelled graphs n<=3 given as adjacency matrices", exhaustive=True,
       clause="state_to_graph returns a graph together with gates mapping the input state onto that graph's state")(_s2graph_graphinput)


# ------------------------------------------------------------------ QuantumState.convert_representation
def _mk_qstate(adj, rep, mixed, M=None):
    from graphiq.state import QuantumState

    A = np.array(adj, dtype=int)
    if rep == "g":
        return QuantumState(_nxgraph(adj), rep_type="g", mixed=mixed)
    if rep == "dm":
        return QuantumState(_graph_dm(adj), rep_type="dm", mixed=mixed)
    full = f_stab.graph_full_rows(A)
    if M is not None:
        full = f_stab.change_generators_full(full, M)
    ct = _mk_cliff(full)
    return QuantumState([(1.0, ct)] if mixed else ct, rep_type="s", mixed=mixed)


def _qstate_dm(q, n):
    """density matrix denoted by the representation a QuantumState holds (or a symptom string)"""
    from graphiq.backends.density_matrix.state import DensityMatrix
    from graphiq.backends.graph.state import Graph
    from graphiq.backends.stabilizer.state import MixedStabilizer, Stabilizer

    r = q.rep_data
    t = q.rep_type
    if t == "dm":
        if not isinstance(r, DensityMatrix):
            return f"rep_type 'dm' but rep_data is {type(r).__name__}"
        return np.asarray(r.data)
    if t == "g":
        if not isinstance(r, Graph):
            return f"rep_type 'g' but rep_data is {type(r).__name__}"
        B = _adj_of(r.data, n)
        return B if isinstance(B, str) else _graph_dm(B)
    if t == "s":
        if isinstance(r, MixedStabilizer):
            tot = None
            for p, tab in r.mixture:
                d = _cliff_tab_dm(tab, n)
                if isinstance(d, str):
                    return d
                tot = p * d if tot is None else tot + p * d
            return tot
        if isinstance(r, Stabilizer):
            return _cliff_tab_dm(r.data, n)
        return f"rep_type 's' but rep_data is {type(r).__name__}"
    return f"unexpected rep_type {t!r}"


def _convert(inp):
    adj, a, b, mixed, M = inp
    n = len(adj)
    want = _graph_dm(adj)
    q = _mk_qstate(adj, a, bool(mixed), M)
    pre = _qstate_dm(q, n)
    assert not isinstance(pre, str) and np.allclose(pre, want, atol=ATOL), f"checker built a wrong {a} state: {pre!r:.80}"
    q.convert_representation(b)
    if q.rep_type != b:
        return f"rep_type is {q.rep_type!r} after convert_representation({b!r})"
    if q.n_qubits != n:
        return f"n_qubits became {q.n_qubits}"
    return _cmp_dm(_qstate_dm(q, n), want, f"QuantumState {a}->{b}")


_PAIRS = [(a, b) for a in ("g", "s", "dm") for b in ("g", "s", "dm")]
for _a, _b in _PAIRS:
    S.item(f"convert_representation.{_a}_to_{_b}", site="graphiq.state:QuantumState.convert_representation",
           bound="all labelled graphs n<=4 (thorough n<=5); the graph state held as "
                 + {"g": "networkx graph", "s": "Stabilizer (complete Clifford tableau, generators K_i, destabilizers Z_i)",
                    "dm": "density matrix"}[_a] + "; mixed=False",
           exhaustive=True,
           clause=f"changing the representation held by a QuantumState ({_a} -> {_b}) does not change the state of a graph state")(_convert)
for _a, _b in [(a, b) for a in ("s", "dm") for b in ("s", "dm")]:
    S.item(f"convert_representation.mixed_flag.{_a}_to_{_b}", site="graphiq.state:QuantumState.convert_representation",
           bound="all labelled graphs n<=4; QuantumState created with mixed=True (what a noise-simulating compiler returns)",
           exhaustive=True,
           clause=f"changing the representation held by a QuantumState ({_a} -> {_b}, mixed flag set) does not change the state of a graph state")(_convert)
S.item("convert_representation.mixed_flag.to_g", site="graphiq.state:QuantumState.convert_representation,_stabilizer_to_graph,_density_to_graph",
       bound="fixed list, seed-independent (touches known finding C08-F6): all labelled graphs n<=2 x source in {s, dm}; "
             "QuantumState created with mixed=True",
       exhaustive=True,
       clause="changing the representation held by a QuantumState (-> g, mixed flag set) does not change the state of a graph state")(_convert)
S.item("convert_representation.s_other_generators.plus_signs", site="graphiq.state:QuantumState.convert_representation",
       bound="graphs n<=3 x generating sets (all of GL(n,2) minus identity) with all signs +, target in {dm, s}; complete valid "
             "Clifford tableau (destabilizers transformed by M^-T)",
       clause="changing the representation (s -> dm/s) does not change the state of a graph state held in another generating set")(_convert)
S.item("convert_representation.s_other_generators.with_minus_signs", site="graphiq.state:QuantumState.convert_representation,_stabilizer_to_density",
       bound="fixed sample, seed-independent (touches known finding C08-F2): 18 evenly spaced of the (graph n<=3, generating set with "
             "a - sign) pairs, target dm",
       clause="changing the representation (s -> dm) does not change the state of a graph state held in another generating set")(_convert)


# ------------------------------------------------------------------ hardening: input forms (H5), frames (H2), repeated use (H1)
GRAPH_FORMS = ("nx_weighted", "nx_weighted_float", "nx_attr_edges", "array_int", "array_float")


def _graph_form(adj, form):
    """the same graph (vertices 0..n-1 in order) built another way"""
    nx = _nx()
    A = np.array(adj, dtype=int)
    if form == "nx_weighted":  # what nx.from_numpy_array produces: every edge carries weight=1
        return nx.from_numpy_array(A)
    if form == "nx_weighted_float":
        return nx.from_numpy_array(A.astype(float))
    if form == "nx_attr_edges":  # edges added in reverse order with unrelated attributes, nodes with attributes
        g = nx.Graph()
        for i in range(len(A)):
            g.add_node(i, label=f"q{i}")
        for i in reversed(range(len(A))):
            for j in reversed(range(i + 1, len(A))):
                if A[i, j]:
                    g.add_edge(j, i, color="red")
        return g
    if form == "array_int":
        return A.copy()
    if form == "array_float":
        return A.astype(float)
    raise ValueError(form)


def _graph_snapshot(g):
    import copy

    if isinstance(g, np.ndarray):
        return (g.dtype.str, g.shape, g.tobytes())
    return (copy.deepcopy(list(g.nodes(data=True))), copy.deepcopy(sorted((min(a, b), max(a, b), sorted(d.items())) for a, b, d in g.edges(data=True))))


@S.item("graph_conversions.input_forms_repeat_frames", site="graphiq.backends.state_rep_conversion:graph_to_density,graph_to_stabilizer",
        bound="all labelled graphs n<=4 (thorough n<=5) x the same graph built as nx.from_numpy_array of an int / float matrix "
              "(weight attributes), nx.Graph with node / edge attributes and edges added in reverse order, int / float adjacency "
              "ndarray: graph_to_density, graph_to_stabilizer, get_stabilizer_tableau_from_graph, get_clifford_tableau_from_graph, "
              "DensityMatrix.from_graph, state_to_graph (networkx forms), QuantumState g -> dm and g -> s; every function called "
              "twice on the SAME input object",
        exhaustive=True,
        clause="for every graph - however it was built - the conversions produce |G>; they do not modify the graph / matrix "
               "they are given, and a second conversion of the same object gives the same state")
def graph_forms(inp):
    import graphiq.backends.state_rep_conversion as rc
    import graphiq.backends.stabilizer.functions.rep_conversion as src
    from graphiq.backends.density_matrix.state import DensityMatrix

    adj, form = inp
    n = len(adj)
    want = _graph_dm(adj)
    g = _graph_form(adj, form)
    snap = _graph_snapshot(g)
    is_nx = not isinstance(g, np.ndarray)
    calls = [("graph_to_density", lambda: rc.graph_to_density(g), lambda o: o),
             ("graph_to_stabilizer", lambda: rc.graph_to_stabilizer(g),
              lambda o: _stab_tab_dm(o[0][1]) if isinstance(o, list) and len(o) == 1 and o[0][0] == 1.0 else f"returned {o!r:.60}"),
             ("graph_to_density[list]", lambda: rc.graph_to_density([(0.25, g), (0.75, g)]), lambda o: o)]
    if is_nx:
        calls += [("get_stabilizer_tableau_from_graph", lambda: src.get_stabilizer_tableau_from_graph(g), _stab_tab_dm),
                  ("get_clifford_tableau_from_graph", lambda: src.get_clifford_tableau_from_graph(g), lambda o: _cliff_tab_dm(o, n)),
                  ("DensityMatrix.from_graph", lambda: DensityMatrix.from_graph(g).data, lambda o: o)]
    for rnd in (1, 2):
        for name, call, denote in calls:
            out = call()
            r = _cmp_dm(denote(out), want, f"{name}[{form}] call {rnd}")
            if r:
                return r
            if _graph_snapshot(g) != snap:
                return f"{name}[{form}] modified the graph it was given"
        if is_nx:
            out = rc.state_to_graph(g)
            if not (isinstance(out, tuple) and len(out) == 3 and isinstance(out[2], list)):
                return f"state_to_graph[{form}] returned {out!r:.60}"
            B = _adj_of(out[0], n)
            if isinstance(B, str):
                return B
            w, err = _run_gates(core.graph_state(np.array(adj, dtype=int)), n, out[2])
            if err or not core.same_state(w, core.graph_state(B)):
                return f"state_to_graph[{form}] call {rnd}: gates {out[2]} do not map |G> onto |graph> {B.tolist()}"
            r = _cmp_dm(_stab_tab_dm(out[1]), want, f"state_to_graph[{form}] tableau")
            if r:
                return r
            if _graph_snapshot(g) != snap:
                return f"state_to_graph[{form}] modified the graph it was given"
    if is_nx:
        from graphiq.state import QuantumState

        for b in ("dm", "s"):
            q = QuantumState(_graph_form(adj, form), rep_type="g")
            q.convert_representation(b)
            r = _cmp_dm(_qstate_dm(q, n), want, f"QuantumState({form}) g->{b}")
            if r:
                return r
    return None


@S.item("density_conversions.input_forms_repeat_frames", site="graphiq.backends.state_rep_conversion:density_to_graph,density_to_stabilizer",
        bound="all labelled graphs n<=4 (thorough: n<=4 too; n=5 is 32x32) x |G><G| handed over as complex128, float64, Fortran-ordered "
              "and strided-view arrays: density_to_graph (validate default and False) and density_to_stabilizer, each twice on "
              "the same array; QuantumState dm -> g, dm -> s",
        exhaustive=True,
        clause="density-matrix-to-graph recovers G from |G> whatever the dtype / memory layout of the matrix, does not modify "
               "it, and does so again on a second call")
def density_forms(inp):
    import graphiq.backends.state_rep_conversion as rc
    from graphiq.state import QuantumState

    adj, form = inp
    n = len(adj)
    want = _graph_dm(adj)
    if form == "complex":
        rho = np.array(want, dtype=complex)
    elif form == "real":
        rho = np.array(np.real(want), dtype=float)
    elif form == "fortran":
        rho = np.asfortranarray(np.array(want, dtype=complex))
    else:
        big = np.zeros((2 * len(want), 2 * len(want)), dtype=complex)
        big[1::2, 1::2] = want
        rho = big[1::2, 1::2]
    snap = (rho.dtype.str, np.ascontiguousarray(rho).tobytes())
    A = np.array(adj, dtype=int)
    for rnd in (1, 2):
        for val in (None, False):
            out = rc.density_to_graph(rho) if val is None else rc.density_to_graph(rho, validate=False)
            if isinstance(out, list):
                return f"density_to_graph[{form}] returned a mixture for a pure graph state"
            B = _adj_of(out, n)
            if isinstance(B, str):
                return B
            if not np.array_equal(B, A):
                return f"density_to_graph[{form}] call {rnd}: recovered {B.tolist()} != {adj}"
        out = rc.density_to_stabilizer(rho)
        if not (isinstance(out, list) and len(out) == 1):
            return f"density_to_stabilizer[{form}] returned {out!r:.60}"
        r = _cmp_dm(_stab_tab_dm(out[0][1]), want, f"density_to_stabilizer[{form}] call {rnd}")
        if r:
            return r
        if (rho.dtype.str, np.ascontiguousarray(rho).tobytes()) != snap:
            return f"a conversion modified the density matrix it was given ({form})"
    for b in ("g", "s"):
        q = QuantumState(np.array(rho), rep_type="dm")
        q.convert_representation(b)
        r = _cmp_dm(_qstate_dm(q, n), want, f"QuantumState(dm {form}) -> {b}")
        if r:
            return r
    return None


@S.item("stabilizer_conversions.repeat_frames", site="graphiq.backends.state_rep_conversion:stabilizer_to_graph,stabilizer_to_density,state_to_graph",
        bound="graphs n<=3 x every generating set (GL(n,2)): stabilizer_to_graph(validate=False) on the SAME StabilizerTableau twice, "
              "as tableau and as one-element list; for generating sets with + signs only (known finding C08-F2 cannot show) also "
              "stabilizer_to_density twice; state_to_graph twice on the same StabilizerTableau / CliffordTableau for generating "
              "sets in which qubit 0 carries an X or Y (C08-F3 cannot show)",
        clause="stabilizer-to-graph / -density / state_to_graph give the same, correct answer on every call and leave the tableau "
               "(table, phase) bit-for-bit unchanged")
def stab_repeat(inp):
    import graphiq.backends.state_rep_conversion as rc

    adj, M = inp
    n = len(adj)
    A = np.array(adj, dtype=int)
    rows = f_stab.change_generators(f_stab.graph_rows(adj), M)
    tab = _mk_tab(rows)
    t0, p0 = np.array(tab.table).copy(), np.array(tab.phase).copy()
    want = _graph_dm(adj)
    plus = not any(r for (_, _, r) in rows)
    for rnd in (1, 2):
        for arg in (tab, [(1.0, tab)]):
            out = rc.stabilizer_to_graph(arg, validate=False)
            if not (isinstance(out, list) and len(out) == 1 and len(out[0]) == 2):
                return f"stabilizer_to_graph returned {out!r:.80}"
            B = _adj_of(out[0][1], n)
            if isinstance(B, str):
                return B
            if not np.array_equal(B, A):
                return f"call {rnd}: recovered adjacency {B.tolist()} != {adj}"
        if plus:
            r = _cmp_dm(rc.stabilizer_to_density(tab), want, f"stabilizer_to_density call {rnd}")
            if r:
                return r
        if not (np.array_equal(tab.table, t0) and np.array_equal(tab.phase, p0)):
            return f"call {rnd}: the input tableau was modified"
    full = f_stab.change_generators_full(f_stab.graph_full_rows(A), M)
    if any(r[0][0] for r in full[n:]):
        v = core.graph_state(A)
        for arg in (_mk_tab(full[n:]), _mk_cliff(full)):
            a0, b0 = np.array(arg.table).copy(), np.array(arg.phase).copy()
            for rnd in (1, 2):
                out = rc.state_to_graph(arg)
                if not (isinstance(out, tuple) and len(out) == 3 and isinstance(out[2], list)):
                    return f"state_to_graph returned {out!r:.60}"
                B = _adj_of(out[0], n)
                if isinstance(B, str):
                    return B
                w, err = _run_gates(v, n, out[2])
                if err:
                    return err
                if not core.same_state(w, core.graph_state(B)):
                    return f"state_to_graph({type(arg).__name__}) call {rnd}: gates {out[2]} do not map the state onto |graph> {B.tolist()}"
                if not (np.array_equal(arg.table, a0) and np.array_equal(arg.phase, b0)):
                    return f"state_to_graph({type(arg).__name__}) call {rnd}: the input tableau was modified"
    return None


REP_ALIAS = {"g": ["g", "graph"], "s": ["s", "stab", "stabilizer"], "dm": ["dm", "density matrix"]}
CHAINS = [["dm", "dm", "s", "s", "g", "g", "dm"], ["s", "g", "s", "dm", "g", "dm", "s"], ["g", "dm", "s", "dm", "s", "g", "s"],
          ["s", "dm", "g", "s", "g", "dm", "dm"], ["dm", "g", "dm", "g", "s", "s", "dm"], ["g", "g", "s", "g", "dm", "s", "g"]]


@S.item("convert_representation.chains_copies", site="graphiq.state:QuantumState.convert_representation",
        bound="all labelled graphs n<=4 x start representation {g, s, dm} x 6 fixed chains of 7 conversions over {g,s,dm} (every "
              "ordered pair occurs, also immediately repeated targets; representation names also by their aliases 'graph', 'stab', "
              "'stabilizer', 'density matrix'); mixed=False, canonical generators (so known findings C08-F1/F2/F6 cannot show); the "
              "state is checked after EVERY step; a copy() taken before the chain must stay as it was and give the same result "
              "when sent through the same chain afterwards",
        exhaustive=True,
        clause="changing the representation, for every ordered pair and any number of times in a row, does not change the state of a "
               "graph state")
def chains(inp):
    adj, a, ci = inp
    n = len(adj)
    want = _graph_dm(adj)
    q = _mk_qstate(adj, a, False, None)
    twin = q.copy()
    chain = CHAINS[ci]
    for rnd, obj in ((1, q), (2, twin)):
        if rnd == 2:
            # the copy was not touched by the first object's conversions
            if twin.rep_type != a:
                return f"copy() taken before the chain changed its representation to {twin.rep_type!r}"
            r = _cmp_dm(_qstate_dm(twin, n), want, "copy() taken before the chain")
            if r:
                return r
        for k, b in enumerate(chain):
            name = REP_ALIAS[b][(k + ci + rnd) % len(REP_ALIAS[b])]
            src_rep = obj.rep_type
            obj.convert_representation(name)
            if obj.rep_type != b:
                return f"step {k} ({src_rep}->{name}): rep_type is {obj.rep_type!r}"
            r = _cmp_dm(_qstate_dm(obj, n), want, f"chain {chain[:k + 1]} from {a} (object {rnd}), step {k} {src_rep}->{b}")
            if r:
                return r
            if obj.n_qubits != n:
                return f"step {k}: n_qubits became {obj.n_qubits}"
    return None


# ------------------------------------------------------------------ hardening: insertion order != sorted label order (H5)
def _nxgraph_ordered(adj, order):
    """labels 0..n-1, adjacency `adj` BY LABEL, nodes inserted in the order `order` (so g.nodes() lists `order`)"""
    nx = _nx()
    g = nx.Graph()
    g.add_nodes_from([int(u) for u in order])
    n = len(adj)
    for i in range(n):
        for j in range(i + 1, n):
            if adj[i][j]:
                g.add_edge(i, j)
    assert list(g.nodes()) == [int(u) for u in order]
    return g


def _pos_adj(adj, order):
    """adjacency by insertion position: entry (i, j) = edge between the i-th and the j-th inserted node"""
    A = np.array(adj, dtype=int)
    o = [int(u) for u in order]
    return A[np.ix_(o, o)]


def _graph_pos_adj(g, n):
    """position adjacency of a returned networkx graph, read with own code (no nx.to_numpy_array): k-th listed node = qubit k"""
    nodes = list(g.nodes())
    if len(nodes) != n:
        return f"graph has {len(nodes)} vertices, expected {n}"
    idx = {u: k for k, u in enumerate(nodes)}
    B = np.zeros((n, n), dtype=int)
    for u, v in g.edges():
        B[idx[u], idx[v]] = B[idx[v], idx[u]] = 1
    return B


@S.item("graph_conversions.insertion_order", site="graphiq.backends.state_rep_conversion:graph_to_density,_graph_to_density_pure,graph_to_stabilizer,"
        "stabilizer_to_graph,density_to_graph,state_to_graph;graphiq.backends.stabilizer.functions.rep_conversion:get_stabilizer_tableau_from_graph",
        bound="networkx graphs with labels 0..n-1 whose nodes were INSERTED in an order different from sorted label order: all labelled "
              "graphs on 3 and 4 vertices x all n! insertion orders under which the edge set is NOT invariant (1296 of the 8*6 + 64*24 = "
              "1584 pairs), + seeded sample of 5-vertex graphs x insertion "
              "orders (quick 150, thorough 600); one convention for all entry points - qubit k = the k-th inserted node "
              "(nx.to_numpy_array without nodelist): graph_to_density (graph and one-element list), graph_to_stabilizer, "
              "get_stabilizer_tableau_from_graph, get_clifford_tableau_from_graph, DensityMatrix.from_graph, state_to_graph, "
              "QuantumState(graph) -> s, -> dm, -> s -> g, -> dm -> g, round trips stabilizer_to_graph(graph_to_stabilizer(g)) and "
              "density_to_graph(graph_to_density(g)); all must denote the refsem state of the graph relabelled by insertion position "
              "(hence agree with each other); graph unchanged (node order included)",
        clause="for every graph - in whatever order its nodes were inserted - graph-to-density-matrix and graph-to-stabilizer "
               "produce the SAME graph state |G> (one qubit numbering), and the inverse conversions recover that G")
def graph_insertion_order(inp):
    import graphiq.backends.state_rep_conversion as rc
    import graphiq.backends.stabilizer.functions.rep_conversion as src
    from graphiq.backends.density_matrix.state import DensityMatrix
    from graphiq.state import QuantumState

    adj, order = inp
    n = len(adj)
    P = _pos_adj(adj, order)
    want = core.dm(core.graph_state(P))
    g = _nxgraph_ordered(adj, order)
    snap = (list(g.nodes()), _graph_snapshot(g))
    tag = f"insertion order {list(order)}"

    def one_stab(o):
        return _stab_tab_dm(o[0][1]) if isinstance(o, list) and len(o) == 1 and o[0][0] == 1.0 else f"returned {o!r:.60}"

    calls = [("graph_to_density", lambda: rc.graph_to_density(g), lambda o: o),
             ("graph_to_density[list]", lambda: rc.graph_to_density([(1.0, g)]), lambda o: o),
             ("graph_to_stabilizer", lambda: rc.graph_to_stabilizer(g), one_stab),
             ("get_stabilizer_tableau_from_graph", lambda: src.get_stabilizer_tableau_from_graph(g), _stab_tab_dm),
             ("get_clifford_tableau_from_graph", lambda: src.get_clifford_tableau_from_graph(g), lambda o: _cliff_tab_dm(o, n)),
             ("DensityMatrix.from_graph", lambda: DensityMatrix.from_graph(g).data, lambda o: o)]
    for name, call, denote in calls:
        r = _cmp_dm(denote(call()), want, f"{name} ({tag}; expected |G> with qubit k = k-th inserted node)")
        if r:
            return r
        if (list(g.nodes()), _graph_snapshot(g)) != snap:
            return f"{name} modified the graph it was given ({tag})"
    # round trips through the real inverse conversions: they must give back the graph by position
    out = rc.stabilizer_to_graph(rc.graph_to_stabilizer(g))
    if not (isinstance(out, list) and len(out) == 1 and len(out[0]) == 2):
        return f"stabilizer_to_graph returned {out!r:.80}"
    B = _adj_of(out[0][1], n)
    if isinstance(B, str):
        return B
    if not np.array_equal(B, P):
        return f"stabilizer_to_graph(graph_to_stabilizer(g)) = {B.tolist()} != adjacency by insertion position {P.tolist()} ({tag})"
    out = rc.density_to_graph(rc.graph_to_density(g))
    B = _adj_of(out, n) if not isinstance(out, list) else "density_to_graph returned a mixture for a pure graph state"
    if isinstance(B, str):
        return B
    if not np.array_equal(B, P):
        return f"density_to_graph(graph_to_density(g)) = {B.tolist()} != adjacency by insertion position {P.tolist()} ({tag})"
    # state_to_graph on the graph: returned graph (read by position) + gates + tableau of the input state
    out = rc.state_to_graph(g)
    if not (isinstance(out, tuple) and len(out) == 3 and isinstance(out[2], list)):
        return f"state_to_graph returned {out!r:.60}"
    nx = _nx()
    B = _graph_pos_adj(out[0], n) if isinstance(out[0], nx.Graph) else _adj_of(out[0], n)
    if isinstance(B, str):
        return B
    w, err = _run_gates(core.graph_state(P), n, out[2])
    if err or not core.same_state(w, core.graph_state(B)):
        return f"state_to_graph: gates {out[2]} do not map |G> onto |graph> {B.tolist()} ({tag})"
    r = _cmp_dm(_stab_tab_dm(out[1]), want, f"state_to_graph tableau ({tag})")
    if r:
        return r
    if (list(g.nodes()), _graph_snapshot(g)) != snap:
        return f"state_to_graph modified the graph it was given ({tag})"
    # QuantumState holding the graph
    for b in ("s", "dm"):
        q = QuantumState(_nxgraph_ordered(adj, order), rep_type="g")
        q.convert_representation(b)
        if q.rep_type != b:
            return f"rep_type is {q.rep_type!r} after convert_representation({b!r})"
        r = _cmp_dm(_qstate_dm(q, n), want, f"QuantumState(graph, {tag}) g->{b}")
        if r:
            return r
        q.convert_representation("g")
        r = _cmp_dm(_qstate_dm(q, n), want, f"QuantumState(graph, {tag}) g->{b}->g")
        if r:
            return r
    return None


# ------------------------------------------------------------------ domains
def _graphs(nmax):
    out = []
    for n in range(1, nmax + 1):
        out += [A.tolist() for A in core.all_graphs(n)]
    return out


def _ident(n):
    return np.eye(n, dtype=int).tolist()


def _has_minus(adj, M):
    return any(r for (_, _, r) in f_stab.change_generators(f_stab.graph_rows(adj), M))


def _nonempty(adj):
    return bool(np.any(np.array(adj)))


def _take(lst, k):
    """at most k evenly spaced elements of a deterministic list (fixed samples for the classes that touch known findings)"""
    if len(lst) <= k:
        return list(lst)
    step = -(-len(lst) // k)
    return lst[::step][:k]


def run(tier, seed):
    rng = np.random.default_rng(seed)
    thorough = tier == "thorough"
    import graphiq.backends.state_rep_conversion  # noqa: F401  (import once; forked workers inherit)
    import graphiq.state  # noqa: F401

    nmax = 5 if thorough else 4
    graphs = _graphs(nmax)
    small = _graphs(3)

    S.map("graph_to_density.state", [[g, f] for g in graphs for f in ("nx", "array", "list", "from_graph")],
          nontrivial=lambda p: _nonempty(p[0]))
    S.map("graph_to_stabilizer.state", [[g, f] for g in graphs for f in ("nx", "array", "tab_from_graph", "clifford_from_graph")],
          nontrivial=lambda p: _nonempty(p[0]))
    S.map("density_to_graph.recover", [[g, f] for g in graphs for f in ("graph", "stabilizer")], nontrivial=lambda p: _nonempty(p[0]))

    S.map("stabilizer_to_graph.recover.canonical_generators",
          [[g, _ident(len(g)), None, f] for g in graphs for f in ("tableau", "list")], nontrivial=lambda p: _nonempty(p[0]))
    GL = {n: f_stab.all_invertible(n) for n in (1, 2, 3)}
    other = [[g, M, None, "tableau"] for g in small for M in GL[len(g)] if M != _ident(len(g))]
    S.map("stabilizer_to_graph.recover.other_generators", _take(other, 18), nontrivial=lambda p: _nonempty(p[0]))
    anyg = [[g, M, False, "tableau"] for g in small for M in GL[len(g)]]
    g4 = [g for g in graphs if len(g) == 4]
    for g in g4:
        for _ in range(12 if thorough else 4):
            anyg.append([g, f_stab.random_invertible(4, rng), False, "tableau"])
    if thorough:
        g5 = [g for g in graphs if len(g) == 5]
        for g in g5:
            anyg.append([g, f_stab.random_invertible(5, rng), False, "tableau"])
    S.map("stabilizer_to_graph.recover.any_generators_novalidate", anyg, nontrivial=lambda p: _nonempty(p[0]))

    plus, minus = [], []
    for g in small:
        for M in GL[len(g)]:
            (minus if _has_minus(g, M) else plus).append([g, M, "tableau"])
    plus += [[g, M, "list"] for g, M, _ in plus[::5]]
    minus += [[g, M, "list"] for g, M, _ in minus[::5]]
    for g in g4:
        for _ in range(3):
            M = f_stab.random_invertible(4, rng)
            if not _has_minus(g, M):  # seeded inputs stay in the class that cannot touch the known finding
                plus.append([g, M, "tableau"])
    S.map("stabilizer_to_density.graph_state.plus_signs", plus, nontrivial=lambda p: _nonempty(p[0]))
    S.map("stabilizer_to_density.graph_state.with_minus_signs", _take(minus, 18))

    # state_to_graph: all stabilizer states n<=2 in every ordered generating set, both input types
    has_x, z_eig = [], []
    for n in (1, 2):
        for (v, rows, full) in f_stab.all_stabilizer_states(n, full=True):
            for M in GL[n]:
                fr = f_stab.change_generators_full(full, M)
                cls = has_x if any(r[0][0] for r in fr[n:]) else z_eig
                for form in ("stabilizer", "clifford"):
                    cls.append([n, _rows_json(fr), form])
    n3 = 1500 if thorough else 800
    S3 = f_stab.all_stabilizer_states(3, full=True)
    for _ in range(n3):
        v, rows, full = S3[int(rng.integers(len(S3)))]
        fr = f_stab.change_generators_full(full, f_stab.random_invertible(3, rng))
        form = "stabilizer" if rng.integers(2) else "clifford"
        if any(r[0][0] for r in fr[3:]):  # seeded inputs only in the class that cannot touch the known finding
            has_x.append([3, _rows_json(fr), form])
    if thorough:
        for _ in range(1500):
            t, p = f_stab.random_clifford_table(4, rng)
            fr = [(list(map(int, t[i, :4])), list(map(int, t[i, 4:])), int(p[i])) for i in range(8)]
            if any(r[0][0] for r in fr[4:]):
                has_x.append([4, _rows_json(fr), "stabilizer"])
    S.map("state_to_graph.gates.qubit0_has_x", has_x)
    S.map("state_to_graph.gates.qubit0_z_eigenstate", _take(z_eig, 18))
    g4all = _graphs(4)
    S.map("state_to_graph.graph_input.nx", [[g, "nx"] for g in g4all], nontrivial=lambda p: _nonempty(p[0]))
    S.map("state_to_graph.graph_input.adjacency", [[g, "adjacency"] for g in small], nontrivial=lambda p: _nonempty(p[0]))

    for a, b in _PAIRS:
        S.map(f"convert_representation.{a}_to_{b}", [[g, a, b, 0, None] for g in graphs],
              nontrivial=lambda p: _nonempty(p[0]) and p[1] != p[2])
    g4max = _graphs(4)
    for a in ("s", "dm"):
        for b in ("s", "dm"):
            S.map(f"convert_representation.mixed_flag.{a}_to_{b}", [[g, a, b, 1, None] for g in g4max],
                  nontrivial=lambda p: _nonempty(p[0]) and p[1] != p[2])
    S.map("convert_representation.mixed_flag.to_g", [[g, a, "g", 1, None] for g in _graphs(2) for a in ("s", "dm")],
          nontrivial=lambda p: _nonempty(p[0]))
    cplus, cminus = [], []
    for g in small:
        for M in GL[len(g)]:
            if M == _ident(len(g)):
                continue
            if _has_minus(g, M):
                cminus.append([g, "s", "dm", 0, M])
            else:
                cplus.append([g, "s", "dm", 0, M])
                cplus.append([g, "s", "s", 0, M])
    S.map("convert_representation.s_other_generators.plus_signs", cplus, nontrivial=lambda p: _nonempty(p[0]))
    S.map("convert_representation.s_other_generators.with_minus_signs", _take(cminus, 18))

    # ---- hardening items
    S.map("graph_conversions.input_forms_repeat_frames", [[g, f] for g in graphs for f in GRAPH_FORMS], nontrivial=lambda p: _nonempty(p[0]))
    S.map("density_conversions.input_forms_repeat_frames", [[g, f] for g in _graphs(4) for f in ("complex", "real", "fortran", "view")],
          nontrivial=lambda p: _nonempty(p[0]))
    S.map("stabilizer_conversions.repeat_frames", [[g, M] for g in small for M in GL[len(g)]], nontrivial=lambda p: _nonempty(p[0]))
    S.map("convert_representation.chains_copies", [[g, a, ci] for g in _graphs(4) for a in ("g", "s", "dm") for ci in range(len(CHAINS))
                                                   ],
          nontrivial=lambda p: _nonempty(p[0]))

    # insertion order != sorted label order (H5): all graphs n=3,4 x all insertion orders; seeded sample for n=5
    import itertools

    ordered = [[g, list(o)] for g in graphs if len(g) in (3, 4) for o in itertools.permutations(range(len(g)))
               if not np.array_equal(_pos_adj(g, o), np.array(g, dtype=int))]  # the reordering must move the edge set
    g5l = [A.tolist() for A in core.all_graphs(5)]
    for _ in range(600 if thorough else 150):
        ordered.append([g5l[int(rng.integers(len(g5l)))], [int(x) for x in rng.permutation(5)]])
    S.map("graph_conversions.insertion_order", ordered,
          nontrivial=lambda p: not np.array_equal(_pos_adj(p[0], p[1]), np.array(p[0], dtype=int)))

    S.note("vertex i of a graph is qubit i (vertices 0..n-1 inserted in order) except in graph_conversions.insertion_order, where qubit k is the k-th inserted "
           "vertex; graphs with other vertex labels than 0..n-1 are not driven")
    S.note("the float GF(2) inverse inside _graph_finder/_phase_correction is exercised only through its results")
    return S
