"""C16 - Relabelling, isomorph search and LC-orbit walks stay in the equivalence class.   [B] run-time contract monitors.

Oracles (refsem.lc / refsem.core, nothing from graphiq): relabelled(A, p) built entry by entry from the statement
("edge (p(u),p(v)) exactly when the original has (u,v)"); isomorphism by independent backtracking; LC orbit by BFS.

Input encodings (JSON): graph = nested adjacency list; permutation = list; options as plain values.
"""
from __future__ import annotations

import itertools
import math
import warnings

import networkx as nx
import numpy as np

from refsem import core as R
from refsem import lc as L
from vf.bounded import Suite

import graphiq.utils.relabel_module as rm

S = Suite("C16")
S.max_failures_per_item = 500
_RM = "graphiq.utils.relabel_module"

CL_RELABEL = "relabelling by a permutation yields the graph that has edge (p(u),p(v)) exactly when the original has (u,v)"
CL_MAP = "the reported relabel map between two isomorphic graphs is an isomorphism"
CL_ISO = "the isomorph finder returns pairwise distinct adjacency matrices, all isomorphic to the input, never more than requested"
CL_FIRST = "the isomorph finder returns the input first"
CL_ORBIT = "every graph returned by an LC-orbit explorer lies in the local-complementation orbit of the input"
CL_DISTINCT = "explorers asked for distinct graphs return pairwise different ones"


def _A(a):
    return np.array(a, dtype=int).reshape(len(a), len(a))


def _nxg(A):
    return nx.from_numpy_array(np.array(A, dtype=int))


def _graph_adj(g, n):
    """adjacency of a returned networkx graph on the vertices 0..n-1, or None if it is not such a graph"""
    if not isinstance(g, nx.Graph) or sorted(g.nodes) != list(range(n)):
        return None
    return (nx.to_numpy_array(g, nodelist=list(range(n))) != 0).astype(int)


# ------------------------------------------------------------------ relabel / _perm2matrix
@S.item("relabel.semantics", site=f"{_RM}:relabel", bound="ALL labelled graphs n<=5 (1099) x ALL permutations (128 433 cases)",
        exhaustive=True, clause=CL_RELABEL)
def c_relabel(inp):
    a, p = inp
    A = _A(a)
    n = len(A)
    A0 = A.copy()
    out = rm.relabel(A, np.array(p, dtype=int))
    if not isinstance(out, np.ndarray) or out.shape != (n, n):
        return f"result is not an {n}x{n} array: {out!r}"
    if not np.issubdtype(out.dtype, np.integer):
        return f"result dtype {out.dtype} is not integer"
    if not np.array_equal(A, A0):
        return "input matrix was modified"
    want = L.relabelled(A, p)
    if not np.array_equal(out, want):
        return f"got {out.tolist()}, the graph with edge (p(u),p(v)) iff (u,v) is {want.tolist()}"
    return None


@S.item("_perm2matrix.semantics", site=f"{_RM}:_perm2matrix", bound="ALL permutations of 1..6 symbols (873)", exhaustive=True,
        clause=CL_RELABEL + " (P[i, seq[i]] = 1, zeros elsewhere)")
def c_perm2matrix(inp):
    p = list(inp)
    n = len(p)
    P = rm._perm2matrix(p)
    want = np.zeros((n, n))
    for i, l in enumerate(p):
        want[i, l] = 1
    if not (isinstance(P, np.ndarray) and P.shape == (n, n) and np.array_equal(P, want)):
        return f"got {np.array(P).tolist()}, want {want.tolist()}"
    return None


# ------------------------------------------------------------------ get_relabel_map
def _check_map(A, B, m, what):
    n = len(A)
    if not isinstance(m, dict):
        return f"{what}: map is {type(m).__name__}, not a dict"
    extra = [k for k in m if not (isinstance(k, (int, np.integer)) and 0 <= k < n)]
    for k in extra:
        # sentinel documented in DESIGN: {-1: "self"} only when both graphs are identical
        if not (k == -1 and m[k] == "self" and np.array_equal(A, B)):
            return f"{what}: unexpected key {k!r} -> {m[k]!r} in the map"
    if not L.is_isomorphism(A, B, m):
        return f"{what}: map { {k: m[k] for k in sorted(k for k in m if k not in extra)} } is not an isomorphism of graph 1 onto graph 2"
    return None


@S.item("get_relabel_map.pairs", site=f"{_RM}:get_relabel_map",
        bound="ALL ordered pairs of labelled graphs n<=4 (4165) x {adjacency arrays, networkx graphs}; non-isomorphic pairs must be refused",
        exhaustive=True, clause=CL_MAP)
def c_relabel_map_pairs(inp):
    form, a, b = inp
    A, B = _A(a), _A(b)
    iso = L.find_isomorphism(A, B) is not None
    g1, g2 = (A.copy(), B.copy()) if form == "adj" else (_nxg(A), _nxg(B))
    try:
        m = rm.get_relabel_map(g1, g2)
    except AssertionError:
        return None if not iso else "AssertionError although the graphs are isomorphic"
    if not iso:
        return f"a map {m!r} was reported for non-isomorphic graphs"
    return _check_map(A, B, m, "get_relabel_map")


@S.item("get_relabel_map.relabelled", site=f"{_RM}:get_relabel_map",
        bound="graph 2 = graph 1 relabelled: ALL graphs n<=4 x ALL permutations (1666) + seeded 2000 (quick) / all 122880 (thorough) on 5 vertices, "
              "+ 300 seeded graphs on 6..8 vertices", clause=CL_MAP)
def c_relabel_map_perm(inp):
    form, a, p = inp
    A = _A(a)
    B = L.relabelled(A, p)
    g1, g2 = (A.copy(), B.copy()) if form == "adj" else (_nxg(A), _nxg(B))
    m = rm.get_relabel_map(g1, g2)
    return _check_map(A, B, m, "get_relabel_map")


# ------------------------------------------------------------------ label sampling
def _check_rows(rows, n, what):
    rows = np.array(rows)
    if rows.ndim != 2 or rows.shape[1] != n:
        return f"{what}: result has shape {rows.shape}, rows must have length {n}"
    ident = False
    for r in rows:
        if sorted(int(x) for x in r) != list(range(n)):
            return f"{what}: row {r.tolist()} is not a permutation of 0..{n - 1}"
        ident = ident or [int(x) for x in r] == list(range(n))
    if not ident:
        return f"{what}: the identity labelling is missing"
    return None


@S.item("_label_finder.rows", site=f"{_RM}:_label_finder",
        bound="n_node in 2..9 x n_label in {1,2,5,min(24,n!)} x exhaustive x thresh in {None,1,50} x seeds {0,1,None} (exhaustive only for n_node<=8)",
        exhaustive=True, clause=CL_ISO + " (every candidate labelling is a permutation; the identity is among them)")
def c_label_finder(inp):
    n_label, n_node, exhaustive, seed, thresh = inp
    with warnings.catch_warnings():
        warnings.simplefilter("ignore")
        rows = rm._label_finder(n_label, n_node, exhaustive=bool(exhaustive), seed=seed, thresh=thresh)
    r = _check_rows(rows, n_node, "_label_finder")
    if r:
        return r
    if len(rows) > n_label:
        return f"_label_finder: {len(rows)} labellings, {n_label} asked"
    return None


@S.item("_add_labels.rows", site=f"{_RM}:_add_labels",
        bound="start = _label_finder(k, n) for n in {3,4,5,8,9}, k in {1,3}; add_n in {1,4,30}; exhaustive (n<=8); thresh {None,1,50}; seeds {0,1}",
        exhaustive=True, clause=CL_ISO + " (every candidate labelling is a permutation; the identity is among them)")
def c_add_labels(inp):
    k, n_node, add_n, exhaustive, seed, thresh = inp
    with warnings.catch_warnings():
        warnings.simplefilter("ignore")
        start = rm._label_finder(k, n_node, seed=seed)
        rows = rm._add_labels(start, add_n, exhaustive=bool(exhaustive), seed=seed, thresh=thresh)
    r = _check_rows(rows, n_node, "_add_labels")
    if r:
        return r
    if len(rows) > min(len(start) + add_n, math.factorial(n_node)):
        return f"_add_labels: {len(rows)} labellings from {len(start)} + {add_n}"
    return None


# ------------------------------------------------------------------ automorph_check
@S.item("automorph_check.images", site=f"{_RM}:automorph_check",
        bound="ALL graphs n<=4 x 6 seeded label arrays (1..8 rows, with repeats) + 400 seeded graphs n=5,6", clause=CL_ISO +
        " (element 0 is the input; the rest are exactly the distinct relabellings different from the input)")
def c_automorph(inp):
    a, labels = inp
    A = _A(a)
    n = len(A)
    out = rm.automorph_check(A.copy(), np.array(labels, dtype=int))
    out = np.array(out)
    if out.ndim != 3 or out.shape[1:] != (n, n):
        return f"result shape {out.shape}"
    if not np.array_equal(out[0], A):
        return "element 0 is not the input matrix"
    keys = [L.key(M) for M in out]
    if len(set(keys)) != len(keys):
        return "result contains the same adjacency matrix twice"
    want = {L.key(L.relabelled(A, p)) for p in labels} | {L.key(A)}
    if set(keys) != want:
        return f"set of returned matrices differs from the set of relabellings: {len(set(keys) - want)} foreign, {len(want - set(keys))} missing"
    return None


# ------------------------------------------------------------------ iso_finder
def _call_iso_finder(inp):
    a, n_iso, rel, exh, sort_emit, label_map, thresh, seed = inp
    A = _A(a)
    n = len(A)
    with warnings.catch_warnings():
        warnings.simplefilter("ignore")
        try:
            out = rm.iso_finder(A.copy(), n_iso, rel_inc_thresh=rel, allow_exhaustive=bool(exh), sort_emit=bool(sort_emit),
                                label_map=bool(label_map), thresh=thresh, seed=seed)
        except AssertionError as e:
            if n_iso > math.factorial(n) and "more than the maximum possible" in str(e):
                return A, None, None, True  # documented refusal: more labellings asked than exist
            raise
    if isinstance(out, tuple):
        if len(out) != 2:
            raise ValueError(f"tuple of length {len(out)} returned")
        return A, np.array(out[0]), out[1], False
    return A, np.array(out), None, False


@S.item("iso_finder.isomorphs", site=f"{_RM}:iso_finder",
        bound="seeded selection; graphs: ALL n<=4 + (quick 60 seeded / thorough ALL 1024) n=5 + 12 graphs on 8 vertices (K8, empty, star, path, cycle, 7 seeded); "
              "n_iso in {1,2,5,24,200} ({1,3,10,40} on 8 vertices); rel_inc_thresh {0.2,0,1}; allow_exhaustive; sort_emit; label_map; thresh {None,1,50}; seeds {0,1,2,None}: "
              "full product (thorough; on 5 vertices only rel_inc_thresh {0.2,0}, thresh None, seed 0) / 5700 seeded combinations (quick)",
        clause=CL_ISO + "; " + CL_MAP + " (label_map=True)")
def c_iso_finder(inp):
    A, arr, maps, refused = _call_iso_finder(inp)
    if refused:
        return None
    n = len(A)
    n_iso = inp[1]
    if arr.ndim != 3 or arr.shape[1:] != (n, n):
        return f"result shape {arr.shape} is not a list of {n}x{n} matrices"
    if len(arr) > n_iso:
        return f"{len(arr)} matrices returned, {n_iso} requested"
    if len(arr) == 0:
        return "nothing returned (the input itself counts)"
    keys = []
    for i, M in enumerate(arr):
        if not L.is_simple_adj(M, n):
            return f"element {i} is not a simple adjacency matrix: {np.array(M).tolist()}"
        if L.find_isomorphism(A, np.array(M, dtype=int)) is None:
            return f"element {i} = {np.array(M).astype(int).tolist()} is not isomorphic to the input"
        keys.append(L.key(M))
    if len(set(keys)) != len(keys):
        return "the same adjacency matrix is returned twice"
    if maps is not None:
        if len(maps) < len(arr):
            return f"{len(maps)} label maps for {len(arr)} matrices"
        for i, M in enumerate(arr):
            r = _check_map(A, np.array(M, dtype=int), maps[i], f"label map {i}")
            if r:
                return r
    return None


@S.item("iso_finder.smallest_graphs", site=f"{_RM}:iso_finder",
        bound="fixed list: the graphs on 1 and 2 vertices x n_iso in {1,2} x seed in {0,1}, other options default",
        exhaustive=True, clause=CL_ISO + "; " + CL_FIRST)
def c_iso_smallest(inp):
    return c_iso_finder(inp) or c_iso_first(inp)


@S.item("iso_finder.input_first", site=f"{_RM}:iso_finder", bound="same domain as iso_finder.isomorphs (both values of sort_emit)", clause=CL_FIRST)
def c_iso_first(inp):
    A, arr, maps, refused = _call_iso_finder(inp)
    if refused:
        return None
    if len(arr) == 0 or not np.array_equal(np.array(arr[0]).astype(int), A):
        return f"first returned matrix is {np.array(arr[0]).astype(int).tolist() if len(arr) else None}, not the input"
    return None


@S.item("iso_finder.input_first_sort_emit", site=f"{_RM}:iso_finder",
        bound="fixed list: sort_emit=True: ALL 64 labelled graphs on 4 vertices x n_iso in {5,24} x label_map x seed in {0,1}; other options default "
              "(fixed list, independent of tier and run seed)", exhaustive=True, clause=CL_FIRST + " (also when the result is sorted by emitter count)")
def c_iso_first_sorted(inp):
    return c_iso_first(inp)


# ------------------------------------------------------------------ orbit explorers
def _check_orbit_list(A, out, distinct, what):
    n = len(A)
    if not isinstance(out, list) or len(out) == 0:
        return f"{what}: result is not a non-empty list: {type(out).__name__}"
    orbit = L.orbit_of(A)
    keys = []
    for i, g in enumerate(out):
        M = _graph_adj(g, n)
        if M is None:
            return f"{what}: element {i} is not a graph on the vertices 0..{n - 1}"
        if L.key(M) not in orbit:
            return f"{what}: element {i} = {M.tolist()} is not in the LC orbit of the input (orbit size {len(orbit)})"
        keys.append(L.key(M))
    if distinct and len(set(keys)) != len(keys):
        dup = [i for i, k in enumerate(keys) if keys.index(k) != i]
        return f"{what}: elements {dup} repeat earlier graphs although distinct graphs were asked"
    return None


@S.item("lc_orbit_finder.orbit", site=f"{_RM}:lc_orbit_finder",
        bound="graphs: ALL n<=4 + connected n=5 (quick 60 seeded / thorough all 728); comp_depth {None,1,2}; orbit_size_thresh {None,1,3,10}; "
              "with_iso; rand (np.random seeded from the input); rep_allowed (only with a finite depth or size limit): full product",
        exhaustive=True, clause=CL_ORBIT + "; " + CL_DISTINCT + " (rep_allowed=False)")
def c_lc_orbit_finder(inp):
    a, depth, size, with_iso, rand, rep, npseed = inp
    A = _A(a)
    g = _nxg(A)
    np.random.seed(npseed)
    out = rm.lc_orbit_finder(g, comp_depth=depth, orbit_size_thresh=size, with_iso=bool(with_iso), rand=bool(rand), rep_allowed=bool(rep))
    return _check_orbit_list(A, out, not rep, "lc_orbit_finder")


@S.item("rgs_orbit_finder.orbit", site=f"{_RM}:rgs_orbit_finder",
        bound="repeater graphs with 2,3,4 core vertices x (identity + 40 seeded relabellings) [orbit + distinct]; ALL connected graphs n<=5 "
              "[either refused by the function's own assert, or every result in the orbit]", exhaustive=True, clause=CL_ORBIT + "; " + CL_DISTINCT)
def c_rgs(inp):
    a, is_rgs = inp
    A = _A(a)
    try:
        out = rm.rgs_orbit_finder(_nxg(A))
    except AssertionError as e:
        if is_rgs:
            return f"repeater graph refused: AssertionError({e})"
        return None
    return _check_orbit_list(A, out, bool(is_rgs), "rgs_orbit_finder")


@S.item("linear_partial_orbit.orbit", site=f"{_RM}:linear_partial_orbit",
        bound="paths on 3..9 vertices labelled along the chain [orbit + distinct] and 40 seeded relabellings each [orbit]; ALL connected graphs "
              "n<=5 [either refused by the function's own assert, or every result in the orbit]", exhaustive=True, clause=CL_ORBIT + "; " + CL_DISTINCT)
def c_linear(inp):
    a, kind = inp  # kind: "chain" (0-1-2-...), "path" (relabelled path), "any"
    A = _A(a)
    try:
        out = rm.linear_partial_orbit(_nxg(A))
    except AssertionError as e:
        if kind in ("chain", "path"):
            return f"linear graph refused: AssertionError({e})"
        return None
    return _check_orbit_list(A, out, kind == "chain", "linear_partial_orbit")


@S.item("depth_first_orbit.orbit", site=f"{_RM}:depth_first_orbit",
        bound="ALL labelled graphs n<=4 (connected or not) + connected n=5 (quick 80 seeded / thorough all 728)", exhaustive=True, clause=CL_ORBIT)
def c_depth_first(inp):
    A = _A(inp)
    out = rm.depth_first_orbit(_nxg(A))
    return _check_orbit_list(A, out, False, "depth_first_orbit")


@S.item("_partial_orbit.range", site=f"{_RM}:_partial_orbit", bound="n = 1..16 (complete for these n)", exhaustive=True,
        clause=CL_ORBIT + " (every scripted vertex is a vertex of the n-vertex graph)")
def c_partial_orbit(inp):
    n = int(inp)
    seqs = rm._partial_orbit(n)
    for s in seqs:
        for x in s:
            if not (isinstance(x, (int, np.integer)) and 0 <= x < n):
                return f"script {s} contains {x!r}, not a vertex of 0..{n - 1}"
    return None


@S.item("check_isomorphism.exists", site=f"{_RM}:check_isomorphism",
        bound="seeded: graph + list of 0..5 graphs on the same n<=5 vertices (drawn with isomorphic / identical members) x _only_auto; quick 3000, thorough 30000",
        clause=CL_DISTINCT + " (the duplicate test is: some list member is isomorphic / identical to the graph)")
def c_check_iso(inp):
    a, lst, only_auto = inp
    A = _A(a)
    got = rm.check_isomorphism(_nxg(A), [_nxg(_A(b)) for b in lst], _only_auto=bool(only_auto))
    if only_auto:
        want = any(np.array_equal(A, _A(b)) for b in lst)
    else:
        want = any(L.find_isomorphism(A, _A(b)) is not None for b in lst)
    if bool(got) != want:
        return f"returned {got!r}, expected {want}"
    return None


# ------------------------------------------------------------------ domains
def _graphs(nmax):
    return [A.tolist() for n in range(1, nmax + 1) for A in R.all_graphs(n)]


def _rand_graph(n, rng, p=0.5):
    A = np.zeros((n, n), dtype=int)
    for i in range(n):
        for j in range(i + 1, n):
            if rng.random() < p:
                A[i, j] = A[j, i] = 1
    return A


def _special8():
    n = 8
    K = (np.ones((n, n), dtype=int) - np.eye(n, dtype=int))
    E = np.zeros((n, n), dtype=int)
    St = np.zeros((n, n), dtype=int)
    St[0, 1:] = St[1:, 0] = 1
    Pa = L.path_graph(n)
    Cy = Pa.copy()
    Cy[0, n - 1] = Cy[n - 1, 0] = 1
    return [K, E, St, Pa, Cy]


def run(tier, seed):
    rng = np.random.default_rng(seed)
    thorough = tier == "thorough"
    g4 = _graphs(4)
    g5 = [A.tolist() for A in R.all_graphs(5)]
    c5 = [A.tolist() for A in L.connected_graphs(5)]

    # relabel / _perm2matrix ------------------------------------------------------------------
    rel_in = [[a, list(p)] for a in g4 + g5 for p in itertools.permutations(range(len(a)))]
    S.map("relabel.semantics", rel_in, nontrivial=lambda i: list(i[1]) != sorted(i[1]) and any(any(r) for r in i[0]), chunksize=2048)
    S.map("_perm2matrix.semantics", [list(p) for n in range(1, 7) for p in itertools.permutations(range(n))])

    # get_relabel_map ---------------------------------------------------------------------------
    pairs = [[f, a, b] for f in ("adj", "nx") for a in g4 for b in g4 if len(a) == len(b)]
    S.map("get_relabel_map.pairs", pairs, nontrivial=lambda i: L.find_isomorphism(_A(i[1]), _A(i[2])) is not None and i[1] != i[2])
    perm_in = [[("adj", "nx")[k % 2], a, list(p)] for k, (a, p) in
               enumerate((a, p) for a in g4 for p in itertools.permutations(range(len(a))))]
    if thorough:
        perm_in += [[("adj", "nx")[k % 2], a, list(p)] for k, (a, p) in enumerate((a, p) for a in g5 for p in itertools.permutations(range(5)))]
    else:
        for k in range(2000):
            perm_in.append([("adj", "nx")[k % 2], g5[int(rng.integers(len(g5)))], [int(x) for x in rng.permutation(5)]])
    for k in range(300):
        n = int(rng.integers(6, 9))
        perm_in.append([("adj", "nx")[k % 2], _rand_graph(n, rng, rng.random()).tolist(), [int(x) for x in rng.permutation(n)]])
    S.map("get_relabel_map.relabelled", perm_in, nontrivial=lambda i: list(i[2]) != sorted(i[2]) and any(any(r) for r in i[1]))

    # label sampling -----------------------------------------------------------------------------
    lf = []
    for n_node in range(2, 10):
        for n_label in sorted({1, 2, 5, min(24, math.factorial(n_node))}):
            if n_label > math.factorial(n_node):
                continue
            for exhaustive in ((False, True) if n_node <= 8 else (False,)):
                for thresh in (None, 1, 50):
                    for sd in (0, 1, None):
                        lf.append([n_label, n_node, exhaustive, sd, thresh])
    S.map("_label_finder.rows", lf, nontrivial=lambda i: i[0] > 1)
    al = [[k, n_node, add_n, exhaustive, sd, thresh] for n_node in (3, 4, 5, 8, 9) for k in (1, 3) for add_n in (1, 4, 30)
          for exhaustive in ((False, True) if n_node <= 8 else (False,)) for thresh in (None, 1, 50) for sd in (0, 1)]
    S.map("_add_labels.rows", al)

    # automorph_check ----------------------------------------------------------------------------
    au = []
    for a in g4:
        n = len(a)
        for _ in range(6):
            rows = [[int(x) for x in rng.permutation(n)] for _ in range(int(rng.integers(1, 9)))]
            if rng.random() < 0.5:
                rows.append(list(rows[0]))
            au.append([a, rows])
    for _ in range(400):
        n = int(rng.integers(5, 7))
        rows = [[int(x) for x in rng.permutation(n)] for _ in range(int(rng.integers(1, 9)))]
        au.append([_rand_graph(n, rng, rng.random()).tolist(), rows])
    S.map("automorph_check.images", au)

    # iso_finder -----------------------------------------------------------------------------------
    g8 = [A.tolist() for A in _special8()] + [_rand_graph(8, rng, p).tolist() for p in (0.15, 0.3, 0.4, 0.5, 0.6, 0.75, 0.9)]
    g5s = g5 if thorough else [g5[int(i)] for i in rng.choice(len(g5), 60, replace=False)]

    def combos(graphs, n_isos, seeds):
        for a in graphs:
            for n_iso in n_isos:
                for rel in (0.2, 0.0, 1.0):
                    for exh in (True, False):
                        for se in (False, True):
                            for lm in (False, True):
                                for th in (None, 1, 50):
                                    for sd in seeds:
                                        yield [a, n_iso, rel, exh, se, lm, th, sd]

    g4x = g4  # (the graphs on 1 and 2 vertices are also listed exhaustively in iso_finder.smallest_graphs)

    def stride(full, count, offset):
        step = max(1, len(full) // count)
        return full[offset % step::step][:count]

    if thorough:
        iso_in = list(combos(g4x, (1, 2, 5, 24, 200), (0, 1, 2, None)))
        iso_in += [c for c in combos(g5s, (1, 2, 5, 24, 200), (0,)) if c[2] != 1.0 and c[6] is None]  # thresh is inert below 8 vertices
        iso_in += list(combos(g8, (1, 3, 10, 40), (0, 1)))
    else:
        iso_in = stride(list(combos(g4x, (1, 2, 5, 24, 200), (0, 1, 2, None))), 4000, int(rng.integers(10**6)))
        iso_in += stride(list(combos(g5s, (1, 2, 5, 24, 200), (0, 1))), 1400, int(rng.integers(10**6)))
        iso_in += stride(list(combos(g8, (1, 3, 10, 40), (0, 1))), 300, int(rng.integers(10**6)))
    nt_iso = lambda i: i[1] > 1 and i[1] <= math.factorial(len(i[0]))  # noqa: E731
    S.map("iso_finder.isomorphs", iso_in, nontrivial=nt_iso)
    S.map("iso_finder.input_first", iso_in, nontrivial=nt_iso)
    S.map("iso_finder.smallest_graphs", [[a, n_iso, 0.2, True, False, False, None, sd] for a in ([[0]], [[0, 0], [0, 0]], [[0, 1], [1, 0]])
                                         for n_iso in (1, 2) for sd in (0, 1)])
    S.map("iso_finder.input_first_sort_emit",
          [[A.tolist(), n_iso, 0.2, True, True, lm, None, sd] for A in R.all_graphs(4) for n_iso in (5, 24) for lm in (False, True) for sd in (0, 1)],
          nontrivial=nt_iso)

    # orbit explorers -------------------------------------------------------------------------------
    c5s = c5 if thorough else [c5[int(i)] for i in rng.choice(len(c5), 60, replace=False)]
    of = []
    for a in g4 + c5s:
        for depth in (None, 1, 2):
            for size in (None, 1, 3, 10):
                for with_iso in (False, True):
                    for rand in (False, True):
                        for rep in (False, True):
                            if rep and depth is None and size is None:
                                continue  # unbounded walk with repetitions never ends by construction
                            of.append([a, depth, size, with_iso, rand, rep, int(rng.integers(2**31))])
    S.map("lc_orbit_finder.orbit", of, nontrivial=lambda i: len(L.orbit_of(_A(i[0]))) > 1 and i[2] != 1)

    rg = []
    for m in (2, 3, 4):
        rg.append([L.repeater_graph(m).tolist(), True])
        for _ in range(40):
            rg.append([L.repeater_graph(m, [int(x) for x in rng.permutation(2 * m)]).tolist(), True])
    conn_le5 = [A.tolist() for n in range(1, 6) for A in L.connected_graphs(n)]
    rg += [[a, False] for a in conn_le5 if not _is_repeater(a)]
    S.map("rgs_orbit_finder.orbit", rg, nontrivial=lambda i: bool(i[1]))

    li = []
    for n in range(3, 10 if thorough else 9):
        li.append([L.path_graph(n).tolist(), "chain"])
        for _ in range(40):
            li.append([L.path_graph(n, [int(x) for x in rng.permutation(n)]).tolist(), "path"])
    li += [[a, "any"] for a in conn_le5 if not _is_path(a)]
    S.map("linear_partial_orbit.orbit", li, nontrivial=lambda i: i[1] != "any")

    df = list(g4) + (c5 if thorough else [c5[int(i)] for i in rng.choice(len(c5), 80, replace=False)])
    S.map("depth_first_orbit.orbit", df, nontrivial=lambda a: len(L.orbit_of(_A(a))) > 1)
    S.map("_partial_orbit.range", list(range(1, 17)))

    ci = []
    pools = {n: [A for A in R.all_graphs(n)] for n in range(2, 6)}
    for _ in range(30000 if thorough else 3000):
        n = int(rng.integers(2, 6))
        gs = pools[n]
        A = gs[int(rng.integers(len(gs)))]
        lst = []
        for _ in range(int(rng.integers(0, 6))):
            r = rng.random()
            if r < 0.15:
                lst.append(A.tolist())
            elif r < 0.4:
                lst.append(L.relabelled(A, rng.permutation(n)).tolist())
            else:
                lst.append(gs[int(rng.integers(len(gs)))].tolist())
        ci.append([A.tolist(), lst, bool(rng.integers(2))])
    S.map("check_isomorphism.exists", ci, nontrivial=lambda i: len(i[1]) > 0)

    S.note("iso_finder: AssertionError 'more than the maximum possible' is accepted as a refusal only when n_iso > n! (the function's own documented guard)")
    S.note("lc_orbit_finder(rand=True) draws from the global numpy generator; the monitor seeds it from the input so that replays are exact")
    S.note("distinctness is demanded of lc_orbit_finder(rep_allowed=False), of rgs_orbit_finder, and of linear_partial_orbit on chains labelled 0-1-2-...; "
           "a relabelled path makes linear_partial_orbit repeat graphs (its script assumes the chain labelling) - not demanded")
    return S


def _is_repeater(a):
    A = _A(a)
    n = len(A)
    if n % 2 or n < 4:
        return False
    return L.find_isomorphism(L.repeater_graph(n // 2), A) is not None


def _is_path(a):
    A = _A(a)
    n = len(A)
    return n >= 3 and L.find_isomorphism(L.path_graph(n), A) is not None
