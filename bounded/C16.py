"""C16 - Relabelling, isomorph search and LC-orbit walks stay in the equivalence class.   [B] run-time contract monitors.

Oracles (refsem.lc / refsem.core, nothing from graphiq): relabelled(A, p) built entry by entry from the statement
("edge (p(u),p(v)) exactly when the original has (u,v)"); isomorphism by independent backtracking; LC orbit by BFS.

Input encodings (JSON): graph = nested adjacency list; permutation = list; options as plain values.
"""
from __future__ import annotations

import itertools
import math
import warnings

import networkx as nx
import numpy as np

from refsem import core as R
from refsem import lc as L
from vf.bounded import Suite

import graphiq.utils.relabel_module as rm

S = Suite("C16")
S.max_failures_per_item = 500
_RM = "graphiq.utils.relabel_module"

CL_RELABEL = "relabelling by a permutation yields the graph that has edge (p(u),p(v)) exactly when the original has (u,v)"
CL_MAP = "the reported relabel map between two isomorphic graphs is an isomorphism"
CL_ISO = "the isomorph finder returns pairwise distinct adjacency matrices, all isomorphic to the input, never more than requested"
CL_FIRST = "the isomorph finder returns the input first"
CL_ORBIT = "every graph returned by an LC-orbit explorer lies in the local-complementation orbit of the input"
CL_DISTINCT = "explorers asked for distinct graphs return pairwise different ones"


def _A(a):
    return np.array(a, dtype=int).reshape(len(a), len(a))


def _nxg(A):
    return nx.from_numpy_array(np.array(A, dtype=int))


def _graph_adj(g, n):
    """adjacency of a returned networkx graph on the vertices 0..n-1, or None if it is not such a graph"""
    if not isinstance(g, nx.Graph) or sorted(g.nodes) != list(range(n)):
        return None
    return (nx.to_numpy_array(g, nodelist=list(range(n))) != 0).astype(int)


# ------------------------------------------------------------------ relabel / _perm2matrix
@S.item("relabel.semantics", site=f"{_RM}:relabel", bound="ALL labelled graphs n<=5 (1099) x ALL permutations (128 433 cases)",
        exhaustive=True, clause=CL_RELABEL)
def c_relabel(inp):
    a, p = inp
    A = _A(a)
    n = len(A)
    A0 = A.copy()
    out = rm.relabel(A, np.array(p, dtype=int))
    if not isinstance(out, np.ndarray) or out.shape != (n, n):
        return f"result is not an {n}x{n} array: {out!r}"
    if not np.issubdtype(out.dtype, np.integer):
        return f"result dtype {out.dtype} is not integer"
    if not np.array_equal(A, A0):
        return "input matrix was modified"
    want = L.relabelled(A, p)
    if not np.array_equal(out, want):
        return f"got {out.tolist()}, the graph with edge (p(u),p(v)) iff (u,v) is {want.tolist()}"
    return None


@S.item("_perm2matrix.semantics", site=f"{_RM}:_perm2matrix", bound="ALL permutations of 1..6 symbols (873)", exhaustive=True,
        clause=CL_RELABEL + " (P[i, seq[i]] = 1, zeros elsewhere)")
def c_perm2matrix(inp):
    p = list(inp)
    n = len(p)
    P = rm._perm2matrix(p)
    want = np.zeros((n, n))
    for i, l in enumerate(p):
        want[i, l] = 1
    if not (isinstance(P, np.ndarray) and P.shape == (n, n) and np.array_equal(P, want)):
        return f"got {np.array(P).tolist()}, want {want.tolist()}"
    return None


# ------------------------------------------------------------------ get_relabel_map
def _check_map(A, B, m, what):
    n = len(A)
    if not isinstance(m, dict):
        return f"{what}: map is {type(m).__name__}, not a dict"
    extra = [k for k in m if not (isinstance(k, (int, np.integer)) and 0 <= k < n)]
    for k in extra:
        # sentinel documented in DESIGN: {-1: "self"} only when both graphs are identical
        if not (k == -1 and m[k] == "self" and np.array_equal(A, B)):
            return f"{what}: unexpected key {k!r} -> {m[k]!r} in the map"
    if not L.is_isomorphism(A, B, m):
        return f"{what}: map { {k: m[k] for k in sorted(k for k in m if k not in extra)} } is not an isomorphism of graph 1 onto graph 2"
    return None


@S.item("get_relabel_map.pairs", site=f"{_RM}:get_relabel_map",
        bound="ALL ordered pairs of labelled graphs n<=4 (4165) x {adjacency arrays, networkx graphs}; non-isomorphic pairs must be refused",
        exhaustive=True, clause=CL_MAP)
def c_relabel_map_pairs(inp):
    form, a, b = inp
    A, B = _A(a), _A(b)
    iso = L.find_isomorphism(A, B) is not None
    g1, g2 = (A.copy(), B.copy()) if form == "adj" else (_nxg(A), _nxg(B))
    try:
        m = rm.get_relabel_map(g1, g2)
    except AssertionError:
        return None if not iso else "AssertionError although the graphs are isomorphic"
    if not iso:
        return f"a map {m!r} was reported for non-isomorphic graphs"
    return _check_map(A, B, m, "get_relabel_map")


@S.item("get_relabel_map.relabelled", site=f"{_RM}:get_relabel_map",
        bound="graph 2 = graph 1 relabelled: ALL graphs n<=4 x ALL permutations (1666) + seeded 2000 (quick) / all 122880 (thorough) on 5 vertices, "
              "+ 300 seeded graphs on 6..8 vertices", clause=CL_MAP)
def c_relabel_map_perm(inp):
    form, a, p = inp
    A = _A(a)
    B = L.relabelled(A, p)
    g1, g2 = (A.copy(), B.copy()) if form == "adj" else (_nxg(A), _nxg(B))
    m = rm.get_relabel_map(g1, g2)
    return _check_map(A, B, m, "get_relabel_map")


# ------------------------------------------------------------------ label sampling
def _check_rows(rows, n, what):
    rows = np.array(rows)
    if rows.ndim != 2 or rows.shape[1] != n:
        return f"{what}: result has shape {rows.shape}, rows must have length {n}"
    ident = False
    for r in rows:
        if sorted(int(x) for x in r) != list(range(n)):
            return f"{what}: row {r.tolist()} is not a permutation of 0..{n - 1}"
        ident = ident or [int(x) for x in r] == list(range(n))
    if not ident:
        return f"{what}: the identity labelling is missing"
    return None


@S.item("_label_finder.rows", site=f"{_RM}:_label_finder",
        bound="n_node in 2..9 x n_label in {1,2,5,min(24,n!)} x exhaustive x thresh in {None,1,50} x seeds {0,1,None} (exhaustive only for n_node<=8)",
        exhaustive=True, clause=CL_ISO + " (every candidate labelling is a permutation; the identity is among them)")
def c_label_finder(inp):
    n_label, n_node, exhaustive, seed, thresh = inp
    with warnings.catch_warnings():
        warnings.simplefilter("ignore")
        rows = rm._label_finder(n_label, n_node, exhaustive=bool(exhaustive), seed=seed, thresh=thresh)
    r = _check_rows(rows, n_node, "_label_finder")
    if r:
        return r
    if len(rows) > n_label:
        return f"_label_finder: {len(rows)} labellings, {n_label} asked"
    return None


@S.item("_add_labels.rows", site=f"{_RM}:_add_labels",
        bound="start = _label_finder(k, n) for n in {3,4,5,8,9}, k in {1,3}; add_n in {1,4,30}; exhaustive (n<=8); thresh {None,1,50}; seeds {0,1}",
        exhaustive=True, clause=CL_ISO + " (every candidate labelling is a permutation; the identity is among them)")
def c_add_labels(inp):
    k, n_node, add_n, exhaustive, seed, thresh = inp
    with warnings.catch_warnings():
        warnings.simplefilter("ignore")
        start = rm._label_finder(k, n_node, seed=seed)
        rows = rm._add_labels(start, add_n, exhaustive=bool(exhaustive), seed=seed, thresh=thresh)
    r = _check_rows(rows, n_node, "_add_labels")
    if r:
        return r
    if len(rows) > min(len(start) + add_n, math.factorial(n_node)):
        return f"_add_labels: {len(rows)} labellings from {len(start)} + {add_n}"
    return None


# ------------------------------------------------------------------ automorph_check
@S.item("automorph_check.images", site=f"{_RM}:automorph_check",
        bound="ALL graphs n<=4 x 6 seeded label arrays (1..8 rows, with repeats) + 400 seeded graphs n=5,6", clause=CL_ISO +
        " (element 0 is the input; the rest are exactly the distinct relabellings different from the input)")
def c_automorph(inp):
    a, labels = inp
    A = _A(a)
    n = len(A)
    out = rm.automorph_check(A.copy(), np.array(labels, dtype=int))
    out = np.array(out)
    if out.ndim != 3 or out.shape[1:] != (n, n):
        return f"result shape {out.shape}"
    if not np.array_equal(out[0], A):
        return "element 0 is not the input matrix"
    keys = [L.key(M) for M in out]
    if len(set(keys)) != len(keys):
        return "result contains the same adjacency matrix twice"
    want = {L.key(L.relabelled(A, p)) for p in labels} | {L.key(A)}
    if set(keys) != want:
        return f"set of returned matrices differs from the set of relabellings: {len(set(keys) - want)} foreign, {len(want - set(keys))} missing"
    return None


# ------------------------------------------------------------------ iso_finder
def _call_iso_finder(inp):
    a, n_iso, rel, exh, sort_emit, label_map, thresh, seed = inp
    A = _A(a)
    n = len(A)
    with warnings.catch_warnings():
        warnings.simplefilter("ignore")
        try:
            out = rm.iso_finder(A.copy(), n_iso, rel_inc_thresh=rel, allow_exhaustive=bool(exh), sort_emit=bool(sort_emit),
                                label_map=bool(label_map), thresh=thresh, seed=seed)
        except AssertionError as e:
            if n_iso > math.factorial(n) and "more than the maximum possible" in str(e):
                return A, None, None, True  # documented refusal: more labellings asked than exist
            raise
    if isinstance(out, tuple):
        if len(out) != 2:
            raise ValueError(f"tuple of length {len(out)} returned")
        return A, np.array(out[0]), out[1], False
    return A, np.array(out), None, False


@S.item("iso_finder.isomorphs", site=f"{_RM}:iso_finder",
        bound="seeded selection; graphs: ALL n<=4 + (quick 60 seeded / thorough ALL 1024) n=5 + 12 graphs on 8 vertices (K8, empty, star, path, cycle, 7 seeded); "
              "n_iso in {1,2,5,24,200} ({1,3,10,40} on 8 vertices); rel_inc_thresh {0.2,0,1}; allow_exhaustive; sort_emit; label_map; thresh {None,1,50}; seeds {0,1,2,None}: "
              "full product (thorough; on 5 vertices only rel_inc_thresh {0.2,0}, thresh None, seed 0) / 5700 seeded combinations (quick)",
        clause=CL_ISO + "; " + CL_MAP + " (label_map=True)")
def c_iso_finder(inp):
    A, arr, maps, refused = _call_iso_finder(inp)
    if refused:
        return None
    n = len(A)
    n_iso = inp[1]
    if arr.ndim != 3 or arr.shape[1:] != (n, n):
        return f"result shape {arr.shape} is not a list of {n}x{n} matrices"
    if len(arr) > n_iso:
        return f"{len(arr)} matrices returned, {n_iso} requested"
    if len(arr) == 0:
        return "nothing returned (the input itself counts)"
    keys = []
    for i, M in enumerate(arr):
        if not L.is_simple_adj(M, n):
            return f"element {i} is not a simple adjacency matrix: {np.array(M).tolist()}"
        if L.find_isomorphism(A, np.array(M, dtype=int)) is None:
            return f"element {i} = {np.array(M).astype(int).tolist()} is not isomorphic to the input"
        keys.append(L.key(M))
    if len(set(keys)) != len(keys):
        return "the same adjacency matrix is returned twice"
    if maps is not None:
        if len(maps) < len(arr):
            return f"{len(maps)} label maps for {len(arr)} matrices"
        for i, M in enumerate(arr):
            r = _check_map(A, np.array(M, dtype=int), maps[i], f"label map {i}")
            if r:
                return r
    return None


@S.item("iso_finder.smallest_graphs", site=f"{_RM}:iso_finder",
        bound="fixed list: the graphs on 1 and 2 vertices x n_iso in {1,2} x seed in {0,1}, other options default",
        exhaustive=True, clause=CL_ISO + "; " + CL_FIRST)
def c_iso_smallest(inp):
    return c_iso_finder(inp) or c_iso_first(inp)


@S.item("iso_finder.input_first", site=f"{_RM}:iso_finder", bound="same domain as iso_finder.isomorphs (both values of sort_emit)", clause=CL_FIRST)
def c_iso_first(inp):
    A, arr, maps, refused = _call_iso_finder(inp)
    if refused:
        return None
    if len(arr) == 0 or not np.array_equal(np.array(arr[0]).astype(int), A):
        return f"first returned matrix is {np.array(arr[0]).astype(int).tolist() if len(arr) else None}, not the input"
    return None


@S.item("iso_finder.input_first_sort_emit", site=f"{_RM}:iso_finder",
        bound="fixed list: sort_emit=True: ALL 64 labelled graphs on 4 vertices x n_iso in {5,24} x label_map x seed in {0,1}; other options default "
              "(fixed list, independent of tier and run seed)", exhaustive=True, clause=CL_FIRST + " (also when the result is sorted by emitter count)")
def c_iso_first_sorted(inp):
    return c_iso_first(inp)


# ------------------------------------------------------------------ orbit explorers
def _check_orbit_list(A, out, distinct, what):
    n = len(A)
    if not isinstance(out, list) or len(out) == 0:
        return f"{what}: result is not a non-empty list: {type(out).__name__}"
    orbit = L.orbit_of(A)
    keys = []
    for i, g in enumerate(out):
        M = _graph_adj(g, n)
        if M is None:
            return f"{what}: element {i} is not a graph on the vertices 0..{n - 1}"
        if L.key(M) not in orbit:
            return f"{what}: element {i} = {M.tolist()} is not in the LC orbit of the input (orbit size {len(orbit)})"
        keys.append(L.key(M))
    if distinct and len(set(keys)) != len(keys):
        dup = [i for i, k in enumerate(keys) if keys.index(k) != i]
        return f"{what}: elements {dup} repeat earlier graphs although distinct graphs were asked"
    return None


@S.item("lc_orbit_finder.orbit", site=f"{_RM}:lc_orbit_finder",
        bound="graphs: ALL n<=4 + connected n=5 (quick 60 seeded / thorough all 728); comp_depth {None,1,2}; orbit_size_thresh {None,1,3,10}; "
              "with_iso; rand (np.random seeded from the input); rep_allowed (only with a finite depth or size limit): full product",
        exhaustive=True, clause=CL_ORBIT + "; " + CL_DISTINCT + " (rep_allowed=False)")
def c_lc_orbit_finder(inp):
    a, depth, size, with_iso, rand, rep, npseed = inp
    A = _A(a)
    g = _nxg(A)
    np.random.seed(npseed)
    out = rm.lc_orbit_finder(g, comp_depth=depth, orbit_size_thresh=size, with_iso=bool(with_iso), rand=bool(rand), rep_allowed=bool(rep))
    return _check_orbit_list(A, out, not rep, "lc_orbit_finder")


@S.item("rgs_orbit_finder.orbit", site=f"{_RM}:rgs_orbit_finder",
        bound="repeater graphs with 2,3,4 core vertices x (identity + 40 seeded relabellings) [orbit + distinct]; ALL connected graphs n<=5 "
              "[either refused by the function's own assert, or every result in the orbit]", exhaustive=True, clause=CL_ORBIT + "; " + CL_DISTINCT)
def c_rgs(inp):
    a, is_rgs = inp
    A = _A(a)
    try:
        out = rm.rgs_orbit_finder(_nxg(A))
    except AssertionError as e:
        if is_rgs:
            return f"repeater graph refused: AssertionError({e})"
        return None
    return _check_orbit_list(A, out, bool(is_rgs), "rgs_orbit_finder")


@S.item("linear_partial_orbit.orbit", site=f"{_RM}:linear_partial_orbit",
        bound="paths on 3..9 vertices labelled along the chain [orbit + distinct] and 40 seeded relabellings each [orbit]; ALL connected graphs "
              "n<=5 [either refused by the function's own assert, or every result in the orbit]", exhaustive=True, clause=CL_ORBIT + "; " + CL_DISTINCT)
def c_linear(inp):
    a, kind = inp  # kind: "chain" (0-1-2-...), "path" (relabelled path), "any"
    A = _A(a)
    try:
        out = rm.linear_partial_orbit(_nxg(A))
    except AssertionError as e:
        if kind in ("chain", "path"):
            return f"linear graph refused: AssertionError({e})"
        return None
    return _check_orbit_list(A, out, kind == "chain", "linear_partial_orbit")


@S.item("depth_first_orbit.orbit", site=f"{_RM}:depth_first_orbit",
        bound="ALL labelled graphs n<=4 (connected or not) + connected n=5 (quick 80 seeded / thorough all 728)", exhaustive=True, clause=CL_ORBIT)
def c_depth_first(inp):
    A = _A(inp)
    out = rm.depth_first_orbit(_nxg(A))
    return _check_orbit_list(A, out, False, "depth_first_orbit")


@S.item("_partial_orbit.range", site=f"{_RM}:_partial_orbit", bound="n = 1..16 (complete for these n)", exhaustive=True,
        clause=CL_ORBIT + " (every scripted vertex is a vertex of the n-vertex graph)")
def c_partial_orbit(inp):
    n = int(inp)
    seqs = rm._partial_orbit(n)
    for s in seqs:
        for x in s:
            if not (isinstance(x, (int, np.integer)) and 0 <= x < n):
                return f"script {s} contains {x!r}, not a vertex of 0..{n - 1}"
    return None


@S.item("check_isomorphism.exists", site=f"{_RM}:check_isomorphism",
        bound="seeded: graph + list of 0..5 graphs on the same n<=5 vertices (drawn with isomorphic / identical members) x _only_auto; quick 3000, thorough 30000",
        clause=CL_DISTINCT + " (the duplicate test is: some list member is isomorphic / identical to the graph)")
def c_check_iso(inp):
    a, lst, only_auto = inp
    A = _A(a)
    got = rm.check_isomorphism(_nxg(A), [_nxg(_A(b)) for b in lst], _only_auto=bool(only_auto))
    if only_auto:
        want = any(np.array_equal(A, _A(b)) for b in lst)
    else:
        want = any(L.find_isomorphism(A, _A(b)) is not None for b in lst)
    if bool(got) != want:
        return f"returned {got!r}, expected {want}"
    return None


# ------------------------------------------------------------------ input construction variants, argument frames, repeated use
BUILDS = ("np", "npf", "plain", "attr")


def _build(kind, A, order=None):
    """the same labelled graph built in different ways (vertices 0..n-1):
       np     nx.from_numpy_array(int matrix)      - every edge carries weight=1
       npf    nx.from_numpy_array(float matrix)    - weight=1.0
       plain  nx.Graph() + add_edges_from          - no edge attributes at all (like nx.path_graph / nx.Graph(edge list))
       attr   weight=1 plus other edge / node / graph attributes, edges added in reverse order
       order  (only for fixed items) the sequence in which the nodes are inserted; default 0..n-1"""
    A = np.array(A, dtype=int)
    n = len(A)
    if kind == "np" and order is None:
        return nx.from_numpy_array(A.copy())
    if kind == "npf" and order is None:
        return nx.from_numpy_array(A.astype(float))
    g = nx.Graph()
    g.add_nodes_from(list(range(n)) if order is None else [int(x) for x in order])
    edges = [(i, j) for i in range(n) for j in range(i + 1, n) if A[i, j]]
    if kind == "plain":
        g.add_edges_from(edges)
    elif kind == "np":
        g.add_edges_from(edges, weight=1)
    elif kind == "npf":
        g.add_edges_from(edges, weight=1.0)
    elif kind == "attr":
        g.graph["name"] = "target"
        for k, (i, j) in enumerate(reversed(edges)):
            g.add_edge(j, i, weight=1, color="rgb"[k % 3], length=2.5 + k)
        for v in g.nodes:
            g.nodes[v]["pos"] = (v, -v)
    else:
        raise ValueError(kind)
    return g


def _gfp(g):
    """everything a caller can observe of a networkx graph: node order, adjacency order, attribute dictionaries"""
    return ([(u, sorted(d.items(), key=repr)) for u, d in g.nodes(data=True)],
            [(u, [(v, sorted(d.items(), key=repr)) for v, d in nb.items()]) for u, nb in g.adj.items()], sorted(g.graph.items(), key=repr))


CL_EQUAL = CL_DISTINCT + " (the with_iso duplicate test: two graphs are the same exactly when they have the same adjacency matrix)"


@S.item("_equal_graphs.adjacency_definition", site=f"{_RM}:_equal_graphs",
        bound="ALL ordered pairs of labelled graphs on n<=4 vertices (4165) x a rotating pair of constructions out of {from_numpy_array int, from_numpy_array "
              "float, no edge attributes, extra attributes} x both argument orders; nodes inserted 0..n-1 in both graphs", exhaustive=True, clause=CL_EQUAL)
def c_equal_graphs(inp):
    a, ka, b, kb = inp
    A, B = _A(a), _A(b)
    g1, g2 = _build(ka, A), _build(kb, B)
    f1, f2 = _gfp(g1), _gfp(g2)
    want = np.array_equal(A, B)
    for x, y, nm in ((g1, g2, "(g1,g2)"), (g2, g1, "(g2,g1)"), (g1, g2, "(g1,g2) again")):
        got = rm._equal_graphs(x, y)
        if bool(got) != want:
            return f"_equal_graphs{nm} = {got!r} for graphs built as {ka}/{kb} whose adjacency matrices are {'equal' if want else 'different'}"
    if _gfp(g1) != f1 or _gfp(g2) != f2:
        return "an argument graph was modified"
    return None


@S.item("check_isomorphism.construction_variants", site=f"{_RM}:check_isomorphism",
        bound="seeded: graph + list of 1..4 graphs on the same n<=5 vertices (identical / isomorphic / other members), every graph built in a seeded "
              "construction out of {from_numpy_array int / float, no edge attributes, extra attributes} x _only_auto; quick 1500, thorough 15000",
        clause=CL_DISTINCT + " (the duplicate test does not depend on how the graphs were built)")
def c_check_iso_builds(inp):
    a, ka, lst, only_auto = inp
    A = _A(a)
    g = _build(ka, A)
    gl = [_build(kb, _A(b)) for b, kb in lst]
    fps = [_gfp(x) for x in [g] + gl]
    if only_auto:
        want = any(np.array_equal(A, _A(b)) for b, _ in lst)
    else:
        want = any(L.find_isomorphism(A, _A(b)) is not None for b, _ in lst)
    for k in (1, 2):
        got = rm.check_isomorphism(g, gl, _only_auto=bool(only_auto))
        if bool(got) != want:
            return f"call #{k}: returned {got!r}, expected {want} (graph built as {ka}, list members as {[kb for _, kb in lst]})"
    if [_gfp(x) for x in [g] + gl] != fps:
        return "an argument graph was modified"
    return None


def _explore(fn, g, opts):
    if fn == "lc_orbit_finder":
        depth, size, with_iso, rand, rep, npseed = opts
        np.random.seed(npseed)
        return rm.lc_orbit_finder(g, comp_depth=depth, orbit_size_thresh=size, with_iso=bool(with_iso), rand=bool(rand), rep_allowed=bool(rep)), not rep
    if fn == "rgs_orbit_finder":
        return rm.rgs_orbit_finder(g), True
    if fn == "linear_partial_orbit":
        return rm.linear_partial_orbit(g), bool(opts)  # opts: labelled along the chain
    if fn == "depth_first_orbit":
        return rm.depth_first_orbit(g), False
    raise ValueError(fn)


def _explorer_case(inp, order=None):
    fn, kind, a, opts = inp
    A = _A(a)
    g = _build(kind, A, order)
    f0 = _gfp(g)
    for k in (1, 2):  # the same graph object is explored twice
        out, distinct = _explore(fn, g, opts)
        what = f"{fn}(graph built as {kind}{'' if order is None else ', nodes inserted as ' + str(list(order))}; {opts}) call #{k}"
        if _gfp(g) != f0:
            return f"{what}: the input graph was modified"
        r = _check_orbit_list(A, out, distinct, what)
        if r:
            return r
    if fn in ("lc_orbit_finder", "depth_first_orbit") and order is None and len(A) >= 3:
        # query - edit - query: the caller toggles the edge (0,1) of the graph it holds (another vertex pair if that disconnects it) and explores again
        n = len(A)
        for u, v in ((0, 1), (0, 2), (1, 2)):
            A2 = A.copy()
            A2[u, v] = A2[v, u] = 1 - A2[u, v]
            if R.is_connected(A2):
                break
        else:
            return None
        if A2[u, v]:
            g.add_edge(u, v)
        else:
            g.remove_edge(u, v)
        out, distinct = _explore(fn, g, opts)
        r = _check_orbit_list(A2, out, distinct, f"{fn}(graph built as {kind}; {opts}) after the caller toggled the edge ({u},{v}) of the explored graph")
        if r:
            return r
    return None


@S.item("orbit_explorers.construction_variants", site=f"{_RM}:lc_orbit_finder, rgs_orbit_finder, linear_partial_orbit, depth_first_orbit, check_isomorphism, _equal_graphs",
        bound="nodes inserted 0..n-1 (other insertion orders: fixed items orbit_explorers.node_order, _equal_graphs.node_order). lc_orbit_finder: ALL connected graphs on 3,4 vertices + "
              "path / cycle / star on 5,6 vertices + seeded connected graphs on 5 vertices (quick 12, thorough 200) x the 4 constructions x comp_depth {1,2,3} "
              "x with_iso x rep_allowed (+ rand=True at depth 2, + orbit_size_thresh 4 at depth 3); rgs_orbit_finder: repeater graphs with 2,3 cores; "
              "linear_partial_orbit: chains on 3..7 vertices; depth_first_orbit: connected graphs on 3,4 vertices; each x the 4 constructions. Per case the "
              "SAME graph object is explored twice (it must stay unchanged), then the caller toggles one edge of it and explores again (lc_orbit_finder, depth_first_orbit)", clause=CL_ORBIT + "; " + CL_DISTINCT + " - for every way the input graph is built")
def c_explorer_builds(inp):
    return _explorer_case(inp)


@S.item("_equal_graphs.node_order", site=f"{_RM}:_equal_graphs, check_isomorphism",
        bound="fixed list, seed-independent: ALL ordered pairs of labelled graphs on 3 vertices and of connected graphs on 4 vertices x 3 combinations of node "
              "insertion orders (sorted/shuffled, shuffled/sorted, shuffled/other shuffle), constructions plain / from_numpy_array-like", exhaustive=True,
        clause=CL_EQUAL + " - vertices are compared by label: a networkx graph does not depend on the order in which its nodes were added")
def c_equal_graphs_order(inp):
    a, o1, b, o2 = inp
    A, B = _A(a), _A(b)
    g1, g2 = _build("plain", A, o1), _build("np", B, o2)
    want = np.array_equal(A, B)
    got = rm._equal_graphs(g1, g2)
    if bool(got) != want:
        return f"_equal_graphs = {got!r} for {'the same' if want else 'different'} labelled graphs whose nodes were inserted as {o1} / {o2}"
    got = rm.check_isomorphism(g1, [g2], _only_auto=True)
    if bool(got) != want:
        return f"check_isomorphism(_only_auto=True) = {got!r} for {'the same' if want else 'different'} labelled graphs whose nodes were inserted as {o1} / {o2}"
    return None


NODE_ORDERS = {3: [[1, 0, 2], [2, 1, 0]], 4: [[3, 2, 1, 0], [1, 2, 3, 0]], 5: [[4, 0, 3, 1, 2]], 6: [[5, 3, 1, 0, 2, 4]]}


@S.item("orbit_explorers.node_order", site=f"{_RM}:lc_orbit_finder, rgs_orbit_finder, linear_partial_orbit, depth_first_orbit ; "
        "graphiq.backends.lc_equivalence_check:local_comp_graph",
        bound="fixed sample, seed-independent (regression inputs of the repaired node-order defects of local_comp_graph / _equal_graphs): graphs on the vertices 0..n-1 whose nodes were INSERTED in another order "
              "(nx.Graph(edge list) / relabel_nodes produce such graphs): path, star, cycle, paw on 4 vertices, path on 3 and 5 vertices, repeater graph on 4 and 6 vertices x "
              "1-2 insertion orders x {lc_orbit_finder depth 1 / depth 2 with_iso, depth_first_orbit, linear_partial_orbit (paths), rgs_orbit_finder (repeater graphs)}",
        exhaustive=True, clause=CL_ORBIT + " (a networkx graph does not depend on the order in which its nodes were added)")
def c_explorer_node_order(inp):
    fn, kind, a, opts, order = inp
    return _explorer_case([fn, kind, a, opts], order=order)


@S.item("relabel_map.round_trip", site=f"{_RM}:get_relabel_map, relabel, iso_finder",
        bound="graph 2 = graph 1 relabelled by a permutation that is NOT an involution (contains a cycle of length >= 3): ALL graphs on 3,4 vertices x all such "
              "permutations (2 + 14 per graph) + seeded graphs on 5..7 and (every fourth) 10..12 vertices (quick 300, thorough 3000); graphs given as int / float arrays or networkx "
              "graphs of the 4 constructions: relabel(adj1, get_relabel_map(g1, g2)) must be adj2; and for iso_finder(adj1, n_iso in {3,6}, label_map=True, "
              "seeds 0..2) every (matrix_i, map_i): relabel(adj1, map_i) = matrix_i; arguments unchanged", clause=CL_MAP + "; " + CL_RELABEL)
def c_round_trip(inp):
    form, a, p = inp
    A = _A(a)
    n = len(A)
    B = L.relabelled(A, p)
    if form in ("int", "float"):
        g1, g2 = (A.copy(), B.copy()) if form == "int" else (A.astype(float), B.astype(float))
        fp = lambda: (g1.dtype.str, g1.tobytes(), g2.dtype.str, g2.tobytes())  # noqa: E731
    else:
        g1, g2 = _build(form, A), _build(form, B)
        fp = lambda: (_gfp(g1), _gfp(g2))  # noqa: E731
    f0 = fp()
    for k in (1, 2):
        m = rm.get_relabel_map(g1, g2)
        r = _check_map(A, B, m, f"get_relabel_map call #{k} ({form})")
        if r:
            return r
        lab = np.array([int(m[u]) for u in range(n)])
        out = rm.relabel(A.copy(), lab)
        if not np.array_equal(out, B):
            return f"relabel(adj1, get_relabel_map(adj1, adj2)) = {np.array(out).tolist()} is not adj2 = {B.tolist()} (map {[int(x) for x in lab]})"
        if fp() != f0:
            return "get_relabel_map modified an argument"
    if form in ("int", "float") and n <= 5:
        for n_iso in (3, 6):
            for sd in (0, 1, 2):
                with warnings.catch_warnings():
                    warnings.simplefilter("ignore")
                    res = rm.iso_finder(g1, n_iso, label_map=True, seed=sd)
                if fp() != f0:
                    return f"iso_finder(n_iso={n_iso}, seed={sd}) modified its matrix argument ({form})"
                if not isinstance(res, tuple):
                    continue  # early return path: bare array (see findings: accepted)
                arr, maps = res
                if len(arr) > n_iso or not np.array_equal(np.array(arr[0]).astype(int), A):
                    return f"iso_finder(n_iso={n_iso}, seed={sd}) returned {len(arr)} matrices / not the input first"
                for M, mp in zip(arr, maps):
                    lab = np.array([int(mp[u]) for u in range(n)])
                    if not np.array_equal(rm.relabel(A.copy(), lab), np.array(M).astype(int)):
                        return f"iso_finder(n_iso={n_iso}, seed={sd}): relabel(input, map) != returned matrix for map {[int(x) for x in lab]}"
    return None


@S.item("iso_finder.argument_frames", site=f"{_RM}:iso_finder, automorph_check, relabel",
        bound="ALL graphs on 3,4 vertices + 40 seeded graphs on 5,6 vertices x dtype {int64, float64, int32} x n_iso {1,3,7} x sort_emit x seeds {0,1}: "
              "iso_finder called twice with the SAME array object: the array is bit-for-bit unchanged, both results satisfy the isomorph-finder clauses "
              "(also automorph_check / relabel called directly on the array)", clause=CL_ISO + "; " + CL_FIRST + " (without modifying the argument, on repeated use)")
def c_iso_frames(inp):
    a, dt, n_iso, sort_emit, sd = inp
    A = _A(a)
    n = len(A)
    X = A.astype({"int64": np.int64, "float64": np.float64, "int32": np.int32}[dt])
    f0 = (X.dtype.str, X.shape, X.tobytes())
    if n_iso > math.factorial(n):
        return None
    for k in (1, 2):
        with warnings.catch_warnings():
            warnings.simplefilter("ignore")
            out = rm.iso_finder(X, n_iso, sort_emit=bool(sort_emit), seed=sd)
        if (X.dtype.str, X.shape, X.tobytes()) != f0:
            return f"iso_finder call #{k} modified its {dt} matrix argument"
        arr = np.array(out)
        if arr.ndim != 3 or arr.shape[1:] != (n, n) or not (1 <= len(arr) <= n_iso):
            return f"call #{k}: result shape {arr.shape} for n_iso={n_iso}"
        if not np.array_equal(arr[0].astype(int), A):
            return f"call #{k}: first returned matrix is not the input"
        keys = [L.key(M) for M in arr]
        if len(set(keys)) != len(keys):
            return f"call #{k}: the same adjacency matrix is returned twice"
        for i, M in enumerate(arr):
            if not L.is_simple_adj(M, n) or L.find_isomorphism(A, np.array(M, dtype=int)) is None:
                return f"call #{k}: element {i} = {np.array(M).tolist()} is not a simple graph isomorphic to the input"
    labels = np.array([list(range(n)), list(range(n))[::-1], list(np.roll(np.arange(n), 1))])
    lf = labels.tobytes()
    out = np.array(rm.automorph_check(X, labels))
    if (X.dtype.str, X.shape, X.tobytes()) != f0 or labels.tobytes() != lf:
        return f"automorph_check modified an argument ({dt})"
    want = {L.key(L.relabelled(A, p)) for p in labels} | {L.key(A)}
    if {L.key(M) for M in out} != want or len(out) != len(want) or not np.array_equal(out[0].astype(int), A):
        return f"automorph_check on a {dt} matrix: wrong set of relabellings / input not first"
    return None


# ------------------------------------------------------------------ domains
def _graphs(nmax):
    return [A.tolist() for n in range(1, nmax + 1) for A in R.all_graphs(n)]


def _rand_graph(n, rng, p=0.5):
    A = np.zeros((n, n), dtype=int)
    for i in range(n):
        for j in range(i + 1, n):
            if rng.random() < p:
                A[i, j] = A[j, i] = 1
    return A


def _special8():
    n = 8
    K = (np.ones((n, n), dtype=int) - np.eye(n, dtype=int))
    E = np.zeros((n, n), dtype=int)
    St = np.zeros((n, n), dtype=int)
    St[0, 1:] = St[1:, 0] = 1
    Pa = L.path_graph(n)
    Cy = Pa.copy()
    Cy[0, n - 1] = Cy[n - 1, 0] = 1
    return [K, E, St, Pa, Cy]


def run(tier, seed):
    rng = np.random.default_rng(seed)
    thorough = tier == "thorough"
    g4 = _graphs(4)
    g5 = [A.tolist() for A in R.all_graphs(5)]
    c5 = [A.tolist() for A in L.connected_graphs(5)]

    # relabel / _perm2matrix ------------------------------------------------------------------
    rel_in = [[a, list(p)] for a in g4 + g5 for p in itertools.permutations(range(len(a)))]
    S.map("relabel.semantics", rel_in, nontrivial=lambda i: list(i[1]) != sorted(i[1]) and any(any(r) for r in i[0]), chunksize=2048)
    S.map("_perm2matrix.semantics", [list(p) for n in range(1, 7) for p in itertools.permutations(range(n))])

    # get_relabel_map ---------------------------------------------------------------------------
    pairs = [[f, a, b] for f in ("adj", "nx") for a in g4 for b in g4 if len(a) == len(b)]
    S.map("get_relabel_map.pairs", pairs, nontrivial=lambda i: L.find_isomorphism(_A(i[1]), _A(i[2])) is not None and i[1] != i[2])
    perm_in = [[("adj", "nx")[k % 2], a, list(p)] for k, (a, p) in
               enumerate((a, p) for a in g4 for p in itertools.permutations(range(len(a))))]
    if thorough:
        perm_in += [[("adj", "nx")[k % 2], a, list(p)] for k, (a, p) in enumerate((a, p) for a in g5 for p in itertools.permutations(range(5)))]
    else:
        for k in range(2000):
            perm_in.append([("adj", "nx")[k % 2], g5[int(rng.integers(len(g5)))], [int(x) for x in rng.permutation(5)]])
    for k in range(300):
        n = int(rng.integers(6, 9))
        perm_in.append([("adj", "nx")[k % 2], _rand_graph(n, rng, rng.random()).tolist(), [int(x) for x in rng.permutation(n)]])
    S.map("get_relabel_map.relabelled", perm_in, nontrivial=lambda i: list(i[2]) != sorted(i[2]) and any(any(r) for r in i[1]))

    # label sampling -----------------------------------------------------------------------------
    lf = []
    for n_node in range(2, 10):
        for n_label in sorted({1, 2, 5, min(24, math.factorial(n_node))}):
            if n_label > math.factorial(n_node):
                continue
            for exhaustive in ((False, True) if n_node <= 8 else (False,)):
                for thresh in (None, 1, 50):
                    for sd in (0, 1, None):
                        lf.append([n_label, n_node, exhaustive, sd, thresh])
    S.map("_label_finder.rows", lf, nontrivial=lambda i: i[0] > 1)
    al = [[k, n_node, add_n, exhaustive, sd, thresh] for n_node in (3, 4, 5, 8, 9) for k in (1, 3) for add_n in (1, 4, 30)
          for exhaustive in ((False, True) if n_node <= 8 else (False,)) for thresh in (None, 1, 50) for sd in (0, 1)]
    S.map("_add_labels.rows", al)

    # automorph_check ----------------------------------------------------------------------------
    au = []
    for a in g4:
        n = len(a)
        for _ in range(6):
            rows = [[int(x) for x in rng.permutation(n)] for _ in range(int(rng.integers(1, 9)))]
            if rng.random() < 0.5:
                rows.append(list(rows[0]))
            au.append([a, rows])
    for _ in range(400):
        n = int(rng.integers(5, 7))
        rows = [[int(x) for x in rng.permutation(n)] for _ in range(int(rng.integers(1, 9)))]
        au.append([_rand_graph(n, rng, rng.random()).tolist(), rows])
    S.map("automorph_check.images", au)

    # iso_finder -----------------------------------------------------------------------------------
    g8 = [A.tolist() for A in _special8()] + [_rand_graph(8, rng, p).tolist() for p in (0.15, 0.3, 0.4, 0.5, 0.6, 0.75, 0.9)]
    g5s = g5 if thorough else [g5[int(i)] for i in rng.choice(len(g5), 60, replace=False)]

    def combos(graphs, n_isos, seeds):
        for a in graphs:
            for n_iso in n_isos:
                for rel in (0.2, 0.0, 1.0):
                    for exh in (True, False):
                        for se in (False, True):
                            for lm in (False, True):
                                for th in (None, 1, 50):
                                    for sd in seeds:
                                        yield [a, n_iso, rel, exh, se, lm, th, sd]

    g4x = g4  # (the graphs on 1 and 2 vertices are also listed exhaustively in iso_finder.smallest_graphs)

    def stride(full, count, offset):
        step = max(1, len(full) // count)
        return full[offset % step::step][:count]

    if thorough:
        iso_in = list(combos(g4x, (1, 2, 5, 24, 200), (0, 1, 2, None)))
        iso_in += [c for c in combos(g5s, (1, 2, 5, 24, 200), (0,)) if c[2] != 1.0 and c[6] is None]  # thresh is inert below 8 vertices
        iso_in += list(combos(g8, (1, 3, 10, 40), (0, 1)))
    else:
        iso_in = stride(list(combos(g4x, (1, 2, 5, 24, 200), (0, 1, 2, None))), 4000, int(rng.integers(10**6)))
        iso_in += stride(list(combos(g5s, (1, 2, 5, 24, 200), (0, 1))), 1400, int(rng.integers(10**6)))
        iso_in += stride(list(combos(g8, (1, 3, 10, 40), (0, 1))), 300, int(rng.integers(10**6)))
    nt_iso = lambda i: i[1] > 1 and i[1] <= math.factorial(len(i[0]))  # noqa: E731
    S.map("iso_finder.isomorphs", iso_in, nontrivial=nt_iso)
    S.map("iso_finder.input_first", iso_in, nontrivial=nt_iso)
    S.map("iso_finder.smallest_graphs", [[a, n_iso, 0.2, True, False, False, None, sd] for a in ([[0]], [[0, 0], [0, 0]], [[0, 1], [1, 0]])
                                         for n_iso in (1, 2) for sd in (0, 1)])
    S.map("iso_finder.input_first_sort_emit",
          [[A.tolist(), n_iso, 0.2, True, True, lm, None, sd] for A in R.all_graphs(4) for n_iso in (5, 24) for lm in (False, True) for sd in (0, 1)],
          nontrivial=nt_iso)

    # orbit explorers -------------------------------------------------------------------------------
    c5s = c5 if thorough else [c5[int(i)] for i in rng.choice(len(c5), 60, replace=False)]
    of = []
    for a in g4 + c5s:
        for depth in (None, 1, 2):
            for size in (None, 1, 3, 10):
                for with_iso in (False, True):
                    for rand in (False, True):
                        for rep in (False, True):
                            if rep and depth is None and size is None:
                                continue  # unbounded walk with repetitions never ends by construction
                            of.append([a, depth, size, with_iso, rand, rep, int(rng.integers(2**31))])
    S.map("lc_orbit_finder.orbit", of, nontrivial=lambda i: len(L.orbit_of(_A(i[0]))) > 1 and i[2] != 1)

    rg = []
    for m in (2, 3, 4):
        rg.append([L.repeater_graph(m).tolist(), True])
        for _ in range(40):
            rg.append([L.repeater_graph(m, [int(x) for x in rng.permutation(2 * m)]).tolist(), True])
    conn_le5 = [A.tolist() for n in range(1, 6) for A in L.connected_graphs(n)]
    rg += [[a, False] for a in conn_le5 if not _is_repeater(a)]
    S.map("rgs_orbit_finder.orbit", rg, nontrivial=lambda i: bool(i[1]))

    li = []
    for n in range(3, 10 if thorough else 9):
        li.append([L.path_graph(n).tolist(), "chain"])
        for _ in range(40):
            li.append([L.path_graph(n, [int(x) for x in rng.permutation(n)]).tolist(), "path"])
    li += [[a, "any"] for a in conn_le5 if not _is_path(a)]
    S.map("linear_partial_orbit.orbit", li, nontrivial=lambda i: i[1] != "any")

    df = list(g4) + (c5 if thorough else [c5[int(i)] for i in rng.choice(len(c5), 80, replace=False)])
    S.map("depth_first_orbit.orbit", df, nontrivial=lambda a: len(L.orbit_of(_A(a))) > 1)
    S.map("_partial_orbit.range", list(range(1, 17)))

    ci = []
    pools = {n: [A for A in R.all_graphs(n)] for n in range(2, 6)}
    for _ in range(30000 if thorough else 3000):
        n = int(rng.integers(2, 6))
        gs = pools[n]
        A = gs[int(rng.integers(len(gs)))]
        lst = []
        for _ in range(int(rng.integers(0, 6))):
            r = rng.random()
            if r < 0.15:
                lst.append(A.tolist())
            elif r < 0.4:
                lst.append(L.relabelled(A, rng.permutation(n)).tolist())
            else:
                lst.append(gs[int(rng.integers(len(gs)))].tolist())
        ci.append([A.tolist(), lst, bool(rng.integers(2))])
    S.map("check_isomorphism.exists", ci, nontrivial=lambda i: len(i[1]) > 0)

    # construction variants / frames / repeated use -------------------------------------------------------
    rb = np.random.default_rng([seed, 1616])
    nb = len(BUILDS)
    eq_in = [[a, BUILDS[k % nb], b, BUILDS[(k // nb + k) % nb]] for k, (a, b) in enumerate((a, b) for a in g4 for b in g4 if len(a) == len(b))]
    S.map("_equal_graphs.adjacency_definition", eq_in, nontrivial=lambda i: i[0] == i[2] and any(any(r) for r in i[0]))

    cb = []
    for _ in range(15000 if thorough else 1500):
        n = int(rb.integers(3, 6))
        gs = pools[n]
        A = gs[int(rb.integers(len(gs)))]
        lst = []
        for _ in range(int(rb.integers(1, 5))):
            r = rb.random()
            if r < 0.3:
                M = A
            elif r < 0.55:
                M = L.relabelled(A, rb.permutation(n))
            else:
                M = gs[int(rb.integers(len(gs)))]
            lst.append([np.array(M).tolist(), BUILDS[int(rb.integers(nb))]])
        cb.append([A.tolist(), BUILDS[int(rb.integers(nb))], lst, bool(rb.integers(2))])
    S.map("check_isomorphism.construction_variants", cb)

    def named(n):
        Pa = L.path_graph(n)
        Cy = Pa.copy()
        Cy[0, n - 1] = Cy[n - 1, 0] = 1
        St = np.zeros((n, n), dtype=int)
        St[0, 1:] = St[1:, 0] = 1
        return [Pa.tolist(), Cy.tolist(), St.tolist()]

    ex_graphs = [A.tolist() for n in (3, 4) for A in L.connected_graphs(n)] + named(5) + named(6)
    ex_graphs += [c5[int(i)] for i in rb.choice(len(c5), 200 if thorough else 12, replace=False)]
    ex = []
    for a in ex_graphs:
        for kind in BUILDS:
            for depth in (1, 2, 3):
                for with_iso in (False, True):
                    for rep in (False, True):
                        if rep and len(a) >= 6 and depth == 3:
                            continue  # n^3 graphs with repetitions: nothing new to see, only slow
                        ex.append(["lc_orbit_finder", kind, a, [depth, None, with_iso, False, rep, 0]])
            ex.append(["lc_orbit_finder", kind, a, [2, None, True, True, False, int(rb.integers(2**31))]])
            ex.append(["lc_orbit_finder", kind, a, [3, 4, True, False, False, 0]])
    for kind in BUILDS:
        ex += [["rgs_orbit_finder", kind, L.repeater_graph(m).tolist(), None] for m in (2, 3)]
        ex += [["linear_partial_orbit", kind, L.path_graph(n).tolist(), True] for n in range(3, 8)]
        ex += [["depth_first_orbit", kind, A.tolist(), None] for n in (3, 4) for A in L.connected_graphs(n)]
    S.map("orbit_explorers.construction_variants", ex, nontrivial=lambda i: len(L.orbit_of(_A(i[2]))) > 1)

    # node insertion order: FIXED list (independent of tier and seed)
    paw = [[0, 1, 1, 0], [1, 0, 1, 0], [1, 1, 0, 1], [0, 0, 1, 0]]
    no = []
    for a in [L.path_graph(3).tolist()] + named(4) + [paw, L.path_graph(5).tolist()]:
        for order in NODE_ORDERS[len(a)]:
            no.append(["lc_orbit_finder", "plain", a, [1, None, True, False, False, 0], order])
            no.append(["lc_orbit_finder", "plain", a, [2, None, True, False, False, 0], order])
            no.append(["depth_first_orbit", "plain", a, None, order])
    for n in (3, 4, 5):
        for order in NODE_ORDERS[n]:
            no.append(["linear_partial_orbit", "plain", L.path_graph(n).tolist(), False, order])
    for m in (2, 3):
        for order in NODE_ORDERS[2 * m]:
            no.append(["rgs_orbit_finder", "plain", L.repeater_graph(m).tolist(), None, order])
    S.map("orbit_explorers.node_order", no)

    eo = []
    for n, gs in ((3, list(R.all_graphs(3))), (4, L.connected_graphs(4))):
        o = NODE_ORDERS[n]
        srt = list(range(n))
        for A in gs:
            for B in gs:
                for o1, o2 in ((srt, o[0]), (o[1], srt), (o[0], o[1])):
                    eo.append([A.tolist(), o1, B.tolist(), o2])
    S.map("_equal_graphs.node_order", eo, nontrivial=lambda i: i[0] == i[2])

    def non_involutions(n):
        return [list(q) for q in itertools.permutations(range(n)) if any(q[q[i]] != i for i in range(n))]

    forms = ("int", "float") + BUILDS
    rt = [[forms[k % 6], a, q] for k, (a, q) in enumerate((a, q) for a in g4 if len(a) >= 3 for q in non_involutions(len(a)))]
    k = 0
    while k < (3000 if thorough else 300):
        n = int(rb.integers(5, 8)) if k % 4 else int(rb.integers(10, 13))  # every fourth: two-digit vertex labels
        q = [int(x) for x in rb.permutation(n)]
        if all(q[q[i]] == i for i in range(n)):
            continue
        rt.append([forms[k % 6], _rand_graph(n, rb, rb.random()).tolist(), q])
        k += 1
    S.map("relabel_map.round_trip", rt, nontrivial=lambda i: any(any(r) for r in i[1]))

    fr_graphs = [a for a in g4 if len(a) >= 3] + [_rand_graph(int(rb.integers(5, 7)), rb, rb.random()).tolist() for _ in range(40)]
    fr = [[a, dt, n_iso, se, sd] for a in fr_graphs for dt in ("int64", "float64", "int32") for n_iso in (1, 3, 7) for se in (False, True) for sd in (0, 1)
          if n_iso <= math.factorial(len(a))]
    S.map("iso_finder.argument_frames", fr, nontrivial=lambda i: i[2] > 1)

    S.note("iso_finder: AssertionError 'more than the maximum possible' is accepted as a refusal only when n_iso > n! (the function's own documented guard)")
    S.note("lc_orbit_finder(rand=True) draws from the global numpy generator; the monitor seeds it from the input so that replays are exact")
    S.note("distinctness is demanded of lc_orbit_finder(rep_allowed=False), of rgs_orbit_finder, and of linear_partial_orbit on chains labelled 0-1-2-...; "
           "a relabelled path makes linear_partial_orbit repeat graphs (its script assumes the chain labelling) - not demanded")
    return S


def _is_repeater(a):
    A = _A(a)
    n = len(A)
    if n % 2 or n < 4:
        return False
    return L.find_isomorphism(L.repeater_graph(n // 2), A) is not None


def _is_path(a):
    A = _A(a)
    n = len(A)
    return n >= 3 and L.find_isomorphism(L.path_graph(n), A) is not None
