"""C18 - circuit cost metrics equal the quantities they are defined as  (bounded stand-in, tag [B]).

Every metric class of graphiq/metrics.py that is a function of the circuit is evaluated on the REAL circuit object, once
constructed with its default arguments and once with an explicit penalty function (x -> 3x+2), and compared with the
independent definition in refsem/metrics.py computed from the input's operation list (never from the DAG).

input (JSON):  {"regs":[ne,np,nc], "ops":[op,...]}                    circuit built with add() in list order
               {"regs":[ne,np,nc], "seed":s, "len":L}                 circuit built by a random edit history (C12 driver);
                                                                      the definition is evaluated on the wire model
op descriptors: see refsem/dagmodel.py
"""
from __future__ import annotations

import itertools

import numpy as np

from vf.bounded import Suite
from refsem import metrics as rm
from refsem import dagmodel as dm
from bounded.C12 import mk_op, Run, op_alphabet, real_desc

S = Suite("C18")
PEN = (3, 2)  # explicit penalty x -> 3x+2


def penalty(x):
    return PEN[0] * x + PEN[1]


def build(inp):
    """-> (fresh real circuit, n_e, ops list in an applicable order, cw or None)"""
    if "ops" in inp:
        from graphiq.circuit.circuit_dag import CircuitDAG

        ne, np_, nc = inp["regs"]
        c = CircuitDAG(n_emitter=ne, n_photon=np_, n_classical=nc)
        for d in inp["ops"]:
            c.add(mk_op(d))
        return c, c.n_emitters, [list(d) for d in inp["ops"]], None
    r = history(inp)
    order = r.m.linear_order()
    ops = [r.m.ops[u] for u in order]
    cw = [sorted(int(k[1:]) for k in r.m.cwired[u]) for u in order]
    return r.c, r.m.n["e"], ops, cw


def history(inp):
    rng = np.random.default_rng([inp["seed"], 18])
    r = Run(inp["regs"], deep=False)
    r.check("construction")
    for _ in range(inp["len"]):
        m = r.m
        A = [d for d in op_alphabet(m.n, "A", True) if not (d[0] == "mcr" and d[2][0] == "e")]
        x = rng.random()
        if x < 0.35:
            ed = ["add", A[rng.integers(len(A))]]
        elif x < 0.8:
            d = A[rng.integers(len(A))]
            ed = ["ins", d, [int(rng.integers(len(m.wires[dm.key(q)]) + 1)) for q in dm.qregs(d)]]
        elif x < 0.92:
            ed = ["rm", int(rng.integers(max(1, len(m.ops))))]
        else:
            ed = ["copy"]
        s = r.apply(ed)
        if s:
            raise RuntimeError("C12 failure while building the circuit: " + s)
    return r


def both(cls_name, kw, inp, want_fn, allow_no_emitter=False):
    """evaluate metric class `cls_name` with default arguments and with the explicit penalty (keyword kw)"""
    import graphiq.metrics as gm

    for explicit in (False, True):
        c, ne, ops, cw = build(inp)
        want = want_fn(ne, ops, cw)
        met = getattr(gm, cls_name)(**({kw: penalty} if explicit else {}))
        if want is None and allow_no_emitter:
            try:
                met.evaluate(None, c)
            except ValueError:
                pass  # max() over no emitters: the quantity is undefined, raising is allowed
            continue
        got = met.evaluate(None, c)
        exp = penalty(want) if explicit else want
        if got != exp or isinstance(got, bool):
            return f"{cls_name}({'penalty 3x+2' if explicit else 'default'}).evaluate = {got!r}, definition gives {exp!r}"
    return None


M = "graphiq.metrics:"
BOUND = (
    "all circuits of <= 2 ops over the full alphabet (7 one-qubit gates, 3 wrappers, MeasurementZ, CNOT, CZ, classical CNOT/CZ, "
    "measure-reset on every ordered register pair) on (2e,1p,1c) and (1e,2p,2c), 3 ops over a reduced alphabet on (2e,1p,1c) "
    "(thorough: also (1e,2p,2c), (2e,2p,1c)), the 17 operation-free circuits on <= 2+2+1 registers, built with add(); "
    "300 (thorough 10000) seeded random circuits of <= 12 ops on <= (3e,3p,2c) built with add(); 60 (thorough 2000) circuits "
    "produced by random add/insert_at/remove_op/copy histories; each with default and explicit penalty"
)


@S.item("CircuitDepth.value", site=M + "CircuitDepth.evaluate / CircuitDAG.depth", bound=BOUND, clause="depth")
def depth_case(inp):
    return both("CircuitDepth", "depth_penalty", inp, lambda ne, ops, cw: rm.depth(ops, cw))


@S.item(
    "register_depth.value",
    site="graphiq.circuit.circuit_dag:CircuitDAG.register_depth / calculate_reg_depth / min_reg_depth_index / sorted_reg_depth_index",
    bound=BOUND,
    clause="per-register depth",
)
def regdepth_case(inp):
    c, ne, ops, cw = build(inp)
    n = {"e": c.n_emitters, "p": c.n_photons, "c": c.n_classical}
    want = {t: [rm.register_depth(ops, (t, i), cw) for i in range(n[t])] for t in "epc"}
    got = c.register_depth
    got = {t: [int(x) for x in got[t]] for t in got}
    if got != want:
        return f"register_depth = {got}, definition gives {want}"
    for t in "epc":
        g = [int(x) for x in c.calculate_reg_depth(t)]
        if g != want[t]:
            return f"calculate_reg_depth({t!r}) = {g}, definition gives {want[t]}"
        if n[t]:
            i = int(c.min_reg_depth_index(t))
            if want[t][i] != min(want[t]):
                return f"min_reg_depth_index({t!r}) = {i} but depths are {want[t]}"
            order = [int(x) for x in c.sorted_reg_depth_index(t)]
            ds = [want[t][j] for j in order]
            if sorted(order) != list(range(n[t])) or ds != sorted(ds):
                return f"sorted_reg_depth_index({t!r}) = {order} but depths are {want[t]}"
    return None


@S.item("CircuitEmitterCount.value", site=M + "CircuitEmitterCount.evaluate", bound=BOUND, clause="emitter count")
def emitters_case(inp):
    return both("CircuitEmitterCount", "n_emitter_penalty", inp, lambda ne, ops, cw: rm.emitter_count(ne))


@S.item("CircuitCnotCount.value", site=M + "CircuitCnotCount.evaluate", bound=BOUND, clause="emitter-emitter CNOT count")
def cnot_case(inp):
    return both("CircuitCnotCount", "n_cnot_penalty", inp, lambda ne, ops, cw: rm.ee_cnot_count(ops))


@S.item("CircuitUnitaryCount.value", site=M + "CircuitUnitaryCount.evaluate", bound=BOUND, clause="unitary count")
def unitary_case(inp):
    return both("CircuitUnitaryCount", "n_unitary_penalty", inp, lambda ne, ops, cw: rm.unitary_count(ops))


@S.item(
    "CircuitMeasureCount.value",
    site=M + "CircuitMeasureCount.evaluate",
    bound=BOUND + "; narrow reading: measure-and-reset operations",
    clause="measurement count",
)
def measure_case(inp):
    return both("CircuitMeasureCount", "m_penalty", inp, lambda ne, ops, cw: rm.measure_count(ops))


@S.item(
    "CircuitMaxEmitDepth.value",
    site=M + "CircuitMaxEmitDepth.evaluate / CircuitDAG.reg_gate_history",
    bound=BOUND + "; without emitters the maximum is undefined and ValueError is allowed",
    clause="maximum emitter depth",
)
def emitdepth_case(inp):
    return both("CircuitMaxEmitDepth", "depth_penalty", inp, lambda ne, ops, cw: rm.max_emitter_depth(ne, ops), True)


RESET_NOTE = "; circuits in which a measure-reset *targets* an emitter are left out (two readings of 'reset point' differ there)"


@S.item(
    "CircuitMaxEmitResetDepth.value",
    site=M + "CircuitMaxEmitResetDepth.evaluate",
    bound=BOUND + RESET_NOTE,
    clause="reset depth",
)
def resetdepth_case(inp):
    return both("CircuitMaxEmitResetDepth", "depth_penalty", inp, lambda ne, ops, cw: rm.reset_depth(ne, ops), True)


@S.item(
    "CircuitMaxEmitEffDepth.value",
    site=M + "CircuitMaxEmitEffDepth.evaluate / CircuitDAG._max_depth",
    bound=BOUND + RESET_NOTE,
    clause="effective depth",
)
def effdepth_case(inp):
    return both("CircuitMaxEmitEffDepth", "depth_penalty", inp, lambda ne, ops, cw: rm.effective_depth(ne, ops, cw), True)


@S.item(
    "metrics.default_construction",
    site=M + "Circuit* metric classes __init__",
    bound="the 9 circuit metric classes, default construction, evaluated on 6 fixed circuits (empty, gates only, wrappers and "
    "identities, resets, two emitters entangled, no emitter)",
    exhaustive=True,
    clause="including when the metric object is constructed with its default arguments",
)
def default_case(inp):
    import graphiq.metrics as gm

    for name in (
        "CircuitDepth", "CircuitEmitterCount", "CircuitCnotCount", "CircuitUnitaryCount", "CircuitMeasureCount",
        "CircuitMaxEmitDepth", "CircuitMaxEmitResetDepth", "CircuitMaxEmitEffDepth",
    ):
        c, ne, ops, cw = build(inp)
        met = getattr(gm, name)()
        try:
            v = met.evaluate(None, c)
        except ValueError:
            if ne == 0 and name.startswith("CircuitMaxEmit"):
                continue
            raise
        if not isinstance(v, (int, np.integer)) or isinstance(v, bool):
            return f"{name}().evaluate returned {v!r}"
    return None


# ---------------------------------------------------------------------------------------------- domain
def alphabet(regs, full):
    ne, np_, nc = regs
    Q = [["e", i] for i in range(ne)] + [["p", i] for i in range(np_)]
    cs = list(range(nc)) or [0]
    out = []
    one = ["I", "H", "P", "PD", "X", "Y", "Z"] if full else ["H", "I"]
    wr = [["H", "P"], ["I"], ["X", "I", "Z"]] if full else [["I", "H", "P"]]
    for q in Q:
        out += [["g", g, q] for g in one]
        out += [["w", w, q] for w in wr]
    for q in Q if full else Q[:1]:
        out.append(["mz", q, cs[0]])
    pairs = [(a, b) for a in Q for b in Q if a != b]
    for a, b in pairs:
        if full or a[0] == "e":
            out.append(["cx", a, b])
        if full or (a, b) == (Q[0], Q[1]):
            out.append(["cz", a, b])
        if full:
            out.append(["ccx", a, b, cs[0]])
            out.append(["ccz", a, b, cs[-1]])
        if a[0] == "e" and (full or b[0] == "p"):
            out.append(["mcr", a, b, cs[-1]])
    return out


def random_ops(rng, regs, n):
    A = alphabet(regs, True)
    return [A[rng.integers(len(A))] for _ in range(n)]


FIXED = [
    {"regs": [1, 1, 1], "ops": []},
    {"regs": [1, 1, 0], "ops": [["g", "H", ["e", 0]], ["cx", ["e", 0], ["p", 0]], ["g", "Z", ["p", 0]]]},
    {"regs": [1, 1, 0], "ops": [["w", ["H", "I", "P"], ["e", 0]], ["g", "I", ["e", 0]], ["cz", ["e", 0], ["p", 0]]]},
    {"regs": [1, 2, 1], "ops": [["g", "H", ["e", 0]], ["cx", ["e", 0], ["p", 0]], ["mcr", ["e", 0], ["p", 0], 0], ["g", "H", ["e", 0]], ["cx", ["e", 0], ["p", 1]]]},
    {"regs": [2, 1, 1], "ops": [["g", "H", ["e", 0]], ["cx", ["e", 0], ["e", 1]], ["cz", ["e", 1], ["e", 0]], ["cx", ["e", 1], ["p", 0]]]},
    {"regs": [0, 2, 1], "ops": [["g", "H", ["p", 0]], ["cz", ["p", 0], ["p", 1]], ["mz", ["p", 1], 0]]},
]


def nontrivial(inp):
    return "seed" in inp or len(inp["ops"]) >= 2


def no_emitter_target_reset(inp):
    return "seed" in inp or not rm.mcr_targets_emitter(inp["ops"])


def run(tier, seed):
    import graphiq.metrics  # noqa: F401  (imported before the pool forks)

    thorough = tier == "thorough"
    regs = [2, 1, 1]
    full = alphabet(regs, True)
    red = alphabet(regs, False)
    circuits = [{"regs": regs, "ops": list(t)} for k in range(3) for t in itertools.product(full, repeat=k)]
    circuits += [{"regs": regs, "ops": list(t)} for t in itertools.product(red, repeat=3)]
    regs2 = [1, 2, 2]
    circuits += [{"regs": regs2, "ops": list(t)} for k in (1, 2) for t in itertools.product(alphabet(regs2, True), repeat=k)]
    if thorough:
        circuits += [{"regs": regs2, "ops": list(t)} for t in itertools.product(alphabet(regs2, False), repeat=3)]
        circuits += [{"regs": [2, 2, 1], "ops": list(t)} for t in itertools.product(alphabet([2, 2, 1], False), repeat=3)]
    # circuits without operations on every small register layout, and the fixed circuits of metrics.default_construction
    circuits += [{"regs": [a, b, c], "ops": []} for a in range(3) for b in range(3) for c in range(2) if a + b + c > 0]
    circuits += FIXED
    rng = np.random.default_rng([seed, 1818])
    for j in range(10000 if thorough else 300):
        rg = [(2, 1, 1), (1, 2, 2), (3, 3, 2), (2, 2, 1), (0, 2, 1), (1, 0, 1)][j % 6]
        circuits.append({"regs": list(rg), "ops": random_ops(rng, rg, int(rng.integers(1, 13)))})
    for j in range(2000 if thorough else 60):
        rg = [(2, 1, 1), (1, 2, 2), (3, 2, 1)][j % 3]
        circuits.append({"regs": list(rg), "seed": seed * 7919 + j, "len": 25})
    FIXED_ALL = FIXED
    for name in (
        "CircuitDepth.value", "register_depth.value", "CircuitEmitterCount.value", "CircuitCnotCount.value",
        "CircuitUnitaryCount.value", "CircuitMeasureCount.value", "CircuitMaxEmitDepth.value",
    ):
        S.map(name, circuits, nontrivial=nontrivial)
    sub = [c for c in circuits if no_emitter_target_reset(c)]
    for name in ("CircuitMaxEmitResetDepth.value", "CircuitMaxEmitEffDepth.value"):
        S.map(name, sub, nontrivial=nontrivial)
    S.map("metrics.default_construction", FIXED_ALL)
    wide = sum(1 for c in circuits if "ops" in c and rm.measure_count(c["ops"], True) != rm.measure_count(c["ops"]))
    S.note(
        f"CircuitMeasureCount: contract takes the narrow reading (measure-and-reset operations only); on {wide} of the "
        f"{len(circuits)} driven circuits the wide reading (+ MeasurementZ + classically controlled gates) gives a larger number"
    )
    S.note(
        "depth / register depth: classical registers count as registers (two operations writing the same classical register "
        "are dependent) exactly when the operation is wired to the classical register, i.e. when it was placed by add()"
    )
    return S
