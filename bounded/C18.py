"""C18 - circuit cost metrics equal the quantities they are defined as  (bounded stand-in, tag [B]).

Every metric class of graphiq/metrics.py that is a function of the circuit is evaluated on the REAL circuit object, once
constructed with its default arguments and once with an explicit penalty function (x -> 3x+2), and compared with the
independent definition in refsem/metrics.py computed from the input's operation list (never from the DAG).

input (JSON):  {"regs":[ne,np,nc], "ops":[op,...]}                    circuit built with add() in list order
               {"regs":[ne,np,nc], "seed":s, "len":L}                 circuit built by a random edit history (C12 driver);
                                                                      the definition is evaluated on the wire model
               {"regs":..., "seed":s, "len":L [, "focus", "cfocus", "cap"]}   metrics.query_edit_query: edit history with queries
                                                                      in between (focus: ops on registers with index >= 10)
               {"regs":..., "start":[op..], "edits":[edit..], "on_copy":b, "query_between":b}   metrics.query_edit_query_short
op descriptors: see refsem/dagmodel.py ; edits: see bounded/C12.py
"""
from __future__ import annotations

import itertools

import numpy as np

from vf.bounded import Suite
from refsem import metrics as rm
from refsem import dagmodel as dm
from bounded.C12 import mk_op, Run, op_alphabet, real_desc, focus_alphabet, focus_now, options, model_apply, STARTS

S = Suite("C18")
PEN = (3, 2)  # explicit penalty x -> 3x+2


def penalty(x):
    return PEN[0] * x + PEN[1]


def build(inp):
    """-> (fresh real circuit, n_e, ops list in an applicable order, cw or None)"""
    if "ops" in inp:
        from graphiq.circuit.circuit_dag import CircuitDAG

        ne, np_, nc = inp["regs"]
        c = CircuitDAG(n_emitter=ne, n_photon=np_, n_classical=nc)
        for d in inp["ops"]:
            c.add(mk_op(d))
        return c, c.n_emitters, [list(d) for d in inp["ops"]], None
    r = history(inp)
    order = r.m.linear_order()
    ops = [r.m.ops[u] for u in order]
    cw = [sorted(int(k[1:]) for k in r.m.cwired[u]) for u in order]
    return r.c, r.m.n["e"], ops, cw


def history(inp):
    rng = np.random.default_rng([inp["seed"], 18])
    r = Run(inp["regs"], deep=False)
    r.check("construction")
    for _ in range(inp["len"]):
        m = r.m
        A = [d for d in op_alphabet(m.n, "A", True) if not (d[0] == "mcr" and d[2][0] == "e")]
        x = rng.random()
        if x < 0.35:
            ed = ["add", A[rng.integers(len(A))]]
        elif x < 0.8:
            d = A[rng.integers(len(A))]
            ed = ["ins", d, [int(rng.integers(len(m.wires[dm.key(q)]) + 1)) for q in dm.qregs(d)]]
        elif x < 0.92:
            ed = ["rm", int(rng.integers(max(1, len(m.ops))))]
        else:
            ed = ["copy"]
        s = r.apply(ed)
        if s:
            raise RuntimeError("C12 failure while building the circuit: " + s)
    return r


def both(cls_name, kw, inp, want_fn, allow_no_emitter=False):
    """evaluate metric class `cls_name` with default arguments and with the explicit penalty (keyword kw)"""
    import graphiq.metrics as gm

    for explicit in (False, True):
        c, ne, ops, cw = build(inp)
        want = want_fn(ne, ops, cw)
        met = getattr(gm, cls_name)(**({kw: penalty} if explicit else {}))
        if want is None and allow_no_emitter:
            try:
                met.evaluate(None, c)
            except ValueError:
                pass  # max() over no emitters: the quantity is undefined, raising is allowed
            continue
        got = met.evaluate(None, c)
        exp = penalty(want) if explicit else want
        if got != exp or isinstance(got, bool):
            return f"{cls_name}({'penalty 3x+2' if explicit else 'default'}).evaluate = {got!r}, definition gives {exp!r}"
    return None


M = "graphiq.metrics:"
BOUND = (
    "all circuits of <= 2 ops over the full alphabet (7 one-qubit gates, 3 wrappers, MeasurementZ, CNOT, CZ, classical CNOT/CZ, "
    "measure-reset on every ordered register pair) on (2e,1p,1c) and (1e,2p,2c), 3 ops over a reduced alphabet on (2e,1p,1c) "
    "(thorough: also (1e,2p,2c), (2e,2p,1c)), the 17 operation-free circuits on <= 2+2+1 registers, built with add(); "
    "300 (thorough 10000) seeded random circuits of <= 12 ops on <= (3e,3p,2c) built with add(); 60 (thorough 2000) circuits "
    "produced by random add/insert_at/remove_op/copy histories; each with default and explicit penalty"
)


@S.item("CircuitDepth.value", site=M + "CircuitDepth.evaluate / CircuitDAG.depth", bound=BOUND, clause="depth")
def depth_case(inp):
    return both("CircuitDepth", "depth_penalty", inp, lambda ne, ops, cw: rm.depth(ops, cw))


@S.item(
    "register_depth.value",
    site="graphiq.circuit.circuit_dag:CircuitDAG.register_depth / calculate_reg_depth / min_reg_depth_index / sorted_reg_depth_index",
    bound=BOUND,
    clause="per-register depth",
)
def regdepth_case(inp):
    c, ne, ops, cw = build(inp)
    n = {"e": c.n_emitters, "p": c.n_photons, "c": c.n_classical}
    want = {t: [rm.register_depth(ops, (t, i), cw) for i in range(n[t])] for t in "epc"}
    got = c.register_depth
    got = {t: [int(x) for x in got[t]] for t in got}
    if got != want:
        return f"register_depth = {got}, definition gives {want}"
    for t in "epc":
        g = [int(x) for x in c.calculate_reg_depth(t)]
        if g != want[t]:
            return f"calculate_reg_depth({t!r}) = {g}, definition gives {want[t]}"
        if n[t]:
            i = int(c.min_reg_depth_index(t))
            if want[t][i] != min(want[t]):
                return f"min_reg_depth_index({t!r}) = {i} but depths are {want[t]}"
            order = [int(x) for x in c.sorted_reg_depth_index(t)]
            ds = [want[t][j] for j in order]
            if sorted(order) != list(range(n[t])) or ds != sorted(ds):
                return f"sorted_reg_depth_index({t!r}) = {order} but depths are {want[t]}"
    return None


@S.item("CircuitEmitterCount.value", site=M + "CircuitEmitterCount.evaluate", bound=BOUND, clause="emitter count")
def emitters_case(inp):
    return both("CircuitEmitterCount", "n_emitter_penalty", inp, lambda ne, ops, cw: rm.emitter_count(ne))


@S.item("CircuitCnotCount.value", site=M + "CircuitCnotCount.evaluate", bound=BOUND, clause="emitter-emitter CNOT count")
def cnot_case(inp):
    return both("CircuitCnotCount", "n_cnot_penalty", inp, lambda ne, ops, cw: rm.ee_cnot_count(ops))


@S.item("CircuitUnitaryCount.value", site=M + "CircuitUnitaryCount.evaluate", bound=BOUND, clause="unitary count")
def unitary_case(inp):
    return both("CircuitUnitaryCount", "n_unitary_penalty", inp, lambda ne, ops, cw: rm.unitary_count(ops))


@S.item(
    "CircuitMeasureCount.value",
    site=M + "CircuitMeasureCount.evaluate",
    bound=BOUND + "; narrow reading: measure-and-reset operations",
    clause="measurement count",
)
def measure_case(inp):
    return both("CircuitMeasureCount", "m_penalty", inp, lambda ne, ops, cw: rm.measure_count(ops))


@S.item(
    "CircuitMaxEmitDepth.value",
    site=M + "CircuitMaxEmitDepth.evaluate / CircuitDAG.reg_gate_history",
    bound=BOUND + "; without emitters the maximum is undefined and ValueError is allowed",
    clause="maximum emitter depth",
)
def emitdepth_case(inp):
    return both("CircuitMaxEmitDepth", "depth_penalty", inp, lambda ne, ops, cw: rm.max_emitter_depth(ne, ops), True)


RESET_NOTE = "; circuits in which a measure-reset *targets* an emitter are left out (two readings of 'reset point' differ there)"


@S.item(
    "CircuitMaxEmitResetDepth.value",
    site=M + "CircuitMaxEmitResetDepth.evaluate",
    bound=BOUND + RESET_NOTE,
    clause="reset depth",
)
def resetdepth_case(inp):
    return both("CircuitMaxEmitResetDepth", "depth_penalty", inp, lambda ne, ops, cw: rm.reset_depth(ne, ops), True)


@S.item(
    "CircuitMaxEmitEffDepth.value",
    site=M + "CircuitMaxEmitEffDepth.evaluate / CircuitDAG._max_depth",
    bound=BOUND + RESET_NOTE,
    clause="effective depth",
)
def effdepth_case(inp):
    return both("CircuitMaxEmitEffDepth", "depth_penalty", inp, lambda ne, ops, cw: rm.effective_depth(ne, ops, cw), True)


@S.item(
    "metrics.default_construction",
    site=M + "Circuit* metric classes __init__",
    bound="the 9 circuit metric classes, default construction, evaluated on 6 fixed circuits (empty, gates only, wrappers and "
    "identities, resets, two emitters entangled, no emitter)",
    exhaustive=True,
    clause="including when the metric object is constructed with its default arguments",
)
def default_case(inp):
    import graphiq.metrics as gm

    for name in (
        "CircuitDepth", "CircuitEmitterCount", "CircuitCnotCount", "CircuitUnitaryCount", "CircuitMeasureCount",
        "CircuitMaxEmitDepth", "CircuitMaxEmitResetDepth", "CircuitMaxEmitEffDepth",
    ):
        c, ne, ops, cw = build(inp)
        met = getattr(gm, name)()
        try:
            v = met.evaluate(None, c)
        except ValueError:
            if ne == 0 and name.startswith("CircuitMaxEmit"):
                continue
            raise
        if not isinstance(v, (int, np.integer)) or isinstance(v, bool):
            return f"{name}().evaluate returned {v!r}"
    return None


# ---------------------------------------------------------------------------------------------- query - edit - query (H4, H1, H2)
METRIC_KW = {
    "CircuitDepth": "depth_penalty", "CircuitEmitterCount": "n_emitter_penalty", "CircuitCnotCount": "n_cnot_penalty",
    "CircuitUnitaryCount": "n_unitary_penalty", "CircuitMeasureCount": "m_penalty", "CircuitMaxEmitDepth": "depth_penalty",
    "CircuitMaxEmitResetDepth": "depth_penalty", "CircuitMaxEmitEffDepth": "depth_penalty",
}
QUERIES = ["depth", "register_depth", "calculate_reg_depth"] + list(METRIC_KW)


def definition(m):
    """every C18 quantity of the circuit described by the wire model m, from its operation list (refsem.metrics)"""
    order = m.linear_order()
    ops = [m.ops[u] for u in order]
    cw = [sorted(int(k[1:]) for k in m.cwired[u]) for u in order]
    ne = m.n["e"]
    rd = {t: [rm.register_depth(ops, (t, i), cw) for i in range(m.n[t])] for t in "epc"}
    two_readings = rm.mcr_targets_emitter(ops)
    return {
        "depth": rm.depth(ops, cw), "register_depth": rd, "calculate_reg_depth": rd,
        "CircuitDepth": rm.depth(ops, cw), "CircuitEmitterCount": rm.emitter_count(ne), "CircuitCnotCount": rm.ee_cnot_count(ops),
        "CircuitUnitaryCount": rm.unitary_count(ops), "CircuitMeasureCount": rm.measure_count(ops),
        "CircuitMaxEmitDepth": rm.max_emitter_depth(ne, ops),
        "CircuitMaxEmitResetDepth": "skip" if two_readings else rm.reset_depth(ne, ops),
        "CircuitMaxEmitEffDepth": "skip" if two_readings else rm.effective_depth(ne, ops, cw),
    }


class Meters:
    """ONE metric object per class and construction (default / explicit penalty), used for every query of a history"""

    def __init__(self):
        import graphiq.metrics as gm

        self.objs = {name: (getattr(gm, name)(), getattr(gm, name)(**{kw: penalty})) for name, kw in METRIC_KW.items()}

    def ask(self, c, name, want, explicit):
        """one query on the real circuit c; -> symptom or None"""
        if want == "skip":
            return None
        if name == "depth":
            got = c.depth
            return None if got == want and not isinstance(got, bool) else f"circuit.depth = {got!r}, definition gives {want!r}"
        if name == "register_depth":
            got = c.register_depth
            got = {t: [int(x) for x in got[t]] for t in got}
            return None if got == want else f"register_depth = {got}, definition gives {want}"
        if name == "calculate_reg_depth":
            for t in "epc":
                g = [int(x) for x in c.calculate_reg_depth(t)]
                if g != want[t]:
                    return f"calculate_reg_depth({t!r}) = {g}, definition gives {want[t]}"
                if want[t]:
                    i = int(c.min_reg_depth_index(t))
                    if want[t][i] != min(want[t]):
                        return f"min_reg_depth_index({t!r}) = {i} but depths are {want[t]}"
            return None
        met = self.objs[name][1 if explicit else 0]
        if want is None:  # no emitter: the maximum is undefined, ValueError allowed
            try:
                met.evaluate(None, c)
            except ValueError:
                pass
            return None
        got = met.evaluate(None, c)
        exp = penalty(want) if explicit else want
        if got != exp or isinstance(got, bool):
            return f"{name}({'penalty 3x+2' if explicit else 'default'}).evaluate = {got!r}, definition gives {exp!r}"
        return None


def ask_all(meters, c, m, names, tag, explicit_of=None):
    want = definition(m)
    for j, name in enumerate(names):
        explicit = (j % 2 == 1) if explicit_of is None else explicit_of(j)
        s = meters.ask(c, name, want[name], explicit)
        if s:
            return f"{tag}: query {name}: {s}"
    return None


def qeq_history(inp):
    """a seeded edit history (all edit kinds of the C12 driver) with metric queries in between.  After every query batch
    the circuit must still be the circuit the specification describes (queries do not modify their argument)."""
    rng = np.random.default_rng([inp["seed"], 1804])
    r = Run(inp["regs"], deep=False)
    s = r.check("construction")
    if s:
        return s
    meters = Meters()
    frozen = []  # (circuit, specification snapshot, step): circuits a copy was taken from; they must keep their values
    fam = "A"
    cap = inp.get("cap", [3, 3, 2])
    target = inp.get("target_ops", 9)

    def batch(tag):
        k = int(rng.integers(1, len(QUERIES) + 1))
        names = [QUERIES[i] for i in rng.permutation(len(QUERIES))[:k]]
        if rng.random() < 0.3:
            names = names + names  # the same queries twice in a row
        flip = int(rng.integers(2))
        s = ask_all(meters, r.c, r.m, names, tag, lambda j: (j + flip) % 2 == 1)
        if s:
            return s
        s = r.check(tag + ": after the queries")
        if s:
            return s + " (a query modified the circuit)"
        for c0, m0, step in frozen[-2:]:
            if rng.random() < 0.5:
                s = ask_all(meters, c0, m0, names[:4], f"{tag}: circuit copied at edit #{step} (its copy was edited since)", lambda j: (j + flip) % 2 == 0)
                if s:
                    return s
        return None

    s = batch("before the first edit")
    if s:
        return s
    for step in range(inp["len"]):
        m = r.m
        n_ops = len(m.ops)
        if "focus" in inp:
            Q, C = focus_now(m, inp["focus"], inp["cfocus"])
            A = focus_alphabet(Q, C, fam, True)
        else:
            A = op_alphabet(m.n, fam, True)
        A = [d for d in A if not (d[0] == "mcr" and d[2][0] == "e")] if inp.get("no_emitter_target_reset", True) else A
        x = rng.random()
        p_add = 0.5 if n_ops < target else 0.15
        if x < p_add:
            d = A[rng.integers(len(A))]
            if rng.random() < 0.4:
                ed = ["add", d]
            else:
                ed = ["ins", d, [int(rng.integers(len(m.wires[dm.key(q)]) + 1)) for q in dm.qregs(d)]]
        elif x < p_add + 0.3:
            ed = ["rm", int(rng.integers(max(1, n_ops)))]
        elif x < p_add + 0.4:
            ids = m.op_ids()
            if not ids:
                continue
            k = int(rng.integers(len(ids)))
            old = m.ops[ids[k]]
            cands = {"g": [["g", "Z"], ["w", ["P", "H"]], ["g", "I"], ["w", ["I", "I"]]], "w": [["g", "Y"], ["w", ["X"]], ["g", "I"]],
                     "cx": [["cz"]], "cz": [["cx"]], "ccx": [["mcr"], ["ccz"]], "ccz": [["ccx"]], "mcr": [["ccx"]], "mz": [["mz"]]}[old[0]]
            a = cands[rng.integers(len(cands))]
            if a[0] == "mcr" and old[2][0] == "e":
                continue  # would create a measure-reset that targets an emitter (two readings, see RESET_NOTE)
            ed = ["rep", k, a + [None] if a[0] in ("g", "w") else a]
        else:
            y = rng.random()
            if y < 0.22:
                ed = ["unwrap"]
            elif y < 0.44:
                ed = ["rmid"]
            elif y < 0.62:
                ed = ["group"]
            elif y < 0.85:
                ed = ["copy"]
            else:
                t = "epc"[rng.integers(3)]
                if m.n[t] >= cap["epc".index(t)]:
                    continue
                ed = ["addreg", t]
        if ed[0] == "copy":
            frozen.append((r.c, r.m.copy(), len(r.trace) + 1))
        s = r.apply(ed)
        if s:
            raise RuntimeError("C12 failure while editing the circuit: " + s)
        if rng.random() < 0.75:
            s = batch(f"after edit #{len(r.trace)} {r.trace[-1]} (previous {r.trace[-4:-1]})")
            if s:
                return s
    names = list(QUERIES)
    s = ask_all(meters, r.c, r.m, names, f"at the end (last edits {r.trace[-4:]})") or ask_all(meters, r.c, r.m, names, "at the end, second evaluation", lambda j: j % 2 == 0)
    if s:
        return s
    for c0, m0, step in frozen[-3:]:
        s = ask_all(meters, c0, m0, names, f"at the end: circuit copied at edit #{step} (its copy was edited since)")
        if s:
            return s
    return None


def qeq_short(inp):
    """start circuit - all queries - edits - all queries (twice) ; also on a copy taken after the first queries"""
    r = Run(inp["regs"], deep=False)
    r.check("construction")
    for d in inp.get("start", []):
        r.c.add(mk_op(d))
        r.m.add(d)
    s = r.check("building the start circuit")
    if s:
        raise RuntimeError("C12 failure: " + s)
    meters = Meters()
    names = list(QUERIES)
    s = ask_all(meters, r.c, r.m, names, "before the edits")
    if s:
        return s
    if inp.get("on_copy"):
        c0, m0 = r.c, r.m.copy()
        r.c = r.c.copy()
    for ed in inp["edits"]:
        s = r.apply(list(ed))
        if s:
            raise RuntimeError("C12 failure while editing the circuit: " + s)
        if inp.get("query_between"):
            s = ask_all(meters, r.c, r.m, names, f"after {ed}", lambda j: j % 2 == 0)
            if s:
                return s
    tag = f"after the edits {inp['edits']}" + (" of a copy taken after the first queries" if inp.get("on_copy") else "")
    s = ask_all(meters, r.c, r.m, names, tag, lambda j: j % 2 == 0) or ask_all(meters, r.c, r.m, names, tag + ", second evaluation")
    if s:
        return s
    s = r.check(tag + ": after the queries")
    if s:
        return s + " (a query modified the circuit)"
    if inp.get("on_copy"):
        s = ask_all(meters, c0, m0, names, tag + ": the circuit the copy was taken from")
        if s:
            return s
    return None


QEQ_BOUND_RANDOM = (
    "seeded edit histories of the C12 driver (add, insert_at, remove_op, replace_op, unwrap_nodes, remove_identity, "
    "group_one_qubit_gates, copy, add_*_register; removals as likely as additions, circuits kept at <= ~10 ops) with a query batch "
    "after ~75% of the edits: a random non-empty subset of {depth, register_depth, calculate_reg_depth/min_reg_depth_index, the 8 "
    "metric classes} in random order, 30% of the batches asked twice in a row, default and explicit penalty alternating; ONE metric "
    "object per class for the whole history; after every batch the circuit must still equal its specification (queries do not "
    "modify it); circuits a copy was taken from are queried again after their copy was edited; all queries twice at the end. "
    "quick: 96 histories x 60 edits on <= (3e,3p,2c) and 32 x 40 on circuits with 10..13 registers per type (focus on indices "
    ">= 9); thorough 600 x 80 and 200 x 60" + RESET_NOTE
)


@S.item("metrics.query_edit_query", site=M + "Circuit* metric classes / graphiq.circuit.circuit_dag:CircuitDAG.depth, register_depth, _max_depth",
        bound=QEQ_BOUND_RANDOM, clause="each cost metric equals its definition - for every circuit, whatever its edit and query history")
def qeq_case(inp):
    return qeq_history(inp)


@S.item("metrics.query_edit_query_short",
        site=M + "Circuit* metric classes / graphiq.circuit.circuit_dag:CircuitDAG.depth, register_depth, _max_depth",
        bound="from each of the 4 C12 start circuits STARTS plus 3 circuits with identities / wrappers / resets (QEQ_STARTS): all "
        "queries - ONE edit - all queries twice, for EVERY edit offered by the C12 edit alphabet options() (rich alphabet, family A: "
        "all add / insert positions, every removable node, class replacements, unwrap, group, remove_identity, register additions, "
        "copy), on the circuit itself and on a copy taken after the first queries (additions: alternately one of the two; the "
        "original is queried again afterwards); and "
        "all pairs (removal-kind edit, any non-adding edit) [rm, rmid, unwrap, group, rep, copy] with queries in between, and all "
        "pairs (removal, Hadamard added / inserted at any position) without a query in between",
        exhaustive=True,
        clause="each cost metric equals its definition after a first query and one or two edits (stale cached values)")
def qeq_short_case(inp):
    return qeq_short(inp)


QEQ_STARTS = [
    ((2, 1, 1), [["g", "I", ["e", 0]], ["g", "H", ["e", 0]], ["cx", ["e", 0], ["e", 1]], ["g", "I", ["e", 1]], ["cx", ["e", 1], ["p", 0]],
                 ["w", ["I", "H"], ["p", 0]], ["mcr", ["e", 1], ["p", 0], 0], ["g", "X", ["e", 0]]]),
    ((1, 2, 1), [["w", ["I", "I"], ["e", 0]], ["cx", ["e", 0], ["p", 0]], ["g", "I", ["e", 0]], ["g", "I", ["e", 0]], ["cx", ["e", 0], ["p", 1]],
                 ["mcr", ["e", 0], ["p", 1], 0], ["g", "H", ["e", 0]], ["g", "I", ["p", 1]]]),
    ((2, 2, 0), [["g", "H", ["e", 0]], ["g", "P", ["e", 0]], ["cx", ["e", 0], ["p", 0]], ["cx", ["e", 0], ["e", 1]], ["g", "Z", ["e", 1]],
                 ["cz", ["e", 1], ["p", 1]], ["w", ["H", "P"], ["p", 1]]]),
]


def qeq_short_inputs():
    out = []
    for regs, start in list(STARTS) + QEQ_STARTS:
        m0 = dm.WireModel(*regs)
        for d in start:
            model_apply(m0, ["add", d])
        opts = options(m0, "A", True)
        opts = [ed for ed in opts if not (ed[0] in ("add", "ins") and ed[1][0] == "mcr" and ed[1][2][0] == "e")]
        opts = [ed for ed in opts if not (ed[0] == "rep" and ed[2][0] == "mcr" and m0.ops[m0.op_ids()[ed[1]]][2][0] == "e")]
        singles = []
        for ed in opts:
            if ed[0] == "ins" and len(ed[2]) == 2 and m0.insert_would_cycle(ed[1], ed[2]):
                continue
            if ed[0] == "add":
                try:
                    m0.registers_needed(ed[1])
                except dm.RegisterError:
                    continue
            singles.append(ed)
        for j, ed in enumerate(singles):
            # additions: alternately on the circuit itself / on a copy; every other edit kind: both
            for on_copy in ((j % 2 == 1,) if ed[0] in ("add", "ins") else (False, True)):
                out.append({"regs": list(regs), "start": start, "edits": [ed], "on_copy": on_copy})
        first = [ed for ed in singles if ed[0] in ("rm", "rmid", "unwrap", "group", "copy")]
        for e1 in first:
            m1 = m0.copy()
            model_apply(m1, e1)
            second = [ed for ed in options(m1, "A", False) if ed[0] in ("rm", "rmid", "unwrap", "group", "rep", "copy")]
            second = [ed for ed in second if not (ed[0] == "rep" and ed[2][0] == "mcr" and m1.ops[m1.op_ids()[ed[1]]][2][0] == "e")]
            for e2 in second:
                out.append({"regs": list(regs), "start": start, "edits": [e1, e2], "query_between": True, "on_copy": e1[0] == "rm"})
            if e1[0] == "rm":
                # a removal followed by an addition, NO query in between (node and edge counts are back to what they were)
                for e2 in options(m1, "A", False):
                    if e2[0] in ("add", "ins") and e2[1][0] == "g" and e2[1][1] == "H":
                        try:
                            m1.registers_needed(e2[1])
                        except dm.RegisterError:
                            continue
                        out.append({"regs": list(regs), "start": start, "edits": [e1, e2], "query_between": False, "on_copy": False})
    return out


# ---------------------------------------------------------------------------------------------- domain
def alphabet(regs, full):
    ne, np_, nc = regs
    Q = [["e", i] for i in range(ne)] + [["p", i] for i in range(np_)]
    cs = list(range(nc)) or [0]
    out = []
    one = ["I", "H", "P", "PD", "X", "Y", "Z"] if full else ["H", "I"]
    wr = [["H", "P"], ["I"], ["X", "I", "Z"]] if full else [["I", "H", "P"]]
    for q in Q:
        out += [["g", g, q] for g in one]
        out += [["w", w, q] for w in wr]
    for q in Q if full else Q[:1]:
        out.append(["mz", q, cs[0]])
    pairs = [(a, b) for a in Q for b in Q if a != b]
    for a, b in pairs:
        if full or a[0] == "e":
            out.append(["cx", a, b])
        if full or (a, b) == (Q[0], Q[1]):
            out.append(["cz", a, b])
        if full:
            out.append(["ccx", a, b, cs[0]])
            out.append(["ccz", a, b, cs[-1]])
        if a[0] == "e" and (full or b[0] == "p"):
            out.append(["mcr", a, b, cs[-1]])
    return out


def random_ops(rng, regs, n):
    A = alphabet(regs, True)
    return [A[rng.integers(len(A))] for _ in range(n)]


FIXED = [
    {"regs": [1, 1, 1], "ops": []},
    {"regs": [1, 1, 0], "ops": [["g", "H", ["e", 0]], ["cx", ["e", 0], ["p", 0]], ["g", "Z", ["p", 0]]]},
    {"regs": [1, 1, 0], "ops": [["w", ["H", "I", "P"], ["e", 0]], ["g", "I", ["e", 0]], ["cz", ["e", 0], ["p", 0]]]},
    {"regs": [1, 2, 1], "ops": [["g", "H", ["e", 0]], ["cx", ["e", 0], ["p", 0]], ["mcr", ["e", 0], ["p", 0], 0], ["g", "H", ["e", 0]], ["cx", ["e", 0], ["p", 1]]]},
    {"regs": [2, 1, 1], "ops": [["g", "H", ["e", 0]], ["cx", ["e", 0], ["e", 1]], ["cz", ["e", 1], ["e", 0]], ["cx", ["e", 1], ["p", 0]]]},
    {"regs": [0, 2, 1], "ops": [["g", "H", ["p", 0]], ["cz", ["p", 0], ["p", 1]], ["mz", ["p", 1], 0]]},
]


HI_QEQ = [
    # (registers, focus qubits, focus classical registers): metrics on registers with a two-digit index
    ((12, 2, 1), [["e", 1], ["e", 10], ["e", 11], ["p", 1]], [0]),
    ((11, 11, 11), [["e", 0], ["e", 10], ["p", 10]], [1, 10]),
    ((2, 12, 11), [["e", 1], ["p", 1], ["p", 11]], [10]),
    ((10, 10, 10), [["e", 9], ["p", 9]], [9]),
]


def nontrivial(inp):
    return "seed" in inp or len(inp["ops"]) >= 2


def no_emitter_target_reset(inp):
    return "seed" in inp or not rm.mcr_targets_emitter(inp["ops"])


def run(tier, seed):
    import graphiq.metrics  # noqa: F401  (imported before the pool forks)

    thorough = tier == "thorough"
    regs = [2, 1, 1]
    full = alphabet(regs, True)
    red = alphabet(regs, False)
    circuits = [{"regs": regs, "ops": list(t)} for k in range(3) for t in itertools.product(full, repeat=k)]
    circuits += [{"regs": regs, "ops": list(t)} for t in itertools.product(red, repeat=3)]
    regs2 = [1, 2, 2]
    circuits += [{"regs": regs2, "ops": list(t)} for k in (1, 2) for t in itertools.product(alphabet(regs2, True), repeat=k)]
    if thorough:
        circuits += [{"regs": regs2, "ops": list(t)} for t in itertools.product(alphabet(regs2, False), repeat=3)]
        circuits += [{"regs": [2, 2, 1], "ops": list(t)} for t in itertools.product(alphabet([2, 2, 1], False), repeat=3)]
    # circuits without operations on every small register layout, and the fixed circuits of metrics.default_construction
    circuits += [{"regs": [a, b, c], "ops": []} for a in range(3) for b in range(3) for c in range(2) if a + b + c > 0]
    circuits += FIXED
    rng = np.random.default_rng([seed, 1818])
    for j in range(10000 if thorough else 300):
        rg = [(2, 1, 1), (1, 2, 2), (3, 3, 2), (2, 2, 1), (0, 2, 1), (1, 0, 1)][j % 6]
        circuits.append({"regs": list(rg), "ops": random_ops(rng, rg, int(rng.integers(1, 13)))})
    for j in range(2000 if thorough else 60):
        rg = [(2, 1, 1), (1, 2, 2), (3, 2, 1)][j % 3]
        circuits.append({"regs": list(rg), "seed": seed * 7919 + j, "len": 25})
    FIXED_ALL = FIXED
    for name in (
        "CircuitDepth.value", "register_depth.value", "CircuitEmitterCount.value", "CircuitCnotCount.value",
        "CircuitUnitaryCount.value", "CircuitMeasureCount.value", "CircuitMaxEmitDepth.value",
    ):
        S.map(name, circuits, nontrivial=nontrivial)
    sub = [c for c in circuits if no_emitter_target_reset(c)]
    for name in ("CircuitMaxEmitResetDepth.value", "CircuitMaxEmitEffDepth.value"):
        S.map(name, sub, nontrivial=nontrivial)
    S.map("metrics.default_construction", FIXED_ALL)

    # (H4/H1/H2) query - edit - query
    S.map("metrics.query_edit_query_short", qeq_short_inputs())
    hq = []
    for j in range(600 if thorough else 96):
        rg = [(2, 1, 1), (1, 2, 2), (3, 2, 1), (2, 2, 1)][j % 4]
        hq.append({"regs": list(rg), "seed": seed * 7919 + j, "len": 80 if thorough else 60})
    for j in range(200 if thorough else 32):
        rg, focus, cfocus = HI_QEQ[j % len(HI_QEQ)]
        hq.append({"regs": list(rg), "seed": seed * 7919 + 5000 + j, "len": 60 if thorough else 40, "focus": focus, "cfocus": cfocus, "cap": [13, 13, 13]})
    S.map("metrics.query_edit_query", hq, chunksize=1)
    wide = sum(1 for c in circuits if "ops" in c and rm.measure_count(c["ops"], True) != rm.measure_count(c["ops"]))
    S.note(
        f"CircuitMeasureCount: contract takes the narrow reading (measure-and-reset operations only); on {wide} of the "
        f"{len(circuits)} driven circuits the wide reading (+ MeasurementZ + classically controlled gates) gives a larger number"
    )
    S.note(
        "depth / register depth: classical registers count as registers (two operations writing the same classical register "
        "are dependent) exactly when the operation is wired to the classical register, i.e. when it was placed by add()"
    )
    return S
